"""Generates /verif/MANIFEST.json from the per-property metadata below (run: /venv/bin/python -m wbstatic.manifest)."""
from __future__ import annotations

import json
import os

from .report import VERIF

PY = "/venv/bin/python"

NOT_APPLICABLE = {
    "C01": "Round-trip equality q->R->k, Hermiticity of X(R) and the replica-weight sums depend on Wigner-Seitz "
           "geometry of real lattices/centres (which replicas tie within tolerance); no non-trivial necessary "
           "condition is visible in code shape that a sound static argument could decide. Not claimed.",
    "C03": "Equality of sums over two factorisations of one k-set is a statement about computed floating-point "
           "values; static analysis cannot bound it.",
    "C09": "Closure, the action law, idempotence and orbit uniqueness are statements about products of rotation "
           "matrices and tolerance comparisons; no structural clause distinguishes a right from a wrong composition law.",
    "C10": "Equality of an incrementally maintained sum with a from-scratch sum over every refinement history is a "
           "run-time invariant (model-checking/testing territory); its structural pieces are decided under C06/C11/C12.",
    "C20": "Equivariance under every space-group operation and idempotence of the projector depend on representation "
           "matrices and R-vector orbits computed at run time.",
    "C21": "Orthogonality and the homomorphism property of orbital rotation matrices are run-time polynomial/sympy "
           "numerics; the only structural fact is already asserted by the module at import.",
    "C24": "Isometry of U, span of frozen states and zero weight outside the window are linear-algebra post-conditions "
           "of SVD/eigen iterations.",
    "C27": "Vanishing of a band sum and integrality of an integral are numerical facts.",
    "C28": "Agreement up to discretisation error on converged grids is numerical; the structural part (factors, fder, "
           "axis swaps) is exactly what each calculator's stored reference already pins.",
    "C31": "Finite-difference accuracy statements about computed derivatives.",
}

# property id -> (technique, level category, level text, level note, design ref)
CLAIMED = {
    "C02": ("sibling cross-check of the Fourier back ends (exponent sign, net normalisation, Hermitisation placement), "
            "accumulate-not-assign rule for wrapped R-vectors, typestate rule for the K-shift phase",
            "other",
            "Decides that no R->k back end (fftw, numpy, explicit sum, k-list) differs from its siblings in the sign of the "
            "exponent, the net normalisation or the Hermitisation; that R-blocks wrapped onto the FFT box are accumulated; that "
            "the K-shift phase is steered only by state every configuration path re-assigns; that derivative factors are "
            "+i(R + tau_j - tau_i) applied der times; and that the q->R wrappers agree in direction. Does not decide numerical "
            "agreement to rounding.",
            "Trusted: Python ast; numpy/pyFFTW backward transforms carry 1/N and exp(+i...).",
            "DESIGN.md §3 C02"),
    "C04": ("attribute-definedness over the class hierarchy along the call graph of the random_gauge branch; "
            "constructor parameter -> store -> load chain",
            "other",
            "Decides that the documented random_gauge option is executable (every attribute read on that path is stored "
            "somewhere in the Data_K hierarchy; every documented option is stored under a name that is read) and that the "
            "random unitary multiplies exactly the degenerate column blocks of the eigenvector matrix used by _rotate. "
            "Does not decide k+G periodicity or numerical gauge invariance of the formulas.",
            "Trusted: Python ast, E0 index (MRO, self-attribute stores incl. setattr). getattr with computed names is not followed.",
            "DESIGN.md §3 C04"),
    "C05": ("sibling cross-check of the Wannier-basis mutators against a frozen per-WF state set; CFG must-pass for cache "
            "invalidation; path-sensitive None-domain execution of Rvectors.reorder",
            "other",
            "Decides that reorder / spin_block2interlace / double_spin rewrite every piece of per-Wannier-function state "
            "(centres, both axes of every matrix, left and right R-vector shifts, names) with one and the same index, that "
            "cached reduced centres and shift-dependent factors are invalidated afterwards on every path, and that "
            "Rvectors.reorder(order) permutes both shift arrays on every path. Does not decide numerical invariance of "
            "calculator outputs, nor invariance under unitary rotation among co-centred functions.",
            "Trusted: Python ast, E1 CFG. The per-WF state set is frozen in the checker.",
            "DESIGN.md §3 C05"),
    "C06": ("conservation rules: absorb-before-drop (same-block pairing), divisor = child count and parent zeroed on all "
            "paths (CFG must-pass), absorb path coverage, normalised initial tetrahedron weights, k-action signs",
            "other",
            "Decides that no code path creates or destroys K-point weight: dropped/merged points are absorbed first, "
            "subdivision gives the children factor/N for exactly N children and zeroes the parent on every path (both "
            "parallelepiped and tetrahedron), absorb() always adds the weight, tetrahedral grids start normalised and hand "
            "out weighted copies, and the k-point action carries the TR and inversion signs. Does not decide that symmetry "
            "images tile the grid (group geometry) or non-negativity of user-supplied weights.",
            "Trusted: Python ast, E1 CFG.",
            "DESIGN.md §3 C06"),
    "C07": ("keyword-level def-use on every Result.transform, group-average shape, CFG dominance of the irreducible-K => "
            "symmetrise rule in run(); plus the C08 grade interpreter for the declarations themselves",
            "other",
            "Decides that a wrong parity, rank or weight cannot enter symmetrisation through plumbing (every Result.transform "
            "uses and carries its own rank/transformTR/transformInv, tabulated k-points are mapped with the same operation, the "
            "group average divides by the number of operations, irreducible K-points force symmetrisation before the per-K "
            "function is configured) and, through C08's rules run in this check as R08.x, that the declared parities are those "
            "of the evaluated expressions. Does not decide numerical equality of irreducible and full-grid integrals.",
            "Trusted: as for C08; Python ast; E1 CFG.",
            "DESIGN.md §3 C07"),
    "C08": ("abstract interpretation of the formula classes over a Z2xZ2 symmetry-grade lattice (a type system for TR/inversion "
            "parity): homogeneity of sums and declared-vs-inferred comparison for every consumed declaration",
            "other",
            "Decides, for every inferable formula used by a calculator (61 formula classes, ~190 einsum/sum terms, 21 consumed "
            "declarations, the covariant() transform plumbing, SHC / shift-current / spin-velocity array code, 4 FormulaSum "
            "literals), that the declared time-reversal and inversion parity is the parity of the expression the code evaluates - "
            "for all models and k-points, including tensor components that vanish in every test system. Does not decide formulas "
            "whose transform permutes tensor axes (optical conductivity, injection current, SDCT), nor grade-neutral errors (wrong "
            "real coefficients).",
            "Trusted: Python ast, wbstatic.grading transfer rules, the 17-row base parity table of the covariant matrices "
            "(the only physics put in by hand).",
            "DESIGN.md §3 C08"),
    "C11": ("order-taint dataflow from directory listings to positional uses; f-string pattern agreement with "
            "constant-evaluated index parser; CFG dominance rules on run()'s restart bookkeeping",
            "other",
            "Decides the clause 'must not depend on the order in which the file system lists the restart files' for "
            "run_grid.py and grid/Kpoint.py (no positional use of a listing), that reader/glob/parser of the weight files "
            "invert the writer's name pattern, that the append-only K-list file receives each new point exactly once, that "
            "storage paths are bound to list positions before evaluation and that merging never deletes an already dumped "
            "point. Does not decide equality of restarted and uninterrupted results.",
            "Trusted: Python ast, E1/E2 engines, documented unordered glob/listdir.",
            "DESIGN.md §3 C11"),
    "C12": ("AST + CFG must-pass-through and monotone-update (typestate) rule on run_grid.process/run; def-use "
            "pairing of result and K-point; sibling cross-check of serial/parallel arms",
            "other",
            "Decides the exactly-once, pairing and re-ordering clauses of C12 for every completion schedule allowed "
            "by the ray.wait contract (the collected set only grows; the collection loop lies on every loop exit path; "
            "remote i is stored on K-point i of the list the remotes were created from; every path of run() passes the "
            "coordinate-based re-ordering). Does not decide floating-point reassociation of the sum.",
            "Trusted: Python ast, the E0-E2 engines, the documented contract of ray.wait.",
            "DESIGN.md §3 C12"),
    "C15": ("sibling cross-check of border computations; structural rule on the window-edge arms; def-use on Tabulator",
            "other",
            "Decides that all four 'group by gaps' sites use one definition of a group (strict >, +1, sentinels, pairing, "
            "even borders for Kramers), that select_window_degen removes/adds whole multiplets of any size at both window "
            "edges, that tabulated per-band values come from per-group averages and that wannierise uses exclude/include for "
            "frozen/outer windows. Does not decide numerical ties at exactly the threshold.",
            "Trusted: Python ast; the enumerated idioms (slice store or inner loop walking while gap < thresh).",
            "DESIGN.md §3 C15"),
    "C16": ("writer/reader key-set comparison with class-attribute folding; constructor-call field propagation rule; "
            "reaching-definitions freshness analysis for in-place transforms",
            "other",
            "Decides that every key read by EnergyResult/K__Result.from_npz is written by as_dict, that a Transform is saved "
            "with exactly its constructor parameters, that __add__/__mul__/mul_array/transform pass every carried field from "
            "self, that data arithmetic is element-wise with VoidResult neutral and ResultDict key-wise, and that symmetry "
            "transformation never hands the operand's own array to the in-place Transform objects. Does not decide numerical "
            "linearity; K__Result.__add__ concatenates k-points by design.",
            "Trusted: Python ast, E2.",
            "DESIGN.md §3 C16"),
    "C17": ("loop-carried def-use (accumulator chain) on dataSmooth; constant folding of permutation tuples; polynomial "
            "comparison of convolution window bounds",
            "other",
            "Decides that the smoothed data are the composition of every axis smoother (accumulator threaded through the "
            "loop, index = axis, all axes, result returned), that AbstractSmoother's output permutation inverts its input "
            "permutation for every axis (ndim<=6), that the kernel window is centred and normalised by its own sum, and "
            "that VoidSmoother is the identity. Does not decide linearity/values of the convolution.",
            "Trusted: Python ast, E2 reaching definitions, E3 polynomial normal form.",
            "DESIGN.md §3 C17"),
    "C18": ("writer/reader agreement: slice-length functions folded over both parities, loop-nest/transpose composition, "
            "format-field positions, property-list folding; order taint on the npz directory listing",
            "other",
            "Decides that the Wannier-centre WT reader inverts the writer for every number of Wannier functions, that "
            "_tb.dat/_hr.dat element order and numeric columns agree between writer and reader, and that the npz directory "
            "writer/loader agree on property names, R-matrix file names and load order. Does not decide printed precision.",
            "Trusted: Python ast; integer constant folding of slice bounds for n=0..9 (lengths are 2-periodic in n).",
            "DESIGN.md §3 C18"),
    "C19": ("class-hierarchy rules: container-kind (dict keyed by k) vs subscripts, attribute definedness, npz tag "
            "contract vs constructor signature, extension agreement, text layout composition writer/reader",
            "other",
            "Decides that the three text writers index the per-k dictionary correctly, read only existing attributes, and "
            "produce the loop order/header/columns the matching readers reshape/transposes/unpack; that every npz tag of the "
            "16 SavableNPZ classes is a constructor parameter and an attribute; that npz file extensions agree between "
            "WannierData.to_npz and from_npz; that equals() compares what the subclass adds. Does not decide printed precision.",
            "Trusted: Python ast, E0 index.",
            "DESIGN.md §3 C19"),
    "C13": ("exact stencil extraction (slice offsets + polynomial normal form) compared with finite-difference stencils solved "
            "over Fraction; structural rules on the accumulation ladder and the half-open band-group convention",
            "other",
            "Decides that the fder=1,2,3 calculators are by construction the 1st/2nd/3rd central finite differences of the "
            "Fermi-sea accumulation with the same formula (exact coefficient comparison, matching number of extra Fermi levels), "
            "that a group at energy E is accumulated into all levels >= E, that k-resolved and summed paths differ only by the "
            "result index and 1/nk, and that band groups are half-open [ib1, ib2) in the selection weight, the below-range "
            "count and the sea completion. Does not decide monotonicity/limits of CumDOS numerically.",
            "Trusted: Python ast, E3 algebra, Gaussian elimination over Fraction for the reference stencils.",
            "DESIGN.md §3 C13"),
    "C14": ("exact rational-function identities (AST -> polynomial normal form over Fraction) for every region expression of "
            "weights_tetra; def-use argument for corner-order independence; structural rules on the 12-tetrahedra split, "
            "sea completion and cache key",
            "proof",
            "Proof-level for the algebra: 31 identities (accurate branch = Bloechl formula, polynomial branch = accurate branch, "
            "derivative ladders = formal derivatives, C0/C1 continuity, end values) are discharged by an exact normal form, so "
            "they hold for all real corner energies with distinct values and any Fermi level; order independence holds because "
            "the corner arguments only flow into one sort. Structural rules decide the parallelepiped decomposition, the "
            "disjointness of sea/anti-sea completion from in-range groups and exact keying of cached weights. Does not decide "
            "floating-point behaviour for nearly coincident corners (diff_min regularisation) or monotonicity numerically.",
            "Trusted: Python ast, wbstatic.algebra, the AST->rational translation, the textbook formula encoded in the checker, "
            "numba executing Python arithmetic semantics.",
            "DESIGN.md §3 C14"),
    "C22": ("CFG dominance (success return dominated by the completeness test whose failing arm leaves), def-use provenance "
            "of the tested quantity and of the returned vectors, structural pairing rules",
            "other",
            "Decides that whatever b-vectors/weights find_bk_vectors, from_kpoints and from_nnkp deliver passed "
            "||sum_s w_s sum_b b b^T - 1|| <= bk_complete_tol computed from the very shells that are returned, that shells are "
            "returned whole with one weight from a symmetric search box, and that each neighbour index is stored together with "
            "its lattice shift under the exact integer test (k + b - k') mod mesh = 0 with a raise when none exists. Does not "
            "decide that a solution is found, nor the shell-selection heuristics.",
            "Trusted: Python ast, E1/E2.",
            "DESIGN.md §3 C22"),
    "C23": ("same-block pairing (test / add / append) and CFG dominance of both returns by the two cardinality tests",
            "other",
            "Decides that point selection for a given mesh returns pairwise distinct on-mesh integer coordinates whose count "
            "equals the mesh size (hence every mesh point exactly once) and raises for incomplete meshes on every path; and that "
            "the detected mesh is verified against all points before being returned. Does not decide the floating-point fraction "
            "arithmetic of the detection.",
            "Trusted: Python ast, E1.",
            "DESIGN.md §3 C23"),
    "C25": ("spin-channel tag dataflow (identifier tags and stride-2 slots) with enumerated guarded-aliasing idioms; owner "
            "provenance of R-indexed arrays; positional pairing of SOC blocks with Pauli elements and R-maps",
            "other",
            "Decides that no down-channel quantity is computed from up-channel data (or vice versa) outside nspin==1 / "
            "missing-channel guards, that every stride-2 scatter follows even=up/odd=down on both axes, that SOC and spin "
            "blocks (a,b) use pauli_rotated[a,b] with the (1,0) block the conjugate of (0,1), and that get_system_R maps each "
            "block through its own R-map and adds Ham_SOC to 'Ham' only. Does not decide spectra or the Pauli algebra of the "
            "rotated matrices (numerical).",
            "Trusted: Python ast, E2; channel tags are read from identifier names (…_up/_down) — a renaming away from that "
            "convention makes the rule fail closed (instance count).",
            "DESIGN.md §3 C25"),
    "C26": ("exact polynomial normal form of the interpolation expressions; CFG must-pass rule 'centre write => cache "
            "invalidation and rvec rebuild'; positional/def-use pairing of index maps and spin channels",
            "other",
            "Decides that every interpolated quantity is x0 + alpha (x1 - x0) over all common keys (so alpha=0/1 give the "
            "endpoints identically) and that the interpolated system's R-vector shifts are rebuilt from the interpolated "
            "centres on every path. Does not decide equality of evaluated band quantities.",
            "Trusted: Python ast, E1 CFG, E3 algebra.",
            "DESIGN.md §3 C26"),
    "C29": ("statement-order and def-use rules on path construction/refinement; exact polynomial comparison of inserted "
            "points; CFG dominance of the coordinate-based re-ordering in run() (shared with C12)",
            "other",
            "Decides that refinement keeps every original point with its label/break at its own new index and inserts uniformly "
            "spaced points, that the path coordinate is a cumulative sum of non-negative increments, that from_nodes labels "
            "nodes at their own index with uniform end-exclusive segments, that K-point batches tile the path in order, and that "
            "run() restores path order from coordinates on every path to its return. Does not decide per-point equality with "
            "single-point evaluation.",
            "Trusted: Python ast, E1-E3.",
            "DESIGN.md §3 C29"),
    "C30": ("exact polynomial normal form of the slot index compared with the C-order linearisation; sibling agreement of every "
            "reshape/flatten order; structural slot-map and component-table rules",
            "other",
            "Decides that the slot index, the generated grid k-points, get_data's reshape and the FermiSurfer flatten all use C "
            "order, that every on-grid k-point is appended to the slot of its own index and slots are averaged over their own "
            "members, and that x/y/z/trace/tuple components index the tensor axes as documented. Does not decide equality with "
            "single-point evaluation.",
            "Trusted: Python ast, E3.",
            "DESIGN.md §3 C30"),
    "C32": ("reaching definitions (parameter liveness) over all model builders; sibling comparison of hop tables after "
            "resolving temporaries; Hermitian-partner pattern rule",
            "other",
            "Decides that no builder parameter is shadowed/dead, that Haldane_ptb and Haldane_tbm describe the same "
            "lattice/sites/on-site/hop multiset, and that every imported hopping has its Hermitian partner at -R with the "
            "R list closed under negation. Does not decide band equality with the source package numerically.",
            "Trusted: Python ast, E2.",
            "DESIGN.md §3 C32"),
    "C33": ("owner/provenance dataflow (self / spin-up / spin-down) on every corner Fourier transform; MRO "
            "exhaustiveness; exact rational extraction of corner offsets from phase factors",
            "other",
            "Decides that each corner transform multiplies object X's Hamiltonian with phases built from X's own R-vector "
            "list and transforms with X's rvec, writes the matching spin block, that every selectable Data_K class defines "
            "both corner methods, that fast/reference/k.p corner offsets are all (i-1/2) dK, and that band selection and the "
            "phonon map are applied to corners. Does not decide numerical equality of energies.",
            "Trusted: Python ast, E2, E3.",
            "DESIGN.md §3 C33"),
}


# rule families added after the first version of the table above (rounds 2 and 3 of the seeded changes); appended to the technique / level text
EXTRA = {
    "C02": ("may-alias analysis of the FFTW plan buffers, string-typestate of the back-end selector (lower-case literals / .lower()), "
            "constructor-only state behind cached phase tables, block-loop coverage (ceil vs floor number of blocks)",
            "Also decides that no array is shared between the FFTW plan and a caller, that every Data_K configures a private copy of the R-vectors, "
            "that the back-end selector only holds names the dispatch compares with, that a constructed transform object is not re-used with a "
            "replaced k-list, and that block-wise loops visit the whole axis."),
    "C04": ("per-k provenance of the rotated block (index of self.degen ↔ k-index of the eigenvectors), threshold-default comparison",
            "Also decides that a block found degenerate at one k-point is rotated only there."),
    "C05": ("transitive read sets of cached properties against the state rewritten by the re-indexing methods",
            "Also decides that every cached property of Rvectors that depends on re-indexed state is in the invalidation list."),
    "C07": ("matrix-chain comparison of the vectorised k-point map; symbolic evaluation of the fold order of product() on a two-letter word",
            "Also decides that product([A, B]) is A·B."),
    "C08": ("every-path (unconditional) declaration rule; calculator ↔ Formula declaration agreement",
            "Also decides that parities are declared for every configuration of a formula object and that a calculator and its Formula class do not contradict each other."),
    "C26": ("no re-derivation call after the affine mix in interpolate()",
            "Also decides that nothing overwrites the mixed matrices from settings copied from system0."),
    "C12": ("dict-typestate of the ray.init options (store of the merged runtime_env → no rewriting statement on any path to ray.init), "
            "no positional use of the ray.wait result",
            "Also decides that the workers get the runtime_env merged by get_ray_runtime_env."),
    "C13": ("memoisation-key completeness by def-use slicing (value dependencies ⊆ key dependencies, with control dependence, in-place "
            "construction and unread callee parameters)",
            "Also decides that no memoised provider of band groups / weights / k-space matrices omits a parameter of its value from its key."),
    "C14": ("per-order specialisation of shared region loops, accumulation-loop normal form, escape analysis of cache entries (no in-place update)",
            "Also decides that arrays handed out by the per-band weight cache are never modified in place."),
    "C16": ("broadcast-shape rule for mul_array (axis i of the array ↦ data axis axes[i]); list-length case split for E_titles",
            "Also decides that mul_array scales the requested axes."),
    "C17": ("dtype provenance of the accumulation buffer; shallow-copy / cached-property interaction",
            "Also decides that complex data keep their imaginary part and that copied results drop the parent's smoothed data."),
    "C18": ("chunk-count algebra of the degeneracy header (ceil(N/k) non-empty chunks), shift-attribute ownership (constructor-with-centres, paired assignment)",
            "Also decides that the chunked header never ends with an empty line and that reloaded R-vectors carry both centre shifts."),
    "C19": ("layout of every data-building path of the text readers; monotone-flag rule for `irreducible`",
            "Also decides that serial and pooled conversion agree and that the irreducible flag of a loaded container cannot be lowered by a later file."),
    "C22": ("subset-escape rule (no mask-selected part of the checked set reaches the object); lockstep rule for the two parallel shell lists; "
            "vectorised neighbour search idiom",
            "Also decides that the stored b-vectors are the whole checked set and that Cartesian and lattice shell lists describe the same shells."),
    "C23": ("CFG reachability rule: per-direction values are assigned on every path of the same loop pass",
            "Also decides that no direction inherits a value of the previous one."),
    "C25": ("escape analysis of objects handed out by caching methods; unit typestate of the spin-axis angles",
            "Also decides that repeated get_system_R calls do not accumulate SOC terms in cached arrays and that angles are converted once."),
}


def build() -> dict:
    from .check import CLAIMED as ORDER
    checks = []
    for pid in ORDER:
        if pid not in CLAIMED:
            continue
        if not os.path.exists(os.path.join(VERIF, "wbstatic", "rules", pid.lower() + ".py")):
            continue
        tech, cat, text, note, ref = CLAIMED[pid]
        if pid in EXTRA:
            tech = tech + "; " + EXTRA[pid][0]
            text = text + " " + EXTRA[pid][1]
        checks.append({
            "property_id": pid,
            "quick_cmd": f"{PY} -m wbstatic.check {pid} --tier quick",
            "thorough_cmd": f"{PY} -m wbstatic.check {pid} --tier thorough",
            "evidence_file": f"/verif/evidence/{pid}.json",
            "replay_cmd_template": f"{PY} -m wbstatic.check {pid} --replay {{path}}",
            "engine": "wbstatic",
            "level_claimed": {"category": cat, "text": text, "design_ref": ref},
            "level_note": note,
            "technique": "static analysis: " + tech,
        })
    claimed_ids = {c["property_id"] for c in checks}
    na = [{"property_id": k, "reason": v} for k, v in sorted(NOT_APPLICABLE.items())]
    for pid in ORDER:
        if pid not in claimed_ids:
            na.append({"property_id": pid, "reason": "static check planned in DESIGN.md but not built/armed yet; "
                       "not claimed until its rules run clean on the unchanged tree"})
    na.sort(key=lambda d: d["property_id"])
    return {
        "version": 1,
        "setup_cmd": f"cd /verif && {PY} -c \"import ast, networkx, wbstatic.check; print('wbstatic ready')\"",
        "hooks": {
            "guard": "WANNIERBERRI_VERIF",
            "enable": "no hooks: the checks are static and read /repo's working tree; nothing is instrumented",
            "baseline_off_cmd": "cd /repo && /venv/bin/python -m pytest -ra -q -p no:cacheprovider --timeout=900 "
                                "--continue-on-collection-errors",
            "source_commits": [],
            "add_only": True,
        },
        "engines": [{
            "name": "wbstatic",
            "path": "/verif/wbstatic",
            "serves_properties": sorted(claimed_ids),
            "kind_free_text": "repository-specific static analysis over Python ASTs of /repo's working tree: package "
                              "index with MRO and call resolution, statement CFG with dominators, reaching "
                              "definitions/provenance, exact polynomial algebra, symmetry-grade abstract interpretation",
        }],
        "checks": checks,
        "notes": "Every check parses /repo's current working tree on each run (root overridable with WBSTATIC_REPO for "
                 "the self-test only). exit 0 = rules hold; exit 1 + VIOLATION line = a construct matches a violation "
                 "pattern; exit 2 + ANALYSIS-ERROR = anchor vanished / construct not understood (fail closed). "
                 "Known findings: /verif/known_findings.json.",
        "not_applicable": na,
    }


def main() -> None:
    m = build()
    with open(os.path.join(VERIF, "MANIFEST.json"), "w") as f:
        json.dump(m, f, indent=1)
        f.write("\n")
    print(f"MANIFEST.json: {len(m['checks'])} checks, {len(m['not_applicable'])} not applicable")


if __name__ == "__main__":
    main()
