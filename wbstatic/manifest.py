"""Generates /verif/MANIFEST.json from the per-property metadata below (run: /venv/bin/python -m wbstatic.manifest)."""
from __future__ import annotations

import json
import os

from .report import VERIF

PY = "/venv/bin/python"

NOT_APPLICABLE = {
    "C01": "Round-trip equality q->R->k, Hermiticity of X(R) and the replica-weight sums depend on Wigner-Seitz "
           "geometry of real lattices/centres (which replicas tie within tolerance); no non-trivial necessary "
           "condition is visible in code shape that a sound static argument could decide. Not claimed.",
    "C03": "Equality of sums over two factorisations of one k-set is a statement about computed floating-point "
           "values; static analysis cannot bound it.",
    "C09": "Closure, the action law, idempotence and orbit uniqueness are statements about products of rotation "
           "matrices and tolerance comparisons; no structural clause distinguishes a right from a wrong composition law.",
    "C10": "Equality of an incrementally maintained sum with a from-scratch sum over every refinement history is a "
           "run-time invariant (model-checking/testing territory); its structural pieces are decided under C06/C11/C12.",
    "C20": "Equivariance under every space-group operation and idempotence of the projector depend on representation "
           "matrices and R-vector orbits computed at run time.",
    "C21": "Orthogonality and the homomorphism property of orbital rotation matrices are run-time polynomial/sympy "
           "numerics; the only structural fact is already asserted by the module at import.",
    "C24": "Isometry of U, span of frozen states and zero weight outside the window are linear-algebra post-conditions "
           "of SVD/eigen iterations.",
    "C27": "Vanishing of a band sum and integrality of an integral are numerical facts.",
    "C28": "Agreement up to discretisation error on converged grids is numerical; the structural part (factors, fder, "
           "axis swaps) is exactly what each calculator's stored reference already pins.",
    "C31": "Finite-difference accuracy statements about computed derivatives.",
}

# property id -> (technique, level category, level text, level note, design ref)
CLAIMED = {
    "C12": ("AST + CFG must-pass-through and monotone-update (typestate) rule on run_grid.process/run; def-use "
            "pairing of result and K-point; sibling cross-check of serial/parallel arms",
            "other",
            "Decides the exactly-once, pairing and re-ordering clauses of C12 for every completion schedule allowed "
            "by the ray.wait contract (the collected set only grows; the collection loop lies on every loop exit path; "
            "remote i is stored on K-point i of the list the remotes were created from; every path of run() passes the "
            "coordinate-based re-ordering). Does not decide floating-point reassociation of the sum.",
            "Trusted: Python ast, the E0-E2 engines, the documented contract of ray.wait.",
            "DESIGN.md §3 C12"),
}


def build() -> dict:
    from .check import CLAIMED as ORDER
    checks = []
    for pid in ORDER:
        if pid not in CLAIMED:
            continue
        if not os.path.exists(os.path.join(VERIF, "wbstatic", "rules", pid.lower() + ".py")):
            continue
        tech, cat, text, note, ref = CLAIMED[pid]
        checks.append({
            "property_id": pid,
            "quick_cmd": f"{PY} -m wbstatic.check {pid} --tier quick",
            "thorough_cmd": f"{PY} -m wbstatic.check {pid} --tier thorough",
            "evidence_file": f"/verif/evidence/{pid}.json",
            "replay_cmd_template": f"{PY} -m wbstatic.check {pid} --replay {{path}}",
            "engine": "wbstatic",
            "level_claimed": {"category": cat, "text": text, "design_ref": ref},
            "level_note": note,
            "technique": "static analysis: " + tech,
        })
    claimed_ids = {c["property_id"] for c in checks}
    na = [{"property_id": k, "reason": v} for k, v in sorted(NOT_APPLICABLE.items())]
    for pid in ORDER:
        if pid not in claimed_ids:
            na.append({"property_id": pid, "reason": "static check planned in DESIGN.md but not built/armed yet; "
                       "not claimed until its rules run clean on the unchanged tree"})
    na.sort(key=lambda d: d["property_id"])
    return {
        "version": 1,
        "setup_cmd": f"cd /verif && {PY} -c \"import ast, networkx, wbstatic.check; print('wbstatic ready')\"",
        "hooks": {
            "guard": "WANNIERBERRI_VERIF",
            "enable": "no hooks: the checks are static and read /repo's working tree; nothing is instrumented",
            "baseline_off_cmd": "cd /repo && /venv/bin/python -m pytest -ra -q -p no:cacheprovider --timeout=900 "
                                "--continue-on-collection-errors",
            "source_commits": [],
            "add_only": True,
        },
        "engines": [{
            "name": "wbstatic",
            "path": "/verif/wbstatic",
            "serves_properties": sorted(claimed_ids),
            "kind_free_text": "repository-specific static analysis over Python ASTs of /repo's working tree: package "
                              "index with MRO and call resolution, statement CFG with dominators, reaching "
                              "definitions/provenance, exact polynomial algebra, symmetry-grade abstract interpretation",
        }],
        "checks": checks,
        "notes": "Every check parses /repo's current working tree on each run (root overridable with WBSTATIC_REPO for "
                 "the self-test only). exit 0 = rules hold; exit 1 + VIOLATION line = a construct matches a violation "
                 "pattern; exit 2 + ANALYSIS-ERROR = anchor vanished / construct not understood (fail closed). "
                 "Known findings: /verif/known_findings.json.",
        "not_applicable": na,
    }


def main() -> None:
    m = build()
    with open(os.path.join(VERIF, "MANIFEST.json"), "w") as f:
        json.dump(m, f, indent=1)
        f.write("\n")
    print(f"MANIFEST.json: {len(m['checks'])} checks, {len(m['not_applicable'])} not applicable")


if __name__ == "__main__":
    main()
