"""E7 — semantic normalisation helpers (still purely static).

The rules should not depend on how a function spells a computation.  This module gives them three views that are
stable under the refactors maintainers actually make:

* ``Sem.resolve(expr, at)``   — the expression with local temporaries substituted by their (single) definition,
  loop targets of ``enumerate`` / ``zip`` / ``.items()`` rewritten as element accesses (``X[i]``), augmented
  assignments folded (``s += t`` → ``s_prev + t``), module-level constants and — for private helpers with exactly one
  call site — parameters replaced by the caller's arguments.
* ``Sem.conditions(stmt)``    — the branch conditions under which a statement runs, guard clauses
  (``if c: continue/return/raise``) included, each condition in a canonical polarity.
* ``reachable_helpers(idx, f)`` — private functions of the same module that ``f`` calls (so a locator can follow an
  "extract method" refactor).

Nothing here executes repository code.
"""
from __future__ import annotations

import ast
import copy
from typing import Dict, Iterable, List, Optional, Set, Tuple

from .index import AnalysisError, FunctionInfo, Index, call_name, norm, walk_no_nested

_PURE_DEPTH = 10


def _leaves(body: List[ast.stmt]) -> bool:
    """True if every path through the statement list ends in continue / break / return / raise."""
    if not body:
        return False
    last = body[-1]
    if isinstance(last, (ast.Continue, ast.Break, ast.Return, ast.Raise)):
        return True
    if isinstance(last, ast.If):
        return _leaves(last.body) and _leaves(last.orelse)
    if isinstance(last, ast.With):
        return _leaves(last.body)
    return False


def _leaves_function(body: List[ast.stmt]) -> bool:
    if not body:
        return False
    last = body[-1]
    if isinstance(last, (ast.Return, ast.Raise)):
        return True
    if isinstance(last, ast.If):
        return _leaves_function(last.body) and _leaves_function(last.orelse)
    if isinstance(last, ast.With):
        return _leaves_function(last.body)
    return False


def canon_cond(test: ast.AST, pol: bool) -> Tuple[str, bool]:
    """Canonical (text, polarity): strips `not`, turns != / is not / not in into their positive form."""
    while isinstance(test, ast.UnaryOp) and isinstance(test.op, ast.Not):
        test, pol = test.operand, not pol
    if isinstance(test, ast.Compare) and len(test.ops) == 1:
        op = test.ops[0]
        flip = {ast.NotEq: ast.Eq, ast.IsNot: ast.Is, ast.NotIn: ast.In}
        for k, v in flip.items():
            if isinstance(op, k):
                t2 = ast.Compare(left=test.left, ops=[v()], comparators=test.comparators)
                return norm(t2), not pol
        if isinstance(op, ast.Eq):
            # order the two sides so that `a == b` and `b == a` agree
            a, b = norm(test.left), norm(test.comparators[0])
            if b < a:
                return f"{b} == {a}", pol
    return norm(test), pol


class Sem:
    def __init__(self, idx: Optional[Index], fi, caller: Optional[Tuple["Sem", ast.Call]] = None):
        """`caller` = (Sem of the calling function, the call node) pins the context in which a helper is analysed (needed when
        the helper has several call sites)."""
        from .rules.common import fctx
        self.idx = idx
        self.fi = fi if isinstance(fi, FunctionInfo) else None
        self.node = getattr(fi, "node", fi)
        self.cfg, self.du, self.pm = fctx(fi)
        self._iter_ids: Dict[int, str] = {}
        # locals whose object is modified in place after its definition (x[i] = …, x.append(…), x += … on a list/array): their
        # defining expression does not describe their value, so they are never substituted
        self._mutated: Set[str] = set()
        for n in ast.walk(self.node):
            if isinstance(n, ast.Subscript) and isinstance(n.ctx, (ast.Store, ast.Del)):
                b_ = n.value
                while isinstance(b_, ast.Subscript):
                    b_ = b_.value
                if isinstance(b_, ast.Name):
                    self._mutated.add(b_.id)
            elif isinstance(n, ast.Call) and isinstance(n.func, ast.Attribute) \
                    and n.func.attr in ("append", "extend", "insert", "sort", "update", "add", "pop", "remove", "clear", "setdefault", "fill"):
                b_ = n.func.value
                while isinstance(b_, ast.Subscript):
                    b_ = b_.value
                if isinstance(b_, ast.Name):
                    self._mutated.add(b_.id)
        self._caller: Optional[Tuple["Sem", ast.Call, Dict[str, ast.AST]]] = None
        self._caller_done = False
        self.subst_consts = True   # substitute module-level literal constants
        self.keep_names: Set[str] = set()   # locals that are never substituted (kept symbolic)
        self.lenient_iter = False            # treat `for v in X` over a bare name/attribute as iteration over a sequence (v ↦ X[i])
        self.inline_helpers = True  # β-reduce calls of private single-expression helpers of the same module
        if caller is not None:
            self._caller_done = True
            csem, call = caller
            params = list(self.fi.params) if self.fi is not None else []
            if isinstance(call.func, ast.Attribute) and params and params[0] in ("self", "cls"):
                params = params[1:]
            b: Dict[str, ast.AST] = {}
            if not any(isinstance(a, ast.Starred) for a in call.args) and not any(k.arg is None for k in call.keywords):
                for p_, a in zip(params, call.args):
                    b[p_] = a
                for k in call.keywords:
                    b[k.arg] = k.value
                self._caller = (csem, call, b)

    # ------------------------------------------------------------------ caller binding for private helpers
    def _bind_caller(self) -> None:
        if self._caller_done:
            return
        self._caller_done = True
        if self.idx is None or self.fi is None:
            return
        name = self.fi.name
        if not name.startswith("_") or name.startswith("__") and name.endswith("__"):
            return
        sites: List[Tuple[FunctionInfo, ast.Call]] = []
        m = self.fi.module
        owners = list(m.functions.values()) + [mm for c in m.classes.values() for mm in c.methods.values()]
        mangled = {name, f"_{self.fi.cls.name}{name}" if getattr(self.fi, "cls", None) is not None and name.startswith("__") else name}
        for f in owners:
            if f is self.fi:
                continue
            for c in ast.walk(f.node):
                if isinstance(c, ast.Call):
                    fn = c.func
                    if (isinstance(fn, ast.Name) and fn.id in mangled) or (isinstance(fn, ast.Attribute) and fn.attr in mangled):
                        sites.append((f, c))
        if len(sites) != 1:
            return
        f, c = sites[0]
        params = list(self.fi.params)
        if isinstance(c.func, ast.Attribute) and params and params[0] in ("self", "cls"):
            params = params[1:]
        if any(isinstance(a, ast.Starred) for a in c.args) or any(k.arg is None for k in c.keywords):
            return
        b: Dict[str, ast.AST] = {}
        for p, a in zip(params, c.args):
            b[p] = a
        for k in c.keywords:
            b[k.arg] = k.value
        self._caller = (Sem(self.idx, f), c, b)

    # ------------------------------------------------------------------ resolve
    def _iter_name(self, loop: ast.AST) -> str:
        k = id(loop)
        if k not in self._iter_ids:
            self._iter_ids[k] = f"IT{len(self._iter_ids)}_{getattr(loop, 'lineno', 0)}"
        return self._iter_ids[k]

    def _loop_target_value(self, d, name: str) -> Optional[ast.AST]:
        """Meaning of loop target `name` of `for <target> in <iter>`: an element access, or None (keep the name)."""
        loop = d.stmt
        if not isinstance(loop, (ast.For, ast.comprehension)):
            return None
        it, tg = loop.iter, loop.target

        def elem(container: ast.AST, index: ast.AST) -> ast.AST:
            return ast.Subscript(value=container, slice=index, ctx=ast.Load())

        def seqs_of(itexpr: ast.AST) -> Optional[List[ast.AST]]:
            if isinstance(itexpr, ast.Call) and call_name(itexpr) == "zip" and not itexpr.keywords:
                return list(itexpr.args)
            return None
        idx_expr: Optional[ast.AST] = None
        inner_t, inner_it = tg, it
        if isinstance(it, ast.Call) and call_name(it) == "enumerate" and len(it.args) in (1, 2) and isinstance(tg, ast.Tuple) and len(tg.elts) == 2 \
                and isinstance(tg.elts[0], ast.Name):
            if name == tg.elts[0].id:
                return None
            idx_expr = ast.Name(id=tg.elts[0].id, ctx=ast.Load())
            start = it.args[1] if len(it.args) == 2 else next((k.value for k in it.keywords if k.arg == "start"), None)
            if start is not None and not (isinstance(start, ast.Constant) and start.value == 0):
                idx_expr = ast.BinOp(left=idx_expr, op=ast.Sub(), right=start)
            inner_t, inner_it = tg.elts[1], it.args[0]
        elif isinstance(it, ast.Call) and isinstance(it.func, ast.Attribute) and it.func.attr == "items" and not it.args \
                and isinstance(tg, ast.Tuple) and len(tg.elts) == 2 and isinstance(tg.elts[0], ast.Name):
            if name == tg.elts[0].id:
                return None
            if isinstance(tg.elts[1], ast.Name) and tg.elts[1].id == name:
                return elem(it.func.value, ast.Name(id=tg.elts[0].id, ctx=ast.Load()))
            return None
        elif isinstance(it, ast.Call) and call_name(it) == "range":
            return None
        if idx_expr is None:
            idx_expr = ast.Name(id=self._iter_name(loop), ctx=ast.Load())
        seqs = seqs_of(inner_it)
        if seqs is not None and isinstance(inner_t, ast.Tuple) and len(inner_t.elts) == len(seqs):
            for te, sq in zip(inner_t.elts, seqs):
                if isinstance(te, ast.Name) and te.id == name:
                    return elem(sq, idx_expr)
            return None
        # a plain `for v in X` is rewritten to X[i] only when X is visibly a sequence (an element of something, a literal list or
        # a comprehension) or the index is known (enumerate); iterating a bare name/attribute may be a dict → keep the variable
        seq_like = self.lenient_iter or isinstance(inner_it, (ast.Subscript, ast.List, ast.Tuple, ast.ListComp)) or idx_expr is not None and not (isinstance(idx_expr, ast.Name) and idx_expr.id.startswith("IT"))
        if seqs is None and seq_like and not isinstance(inner_it, ast.Call):
            if isinstance(inner_t, ast.Name) and inner_t.id == name:
                return elem(inner_it, idx_expr)
            if isinstance(inner_t, ast.Tuple):
                for j, te in enumerate(inner_t.elts):
                    if isinstance(te, ast.Name) and te.id == name:
                        return elem(elem(inner_it, idx_expr), ast.Constant(value=j))
        return None

    def resolve(self, e: ast.AST, at: Optional[int] = None, depth: int = _PURE_DEPTH, through_caller: bool = True) -> ast.AST:
        """Deep-substituted copy of `e` (never mutates the tree)."""
        if at is None:
            at = self.du.node_of_expr(e)
        return self._res(e, at, depth, set(), through_caller)

    def _res(self, e: ast.AST, at: int, depth: int, busy: Set[Tuple[str, int]], tc: bool) -> ast.AST:
        if isinstance(e, ast.Call) and depth > 0 and not e.keywords and not any(isinstance(a, ast.Starred) for a in e.args):
            # application of a lambda (written in place, or kept in a local that is defined once): β-reduction
            lam = e.func
            if isinstance(lam, ast.Name) and lam.id not in self.keep_names and lam.id not in self._mutated:
                try:
                    ds_ = self.du.reaching(lam.id, at)
                except Exception:
                    ds_ = []
                lam = ds_[0].value if len(ds_) == 1 and ds_[0].kind == "assign" and isinstance(ds_[0].value, ast.Lambda) else None
            if isinstance(lam, ast.Lambda) and not lam.args.vararg and not lam.args.kwarg and not lam.args.kwonlyargs \
                    and len(lam.args.args) == len(e.args):
                sub_ = {a_.arg: self._res(x_, at, depth - 1, busy, tc) for a_, x_ in zip(lam.args.args, e.args)}
                return self._res(self._subst(lam.body, sub_), at, depth - 1, busy, tc)
        if isinstance(e, ast.Name) and isinstance(e.ctx, ast.Load):
            if depth <= 0 or e.id in self.keep_names:
                return e
            ds = self.du.reaching(e.id, at)
            if len(ds) == 1:
                d = ds[0]
                key = (d.name, d.node)
                if key in busy:
                    return e
                if (e.id in self._mutated or e.id in self.keep_names) and d.kind in ("assign", "aug", "unpack"):
                    return e
                if d.kind == "assign" and d.value is not None:
                    if isinstance(d.value, ast.Dict):
                        return e   # a literal table keeps its name
                    return self._res(d.value, d.node, depth - 1, busy | {key}, tc)
                if d.kind == "aug" and d.value is not None and isinstance(d.stmt, ast.AugAssign):
                    prev = self._res(ast.Name(id=e.id, ctx=ast.Load()), d.node, depth - 1, busy | {key}, tc)
                    return ast.BinOp(left=prev, op=d.stmt.op, right=self._res(d.value, d.node, depth - 1, busy | {key}, tc))
                if d.kind == "unpack" and d.value is not None and d.index is not None:
                    v = self._res(d.value, d.node, depth - 1, busy | {key}, tc)
                    if isinstance(v, (ast.Tuple, ast.List)) and d.index < len(v.elts):
                        return v.elts[d.index]
                    return ast.Subscript(value=v, slice=ast.Constant(value=d.index), ctx=ast.Load())
                if d.kind == "for":
                    v = self._loop_target_value(d, e.id)
                    if v is not None:
                        return self._res(v, d.node, depth - 1, busy | {key}, tc)
                    return e
                if d.kind == "param" and tc:
                    self._bind_caller()
                    if self._caller is not None:
                        csem, call, b = self._caller
                        if e.id in b:
                            csem.keep_names |= self.keep_names
                            return csem._res(b[e.id], csem.du.node_of_expr(call), depth - 1, set(), tc)
                    return e
                return e
            if not ds and self.subst_consts and self.idx is not None and self.fi is not None:
                # module-level constant (dict / tuple / number literal)
                a = self.fi.module.assigns.get(e.id)
                if a and len(a) == 1 and isinstance(a[0], (ast.Dict, ast.Tuple, ast.List, ast.Constant, ast.Set)):
                    return a[0]
            return e
        if isinstance(e, ast.Lambda):
            return e
        if isinstance(e, ast.Call) and self.inline_helpers and depth > 0:
            inl = self._inline(e, at, depth, busy, tc)
            if inl is not None:
                return inl
        if isinstance(e, (ast.ListComp, ast.GeneratorExp, ast.SetComp, ast.DictComp)):
            # own scope: substitute free names only (names bound by the comprehension keep their meaning)
            bound = {n.id for g in e.generators for n in ast.walk(g.target) if isinstance(n, ast.Name)}
            return self._res_comp(e, at, depth, busy, tc, bound)
        if isinstance(e, ast.AST):
            new = copy.copy(e)
            for fname, v in ast.iter_fields(e):
                if isinstance(v, ast.AST):
                    if isinstance(v, (ast.expr_context, ast.operator, ast.unaryop, ast.cmpop, ast.boolop)):
                        continue
                    setattr(new, fname, self._res(v, at, depth, busy, tc))
                elif isinstance(v, list):
                    setattr(new, fname, [self._res(x, at, depth, busy, tc) if isinstance(x, ast.AST) and not isinstance(x, (ast.cmpop,)) else x for x in v])
            return new
        return e

    def _inline(self, c: ast.Call, at: int, depth: int, busy, tc: bool) -> Optional[ast.AST]:
        """`_helper(a, b)` → the helper's return expression with parameters replaced by the (resolved) arguments, when the
        helper is a private function/method of the same module whose body is a single `return <expr>`."""
        if self.idx is None or self.fi is None:
            return None
        fn = c.func
        name = fn.id if isinstance(fn, ast.Name) else fn.attr if isinstance(fn, ast.Attribute) and isinstance(fn.value, ast.Name) and fn.value.id in ("self", "cls") else None
        if name is None or (name.startswith("__") and name.endswith("__")):
            return None
        # methods: private ones only (a public method may be overridden); module-level functions of the same module: any name
        if not name.startswith("_") and not isinstance(fn, ast.Name):
            return None
        m = self.fi.module
        cand = m.functions.get(name) if isinstance(fn, ast.Name) else None
        if cand is not None and cand.node is self.node:
            return None
        if cand is None and isinstance(fn, ast.Attribute) and self.fi.cls is not None:
            cand = self.idx.find_method(self.fi.cls, name)
        if cand is None and isinstance(fn, ast.Name):
            # a closure defined in the analysed function
            for n_ in ast.walk(self.node):
                if isinstance(n_, ast.FunctionDef) and n_ is not self.node and n_.name == name and not n_.decorator_list:
                    cand = FunctionInfo(name=name, qualname=f"{self.fi.qualname}.<locals>.{name}", module=m, node=n_, cls=None, decorators=[])
                    break
        if cand is None:
            return None
        body = [s for s in cand.node.body if not (isinstance(s, ast.Expr) and isinstance(s.value, ast.Constant) and isinstance(s.value.value, str))]
        if not body or not isinstance(body[-1], ast.Return) or body[-1].value is None:
            return None
        # `let` form: single-assignment temporaries followed by one return — folded into the returned expression
        lets: List[Tuple[str, ast.AST]] = []
        for st_ in body[:-1]:
            if not (isinstance(st_, ast.Assign) and len(st_.targets) == 1 and isinstance(st_.targets[0], ast.Name)):
                return None
            lets.append((st_.targets[0].id, st_.value))
        if lets:
            names_ = [n_ for n_, _ in lets]
            comp_bound = {id(n_) for st_ in body for c_ in ast.walk(st_) if isinstance(c_, (ast.ListComp, ast.GeneratorExp, ast.SetComp, ast.DictComp))
                          for g_ in c_.generators for n_ in ast.walk(g_.target)}
            stored = [n_.id for st_ in body for n_ in ast.walk(st_) if isinstance(n_, ast.Name) and isinstance(n_.ctx, (ast.Store, ast.Del)) and id(n_) not in comp_bound]
            mutated_ = {b_.id for st_ in body for n_ in ast.walk(st_) if isinstance(n_, ast.Subscript) and isinstance(n_.ctx, (ast.Store, ast.Del))
                        for b_ in [n_.value] if isinstance(b_, ast.Name)}
            calls_mut = {c_.func.value.id for st_ in body for c_ in ast.walk(st_) if isinstance(c_, ast.Call) and isinstance(c_.func, ast.Attribute)
                         and isinstance(c_.func.value, ast.Name) and c_.func.attr in ("append", "extend", "insert", "sort", "update", "add", "pop", "remove", "clear", "fill")}
            if len(set(names_)) != len(names_) or sorted(stored) != sorted(names_) or (set(names_) | set(cand.params)) & (mutated_ | calls_mut) \
                    or any(n_ in cand.params for n_ in names_):
                return None
            if any(isinstance(n_, (ast.Lambda, ast.Yield, ast.YieldFrom, ast.NamedExpr)) for st_ in body for n_ in ast.walk(st_)):
                return None
        params = list(cand.params)
        if isinstance(fn, ast.Attribute) and params and params[0] in ("self", "cls"):
            params = params[1:]
        if any(isinstance(a, ast.Starred) for a in c.args) or any(k.arg is None for k in c.keywords) or len(c.args) > len(params):
            return None
        sub: Dict[str, ast.AST] = {}
        for p_, a in zip(params, c.args):
            sub[p_] = self._res(a, at, depth - 1, busy, tc)
        for k in c.keywords:
            sub[k.arg] = self._res(k.value, at, depth - 1, busy, tc)
        # defaults of parameters that were not passed
        a_ = cand.node.args
        pos = [x.arg for x in a_.posonlyargs + a_.args]
        for i_, d_ in enumerate(a_.defaults):
            pn = pos[len(pos) - len(a_.defaults) + i_]
            sub.setdefault(pn, d_)
        if any(p_ not in sub for p_ in params):
            return None
        env_: Dict[str, ast.AST] = dict(sub)
        for n_, v_ in lets:
            env_[n_] = self._subst(v_, env_)
        out = self._subst(body[-1].value, env_)
        if self.subst_consts:
            consts: Dict[str, ast.AST] = {}
            for n in [n2 for root_ in [body[-1].value] + [v_ for _, v_ in lets] for n2 in ast.walk(root_)]:
                if isinstance(n, ast.Name) and n.id not in env_ and n.id not in consts:
                    a = m.assigns.get(n.id)
                    if a and len(a) == 1 and isinstance(a[0], (ast.Constant, ast.Tuple)):
                        consts[n.id] = a[0]
            if consts:
                out = self._subst(out, consts)
        return out

    def _inline_in_comp(self, c: ast.Call, at: int, depth: int, busy, tc: bool, bound: Set[str]) -> Optional[ast.AST]:
        """_inline for a call inside a comprehension: arguments that mention comprehension-bound names are passed through as they are."""
        c2 = copy.copy(c)
        c2.args = [self._res_comp(a, at, depth - 1, busy, tc, bound) for a in c.args]
        c2.keywords = [ast.keyword(arg=k.arg, value=self._res_comp(k.value, at, depth - 1, busy, tc, bound)) for k in c.keywords]
        saved = self.keep_names
        self.keep_names = self.keep_names | bound
        try:
            return self._inline(c2, at, depth, busy, tc)
        finally:
            self.keep_names = saved

    def _res_comp(self, e: ast.AST, at: int, depth: int, busy, tc: bool, bound: Set[str]) -> ast.AST:
        if isinstance(e, ast.Call) and depth > 0 and not e.keywords and not any(isinstance(a, ast.Starred) for a in e.args):
            lam = e.func
            if isinstance(lam, ast.Name) and lam.id not in bound and lam.id not in self.keep_names and lam.id not in self._mutated:
                try:
                    ds_ = self.du.reaching(lam.id, at)
                except Exception:
                    ds_ = []
                lam = ds_[0].value if len(ds_) == 1 and ds_[0].kind == "assign" and isinstance(ds_[0].value, ast.Lambda) else None
            if isinstance(lam, ast.Lambda) and not lam.args.vararg and not lam.args.kwarg and not lam.args.kwonlyargs and len(lam.args.args) == len(e.args):
                sub_ = {a_.arg: self._res_comp(x_, at, depth - 1, busy, tc, bound) for a_, x_ in zip(lam.args.args, e.args)}
                return self._res_comp(self._subst(lam.body, sub_), at, depth - 1, busy, tc, bound)
        if isinstance(e, ast.Call) and self.inline_helpers and depth > 0:
            inl = self._inline_in_comp(e, at, depth, busy, tc, bound)
            if inl is not None:
                return inl
        if isinstance(e, ast.Name):
            if e.id in bound or not isinstance(e.ctx, ast.Load):
                return e
            return self._res(e, at, depth, busy, tc)
        if isinstance(e, (ast.ListComp, ast.GeneratorExp, ast.SetComp, ast.DictComp)):
            bound = bound | {n.id for g in e.generators for n in ast.walk(g.target) if isinstance(n, ast.Name)}
        if isinstance(e, ast.AST):
            new = copy.copy(e)
            for fname, v in ast.iter_fields(e):
                if isinstance(v, ast.AST):
                    if isinstance(v, (ast.expr_context, ast.operator, ast.unaryop, ast.cmpop, ast.boolop)):
                        continue
                    setattr(new, fname, self._res_comp(v, at, depth, busy, tc, bound))
                elif isinstance(v, list):
                    setattr(new, fname, [self._res_comp(x, at, depth, busy, tc, bound) if isinstance(x, ast.AST) and not isinstance(x, ast.cmpop) else x for x in v])
            return new
        return e

    # ------------------------------------------------------------------ elements of list-valued expressions
    def comp_element(self, lc: ast.AST, at: int, depth: int = 6) -> ast.AST:
        """Element of a list comprehension / generator as an expression over abstract iteration indices: generator
        variables are replaced by element accesses of their (resolved) iterables; filters are ignored (callers that care
        inspect `lc.generators[i].ifs`)."""
        sub: Dict[str, ast.AST] = {}

        class _D:  # duck-typed Def for _loop_target_value
            def __init__(self, g):
                self.stmt = g
        for g in lc.generators:
            it_res = self._subst(self.resolve(self._subst(g.iter, sub), at, depth), {})
            g2 = ast.comprehension(target=g.target, iter=it_res, ifs=g.ifs, is_async=0)
            g2.lineno = getattr(lc, "lineno", 0)
            self._iter_ids.setdefault(id(g2), self._iter_name(g))
            for n in ast.walk(g.target):
                if isinstance(n, ast.Name):
                    v = self._loop_target_value(_D(g2), n.id)
                    if v is not None:
                        sub[n.id] = v
        elt = lc.elt if not isinstance(lc, ast.DictComp) else ast.Tuple(elts=[lc.key, lc.value], ctx=ast.Load())
        bound = {n.id for g in lc.generators for n in ast.walk(g.target) if isinstance(n, ast.Name)}
        out = self._subst(elt, sub)
        out = self._res_comp(out, at, depth, set(), True, bound - set(sub))
        return self.simplify(out, at, depth)

    def _subst(self, e: ast.AST, sub: Dict[str, ast.AST]) -> ast.AST:
        if isinstance(e, ast.Name) and isinstance(e.ctx, ast.Load) and e.id in sub:
            return sub[e.id]
        if isinstance(e, ast.AST):
            new = copy.copy(e)
            for fname, v in ast.iter_fields(e):
                if isinstance(v, ast.AST) and not isinstance(v, (ast.expr_context, ast.operator, ast.unaryop, ast.cmpop, ast.boolop)):
                    setattr(new, fname, self._subst(v, sub))
                elif isinstance(v, list):
                    setattr(new, fname, [self._subst(x, sub) if isinstance(x, ast.AST) and not isinstance(x, ast.cmpop) else x for x in v])
            return new
        return e

    def simplify(self, e: ast.AST, at: int, depth: int = 6) -> ast.AST:
        """β-reductions on resolved expressions: (a, b, c)[1] → b ; [f(x) for x in X][IT] → f(X[IT]) ; np.array(L)[i] → L[i]."""
        if depth <= 0 or not isinstance(e, ast.AST):
            return e
        new = copy.copy(e)
        for fname, v in ast.iter_fields(e):
            if isinstance(v, ast.AST) and not isinstance(v, (ast.expr_context, ast.operator, ast.unaryop, ast.cmpop, ast.boolop)):
                setattr(new, fname, self.simplify(v, at, depth))
            elif isinstance(v, list):
                setattr(new, fname, [self.simplify(x, at, depth) if isinstance(x, ast.AST) and not isinstance(x, ast.cmpop) else x for x in v])
        e = new
        if isinstance(e, ast.Subscript):
            b, sl = e.value, e.slice
            if isinstance(b, ast.Call) and call_name(b) in ("np.array", "np.asarray", "list", "tuple") and len(b.args) >= 1 and not isinstance(sl, (ast.Slice, ast.Tuple)):
                return self.simplify(ast.Subscript(value=b.args[0], slice=sl, ctx=ast.Load()), at, depth - 1)
            if isinstance(b, (ast.Tuple, ast.List)) and isinstance(sl, ast.Constant) and isinstance(sl.value, int) and -len(b.elts) <= sl.value < len(b.elts):
                return b.elts[sl.value]
            if isinstance(b, (ast.ListComp, ast.GeneratorExp)) and isinstance(sl, ast.Name) and sl.id.startswith("IT"):
                return self.comp_element(b, at, depth - 1)
            # A[s:][i - s] → A[i]
            if isinstance(b, ast.Subscript) and isinstance(b.slice, ast.Slice) and b.slice.lower is not None and b.slice.upper is None and b.slice.step is None \
                    and isinstance(sl, ast.BinOp) and isinstance(sl.op, ast.Sub) and norm(sl.right) == norm(b.slice.lower):
                return ast.Subscript(value=b.value, slice=sl.left, ctx=ast.Load())
        return e

    def element(self, e: ast.AST, at: int) -> Optional[ast.AST]:
        """Element (at an abstract position) of a list-valued expression: a comprehension, np.array(list), or a local list
        built by `x = []` + `x.append(v)` in a loop nest."""
        saved = self.lenient_iter
        self.lenient_iter = True
        try:
            return self._element(e, at)
        finally:
            self.lenient_iter = saved

    def _element(self, e: ast.AST, at: int) -> Optional[ast.AST]:
        if isinstance(e, ast.Call) and call_name(e) in ("np.array", "np.asarray", "list", "tuple") and e.args:
            return self._element(e.args[0], at)
        if isinstance(e, (ast.ListComp, ast.GeneratorExp)):
            return self.comp_element(e, at)
        if isinstance(e, ast.Name):
            ds = self.du.reaching(e.id, at)
            if len(ds) == 1 and ds[0].value is not None:
                v = ds[0].value
                if (isinstance(v, ast.List) and not v.elts) or norm(v) == "list()":
                    apps = [c for c in ast.walk(self.node) if isinstance(c, ast.Call) and isinstance(c.func, ast.Attribute) and c.func.attr == "append"
                            and norm(c.func.value) == e.id and len(c.args) == 1]
                    if len(apps) == 1:
                        st = apps[0]
                        while st in self.pm and not isinstance(st, ast.stmt):
                            st = self.pm[st]
                        return self.simplify(self.resolve(apps[0].args[0], self.cfg.node(st)), at)
                    return None
                return self._element(v, ds[0].node)
        return None

    def alternatives(self, e: ast.AST, at: int, limit: int = 12) -> List[ast.AST]:
        """Resolved variants of `e` when some local has several reaching definitions (one variant per definition)."""
        base = self.resolve(e, at)
        outs = [base]
        for _ in range(3):
            nxt: List[ast.AST] = []
            changed = False
            for o in outs:
                multi = None
                for n in ast.walk(o):
                    if isinstance(n, ast.Name) and isinstance(n.ctx, ast.Load):
                        ds = [d for d in self.du.reaching(n.id, at) if d.kind == "assign" and d.value is not None]
                        if len(ds) > 1 and len(ds) == len(self.du.reaching(n.id, at)):
                            multi = (n.id, ds)
                            break
                if multi is None:
                    nxt.append(o)
                    continue
                changed = True
                for d in multi[1]:
                    nxt.append(self._subst(o, {multi[0]: self.resolve(d.value, d.node)}))
            outs = nxt[:limit]
            if not changed:
                break
        return outs

    def rnorm(self, e: ast.AST, at: Optional[int] = None) -> str:
        return norm(self.resolve(e, at))

    # ------------------------------------------------------------------ path conditions
    def _conditions_raw(self, stmt: ast.AST, resolve: bool = True) -> List[Tuple[str, bool, ast.AST]]:
        """[(canonical condition text, polarity, test node)] under which `stmt` runs (within its function)."""
        out: List[Tuple[str, bool, ast.AST]] = []
        node = stmt
        in_loop = True   # until we cross the innermost loop boundary, `continue`/`break` guards count
        while node in self.pm and node is not self.node:
            parent = self.pm[node]
            blocks = [getattr(parent, n, None) for n in ("body", "orelse", "finalbody")]
            blk = next((b for b in blocks if isinstance(b, list) and node in b), None)
            if blk is not None:
                for s in blk[:blk.index(node)]:
                    if isinstance(s, ast.If):
                        leave = _leaves if in_loop else _leaves_function
                        if leave(s.body) and not leave(s.orelse):
                            out.append(self._c(s.test, False, resolve, s))
                        elif leave(s.orelse) and not leave(s.body):
                            out.append(self._c(s.test, True, resolve, s))
                    elif isinstance(s, ast.Assert):
                        out.append(self._c(s.test, True, resolve, s))
            if isinstance(parent, ast.If) and blk is not None:
                out.append(self._c(parent.test, blk is parent.body, resolve, parent))
            if isinstance(parent, ast.While) and blk is parent.body:
                out.append(self._c(parent.test, True, resolve, parent))
            if isinstance(parent, (ast.For, ast.While)) and blk is parent.body:
                in_loop = False
            node = parent
        return out

    def conditions(self, stmt: ast.AST, resolve: bool = True) -> List[Tuple[str, bool, ast.AST]]:
        """Like _conditions_raw, with `a and b` (known true) and `a or b` (known false) split into their operands."""
        out: List[Tuple[str, bool, ast.AST]] = []
        for txt, pol, node in self._conditions_raw(stmt, resolve):
            out.append((txt, pol, node))
            try:
                e = ast.parse(txt, mode="eval").body
            except SyntaxError:
                continue
            work = [(e, pol)]
            while work:
                x, p_ = work.pop()
                while isinstance(x, ast.UnaryOp) and isinstance(x.op, ast.Not):
                    x, p_ = x.operand, not p_
                if isinstance(x, ast.BoolOp) and ((isinstance(x.op, ast.And) and p_) or (isinstance(x.op, ast.Or) and not p_)):
                    for v in x.values:
                        t2, p2 = canon_cond(v, p_)
                        out.append((t2, p2, node))
                        work.append((v, p_))
        return out

    def _c(self, test: ast.AST, pol: bool, resolve: bool, owner: ast.AST) -> Tuple[str, bool, ast.AST]:
        t = test
        if resolve:
            try:
                t = self.resolve(test, self.cfg.node(owner))
            except Exception:
                t = test
        txt, p = canon_cond(t, pol)
        return txt, p, test

    def holds(self, stmt: ast.AST, cond_text: str, pol: bool = True) -> bool:
        """Is `cond_text` (canonical form of a resolved condition) known with polarity `pol` where stmt runs?"""
        want, wp = canon_cond(ast.parse(cond_text, mode="eval").body, pol)
        return any(t == want and p == wp for t, p, _ in self.conditions(stmt))


def reachable_helpers(idx: Index, f: FunctionInfo, depth: int = 2) -> List[FunctionInfo]:
    """Private functions/methods of the same module that `f` calls (transitively, bounded)."""
    m = f.module
    owners = {ff.name: ff for ff in list(m.functions.values()) + [mm for c in m.classes.values() for mm in c.methods.values()]}
    out: List[FunctionInfo] = []
    seen = {f.name}
    work = [(f, 0)]
    while work:
        g, dpt = work.pop()
        if dpt >= depth:
            continue
        for c in ast.walk(g.node):
            if isinstance(c, ast.Call):
                nm = c.func.id if isinstance(c.func, ast.Name) else c.func.attr if isinstance(c.func, ast.Attribute) else None
                if nm is None:
                    continue
                cand = owners.get(nm)
                if cand is None and getattr(g, "cls", None) is not None and nm.startswith("__"):
                    cand = owners.get(nm)
                if cand is not None and cand.name not in seen and cand.name.startswith("_") and not (cand.name.startswith("__") and cand.name.endswith("__")):
                    seen.add(cand.name)
                    out.append(cand)
                    work.append((cand, dpt + 1))
    return out


class Built:
    """A container built either by a comprehension or by `x = {} / []` followed by a loop that stores into it."""
    def __init__(self, kind: str, key: Optional[ast.AST], value: ast.AST, loops: List[ast.AST], conds: List[ast.AST], node: ast.AST):
        self.kind, self.key, self.value, self.loops, self.conds, self.node = kind, key, value, loops, conds, node


def built_container(sem: Sem, name_or_expr, at: int) -> Optional[Built]:
    """Normal form of a dict/list construction.  `loops` = [(target, iter)] outer→inner, `conds` = filter tests."""
    e = name_or_expr
    if isinstance(e, str):
        e = ast.Name(id=e, ctx=ast.Load())
    if isinstance(e, ast.Name):
        ds = sem.du.reaching(e.id, at)
        if len(ds) != 1 or ds[0].value is None:
            return None
        v = ds[0].value
        if isinstance(v, (ast.DictComp, ast.ListComp)):
            e = v
        elif (isinstance(v, ast.Dict) and not v.keys) or (isinstance(v, ast.List) and not v.elts) or norm(v) in ("dict()", "list()"):
            kind = "dict" if isinstance(v, ast.Dict) or norm(v) == "dict()" else "list"
            stores = []
            for s in ast.walk(sem.node):
                if kind == "dict" and isinstance(s, ast.Assign) and isinstance(s.targets[0], ast.Subscript) and norm(s.targets[0].value) == e.id:
                    stores.append((s, s.targets[0].slice, s.value))
                if kind == "list" and isinstance(s, ast.Expr) and isinstance(s.value, ast.Call) and isinstance(s.value.func, ast.Attribute) \
                        and s.value.func.attr == "append" and norm(s.value.func.value) == e.id and len(s.value.args) == 1:
                    stores.append((s, None, s.value.args[0]))
            if len(stores) != 1:
                return None
            st, k, val = stores[0]
            loops, conds = [], []
            x = st
            while x in sem.pm and sem.pm[x] is not sem.node:
                par = sem.pm[x]
                if isinstance(par, ast.For):
                    loops.insert(0, (par.target, par.iter))
                elif isinstance(par, ast.If):
                    conds.append(par.test if x in par.body else ast.UnaryOp(op=ast.Not(), operand=par.test))
                x = par
            return Built(kind, k, val, loops, conds, st)
        else:
            return None
    if isinstance(e, ast.DictComp):
        return Built("dict", e.key, e.value, [(g.target, g.iter) for g in e.generators], [c for g in e.generators for c in g.ifs], e)
    if isinstance(e, (ast.ListComp, ast.GeneratorExp)):
        return Built("list", None, e.elt, [(g.target, g.iter) for g in e.generators], [c for g in e.generators for c in g.ifs], e)
    return None


def helper_calls(idx: Index, S: Sem) -> List[Tuple[FunctionInfo, ast.Call, Sem]]:
    """Calls in S's function to private helpers of the same module, each with a Sem of the helper pinned to that call site."""
    out = []
    if S.fi is None:
        return out
    m = S.fi.module
    owners = {ff.name: ff for ff in list(m.functions.values()) + [mm for c in m.classes.values() for mm in c.methods.values()]}
    for c in ast.walk(S.node):
        if isinstance(c, ast.Call):
            nm = c.func.id if isinstance(c.func, ast.Name) else c.func.attr if isinstance(c.func, ast.Attribute) and isinstance(c.func.value, ast.Name) \
                and c.func.value.id in ("self", "cls") else None
            g = owners.get(nm) if nm else None
            if g is not None and g is not S.fi and nm.startswith("_") and not (nm.startswith("__") and nm.endswith("__")):
                out.append((g, c, Sem(idx, g, caller=(S, c))))
    return out


# ---------------------------------------------------------------------- statement-level inlining of private helpers

def _nest_early_returns(body: List[ast.stmt]) -> List[ast.stmt]:
    """`if c: …; return X` followed by more statements  →  `if c: …; return X` / `else: <the rest>` (same behaviour; every return ends up in tail
    position).  `raise` at the end of a guard is treated the same way."""
    for i, s in enumerate(body):
        if isinstance(s, ast.If) and not s.orelse and s.body and isinstance(s.body[-1], (ast.Return, ast.Raise)) and i + 1 < len(body) \
                and any(isinstance(r, ast.Return) for r in ast.walk(s)):
            s.orelse = _nest_early_returns(body[i + 1:])
            s.body = _nest_early_returns(s.body)
            return body[:i] + [s]
        if isinstance(s, ast.If):
            s.body = _nest_early_returns(s.body)
            s.orelse = _nest_early_returns(s.orelse) if s.orelse else s.orelse
    return body


def _tail_position_returns(body: List[ast.stmt]) -> bool:
    """Every `return` of the statement list is in tail position (last statement, or last statement of an arm of a trailing if)."""
    for s in body[:-1]:
        if any(isinstance(n, ast.Return) for n in ast.walk(s)):
            return False
    if not body:
        return True
    last = body[-1]
    if isinstance(last, ast.Return):
        return True
    if isinstance(last, ast.If):
        return _tail_position_returns(last.body) and _tail_position_returns(last.orelse)
    return not any(isinstance(n, ast.Return) for n in ast.walk(last))


def _replace_tail_returns(body: List[ast.stmt], make_tail) -> List[ast.stmt]:
    out = list(body)
    if not out:
        return out
    last = out[-1]
    if isinstance(last, ast.Return):
        t = make_tail(last.value if last.value is not None else ast.Constant(value=None))
        out = out[:-1] + ([t] if t is not None else [ast.Pass()] if not out[:-1] else [])
    elif isinstance(last, ast.If):
        last.body = _replace_tail_returns(last.body, make_tail) or [ast.Pass()]
        last.orelse = _replace_tail_returns(last.orelse, make_tail)
    return out


def _simple_body(g: FunctionInfo) -> Optional[Tuple[List[ast.stmt], Optional[ast.AST]]]:
    """(statements, returned expression) if g's only `return` is its last statement (or it has none), else None."""
    body = [s for s in g.node.body if not (isinstance(s, ast.Expr) and isinstance(s.value, ast.Constant) and isinstance(s.value.value, str))]
    rets = [n for n in ast.walk(g.node) if isinstance(n, ast.Return)]
    if any(isinstance(n, (ast.Yield, ast.YieldFrom, ast.FunctionDef, ast.AsyncFunctionDef, ast.Lambda, ast.Global, ast.Nonlocal)) for s in body for n in ast.walk(s)):
        return None
    if not rets:
        return body, None
    if len(rets) == 1 and body and body[-1] is rets[0]:
        return body[:-1], rets[0].value
    return None


class _Rename(ast.NodeTransformer):
    def __init__(self, names: Dict[str, str], subst: Dict[str, ast.AST]):
        self.names, self.subst = names, subst

    def visit_Name(self, n: ast.Name):
        if n.id in self.subst and isinstance(n.ctx, ast.Load):
            return copy.deepcopy(self.subst[n.id])
        if n.id in self.names:
            return ast.copy_location(ast.Name(id=self.names[n.id], ctx=n.ctx), n)
        return n


def _fold_none_guards(body: List[ast.stmt]) -> List[ast.stmt]:
    """Straight-line constant folding of `if p is None:` / `if p is not None:` when `p` was just bound to a constant (the default of an
    inlined helper parameter): the guard is replaced by the arm that is taken."""
    known: Dict[str, ast.Constant] = {}
    out: List[ast.stmt] = []
    for st in body:
        if isinstance(st, ast.If) and isinstance(st.test, ast.Compare) and len(st.test.ops) == 1 and isinstance(st.test.ops[0], (ast.Is, ast.IsNot)) \
                and isinstance(st.test.left, ast.Name) and st.test.left.id in known and isinstance(st.test.comparators[0], ast.Constant) \
                and st.test.comparators[0].value is None:
            is_none = known[st.test.left.id].value is None
            take = st.body if (is_none == isinstance(st.test.ops[0], ast.Is)) else st.orelse
            for n in ast.walk(st):
                if isinstance(n, ast.Name) and isinstance(n.ctx, (ast.Store, ast.Del)):
                    known.pop(n.id, None)
            out += _fold_none_guards(list(take))
            continue
        stored = {n.id for n in ast.walk(st) if isinstance(n, ast.Name) and isinstance(n.ctx, (ast.Store, ast.Del))}
        for nm in stored:
            known.pop(nm, None)
        if isinstance(st, ast.Assign) and len(st.targets) == 1 and isinstance(st.targets[0], ast.Name) and isinstance(st.value, ast.Constant):
            known[st.targets[0].id] = st.value
        out.append(st)
    return out


def inline_private_helpers(idx: Index, fi: FunctionInfo, depth: int = 2, skip: Optional[Set[str]] = None) -> FunctionInfo:
    """A copy of `fi` in which statements `t = self._h(a, b)`, `return _h(a)`, `self._h(a)` calling a private helper of the same
    module/class with a simple body (no early return) are replaced by the helper's statements (locals renamed, parameters bound).
    Used so that an "extract method" refactor leaves the analysed shape unchanged."""
    m = fi.module
    count = [0]

    nested: Dict[str, FunctionInfo] = {}
    for n_ in ast.walk(fi.node):
        if isinstance(n_, ast.FunctionDef) and n_ is not fi.node:
            nested[n_.name] = FunctionInfo(name=n_.name, qualname=f"{fi.qualname}.<locals>.{n_.name}", module=m, node=n_, cls=None, decorators=[])
    used_nested: Set[str] = set()

    def helper_of(call: ast.AST) -> Optional[FunctionInfo]:
        if not isinstance(call, ast.Call):
            return None
        fn = call.func
        if isinstance(fn, ast.Name) and fn.id in nested:
            if any(isinstance(a, ast.Starred) for a in call.args) or any(k.arg is None for k in call.keywords):
                return None
            used_nested.add(fn.id)
            return nested[fn.id]
        name = fn.id if isinstance(fn, ast.Name) else fn.attr if isinstance(fn, ast.Attribute) and isinstance(fn.value, ast.Name) and fn.value.id in ("self", "cls") else None
        if name is None or not name.startswith("_") or (name.startswith("__") and name.endswith("__")) or name == fi.name or (skip and name in skip):
            return None
        g = m.functions.get(name) if isinstance(fn, ast.Name) else (idx.find_method(fi.cls, name) if fi.cls is not None else None)
        if g is None or g.module is not m or g.is_property:
            return None
        if any(isinstance(a, ast.Starred) for a in call.args) or any(k.arg is None for k in call.keywords):
            return None
        return g

    def expand(call: ast.Call, g: FunctionInfo, make_tail) -> Optional[List[ast.stmt]]:
        sb = _simple_body(g)
        tail_form = False
        if sb is None:
            body0 = [s for s in g.node.body if not (isinstance(s, ast.Expr) and isinstance(s.value, ast.Constant) and isinstance(s.value.value, str))]
            body0 = _nest_early_returns(copy.deepcopy(body0))
            loops_with_return = any(isinstance(n, (ast.For, ast.While)) and any(isinstance(r, ast.Return) for r in ast.walk(n)) for s in body0 for n in ast.walk(s))
            if any(isinstance(n, (ast.Yield, ast.YieldFrom, ast.FunctionDef, ast.AsyncFunctionDef, ast.Lambda, ast.Global, ast.Nonlocal, ast.Try, ast.With))
                   for s in body0 for n in ast.walk(s)) or loops_with_return or not _tail_position_returns(body0):
                return None
            sb = (body0, None)
            tail_form = True
        body, retv = sb
        params = list(g.params)
        if isinstance(call.func, ast.Attribute) and params and params[0] in ("self", "cls"):
            params = params[1:]
        kwname = g.node.args.kwarg.arg if g.node.args.kwarg is not None else None
        if g.node.args.vararg is not None:
            return None
        if kwname is not None:
            params = [p_ for p_ in params if p_ != kwname]
        if len(call.args) > len(params):
            return None
        bind: Dict[str, ast.AST] = {}
        extra_kw: List[ast.keyword] = []
        for p_, a in zip(params, call.args):
            bind[p_] = a
        for k in call.keywords:
            if k.arg in params:
                bind[k.arg] = k.value
            elif kwname is not None:
                extra_kw.append(k)
            else:
                return None
        if kwname is not None:
            # **kwargs may only be forwarded (`f(..., **kwargs)`) in the helper body
            uses = [n for s in g.node.body for n in ast.walk(s) if isinstance(n, ast.Name) and n.id == kwname]
            fwd = [k for s in g.node.body for c_ in ast.walk(s) if isinstance(c_, ast.Call) for k in c_.keywords if k.arg is None and isinstance(k.value, ast.Name) and k.value.id == kwname]
            if len(uses) != len(fwd):
                return None
        a_ = g.node.args
        pos = [x.arg for x in a_.posonlyargs + a_.args]
        for i_, d_ in enumerate(a_.defaults):
            bind.setdefault(pos[len(pos) - len(a_.defaults) + i_], d_)
        for x, d_ in zip(a_.kwonlyargs, a_.kw_defaults):
            if d_ is not None:
                bind.setdefault(x.arg, d_)
        if any(p_ not in bind for p_ in params):
            return None
        count[0] += 1
        tag = f"__{g.name.strip('_')}{count[0]}"
        assigned = {n.id for s in g.node.body for n in ast.walk(s) if isinstance(n, ast.Name) and isinstance(n.ctx, (ast.Store, ast.Del))}
        names = {n_: n_ + tag for n_ in assigned}
        subst: Dict[str, ast.AST] = {}
        pre: List[ast.stmt] = []
        for p_ in params:
            v = bind[p_]
            simple = isinstance(v, (ast.Name, ast.Constant)) or (isinstance(v, ast.Attribute) and isinstance(v.value, ast.Name))
            if simple and p_ not in assigned:
                subst[p_] = v
            else:
                names[p_] = p_ + tag
                pre.append(ast.copy_location(ast.Assign(targets=[ast.Name(id=p_ + tag, ctx=ast.Store())], value=copy.deepcopy(v), lineno=call.lineno), call))
        rn = _Rename(names, subst)
        new = pre + [rn.visit(copy.deepcopy(s)) for s in body]
        retv2 = rn.visit(copy.deepcopy(retv)) if retv is not None else None
        if kwname is not None:
            for root in new + ([retv2] if retv2 is not None else []):
                for c_ in ast.walk(root):
                    if isinstance(c_, ast.Call):
                        nk = []
                        for k in c_.keywords:
                            if k.arg is None and isinstance(k.value, ast.Name) and k.value.id in (kwname, names.get(kwname, kwname)):
                                nk += [ast.keyword(arg=e.arg, value=copy.deepcopy(e.value)) for e in extra_kw]
                            else:
                                nk.append(k)
                        c_.keywords = nk
        if tail_form:
            new = pre + _replace_tail_returns(new[len(pre):], make_tail)
        else:
            tail = make_tail(retv2 if retv2 is not None else ast.Constant(value=None))
            if tail is not None:
                new.append(tail)
        new = _fold_none_guards(new)
        for s in new:
            ast.fix_missing_locations(s)
        return new

    def process(stmts_: List[ast.stmt], level: int) -> List[ast.stmt]:
        out: List[ast.stmt] = []
        for s in stmts_:
            for fld in ("body", "orelse", "finalbody"):
                v = getattr(s, fld, None)
                if isinstance(v, list) and v and isinstance(v[0], ast.stmt):
                    setattr(s, fld, process(v, level))
            if isinstance(s, ast.Try):
                for h in s.handlers:
                    h.body = process(h.body, level)
            rep = None
            if level < depth and isinstance(s, ast.For) and helper_of(s.iter) is not None:
                g_ = helper_of(s.iter)
                count[0] += 1
                tname = f"_h{count[0]}__{g_.name.strip('_')}"
                pre_s = ast.copy_location(ast.Assign(targets=[ast.Name(id=tname, ctx=ast.Store())], value=s.iter, lineno=s.lineno), s)
                s.iter = ast.copy_location(ast.Name(id=tname, ctx=ast.Load()), s.iter)
                out += process([pre_s], level) + [s]
                continue
            if level < depth and isinstance(s, (ast.Assign, ast.AugAssign, ast.Expr, ast.Return, ast.Assert)):
                # hoist helper calls nested in an expression: `y = f(_h(a), b)` → `t = _h(a); y = f(t, b)` (analysis only)
                top = s.value if isinstance(s, (ast.Assign, ast.AugAssign, ast.Expr, ast.Return)) else s.test
                pre_h: List[ast.stmt] = []
                if top is not None:
                    skip = set()
                    for q in ast.walk(top):
                        if isinstance(q, (ast.ListComp, ast.GeneratorExp, ast.SetComp, ast.DictComp, ast.Lambda, ast.IfExp, ast.BoolOp)):
                            # the iterable of the first generator of a list/set/dict comprehension is evaluated exactly once, eagerly
                            eager = set()
                            if isinstance(q, (ast.ListComp, ast.SetComp, ast.DictComp)) and id(q) not in skip:
                                eager = {id(z) for z in ast.walk(q.generators[0].iter)}
                                for z in ast.walk(q.generators[0].iter):
                                    if isinstance(z, (ast.ListComp, ast.GeneratorExp, ast.SetComp, ast.DictComp, ast.Lambda, ast.IfExp, ast.BoolOp)):
                                        eager -= {id(y) for y in ast.walk(z) if y is not z}
                            for z in ast.walk(q):
                                if z is not q and id(z) not in eager:
                                    skip.add(id(z))
                    for q in list(ast.walk(top)):
                        if q is top or id(q) in skip or not isinstance(q, ast.Call):
                            continue
                        g_ = helper_of(q)
                        if g_ is None:
                            continue
                        sb_ = _simple_body(g_)
                        if sb_ is None:
                            b0_ = [s_ for s_ in g_.node.body if not (isinstance(s_, ast.Expr) and isinstance(s_.value, ast.Constant) and isinstance(s_.value.value, str))]
                            if not (len(b0_) > 1 and _tail_position_returns(_nest_early_returns(copy.deepcopy(b0_)))):
                                continue
                        elif not sb_[0] and sb_[1] is not None and g_.name not in nested:
                            continue    # single-expression (module / class level) helpers are β-reduced by Sem.resolve
                        count[0] += 1
                        tname = f"_h{count[0]}__{g_.name.strip('_')}"
                        pre_h.append(ast.copy_location(ast.Assign(targets=[ast.Name(id=tname, ctx=ast.Store())], value=copy.deepcopy(q), lineno=s.lineno), s))
                        for par in ast.walk(s):
                            for fld, v in ast.iter_fields(par):
                                if v is q:
                                    setattr(par, fld, ast.copy_location(ast.Name(id=tname, ctx=ast.Load()), q))
                                elif isinstance(v, list):
                                    for i_, x in enumerate(v):
                                        if x is q:
                                            v[i_] = ast.copy_location(ast.Name(id=tname, ctx=ast.Load()), q)
                if pre_h:
                    out += process(pre_h + [s], level)
                    continue
            if level < depth:
                if isinstance(s, ast.Assign) and len(s.targets) == 1 and helper_of(s.value) is not None:
                    tgt = s.targets[0]
                    rep = expand(s.value, helper_of(s.value), lambda v, tgt=tgt, s=s: ast.copy_location(ast.Assign(targets=[tgt], value=v, lineno=s.lineno), s))
                elif isinstance(s, ast.Return) and s.value is not None and helper_of(s.value) is not None:
                    rep = expand(s.value, helper_of(s.value), lambda v, s=s: ast.copy_location(ast.Return(value=v), s))
                elif isinstance(s, ast.Expr) and helper_of(s.value) is not None:
                    rep = expand(s.value, helper_of(s.value), lambda v: None)
            if rep is not None:
                out += process(rep, level + 1)
            else:
                out.append(s)
        return out

    node = copy.deepcopy(fi.node)
    # look helpers up in the copy (nested defs are part of it)
    nested.clear()
    for n_ in ast.walk(node):
        if isinstance(n_, ast.FunctionDef) and n_ is not node:
            nested[n_.name] = FunctionInfo(name=n_.name, qualname=f"{fi.qualname}.<locals>.{n_.name}", module=m, node=n_, cls=None, decorators=[])
    node.body = process([s for s in node.body], 0)
    if count[0] == 0:
        return fi
    node.body = [s for s in node.body if not (isinstance(s, ast.FunctionDef) and s.name in used_nested)]
    ast.fix_missing_locations(node)
    return FunctionInfo(name=fi.name, qualname=fi.qualname, module=fi.module, node=node, cls=fi.cls, decorators=list(fi.decorators))


def desugar_shallow_copy(idx: Index, fi: FunctionInfo) -> FunctionInfo:
    """A copy of method `fi` in which  r = copy.copy(self); r.<attr> = X; …; return r  is written as the constructor call it stands for,
    `return self.__class__(p=self.p for every constructor parameter p, attr=X)` (statements that only drop cache entries of r are kept out).
    Lets the rules that judge `self.__class__(…)` calls judge results built by copying self."""
    cls = fi.cls
    if cls is None:
        return fi
    init = idx.find_method(cls, "__init__")
    if init is None:
        return fi
    kwn = init.node.args.kwarg.arg if init.node.args.kwarg is not None else None
    params = [p for p in init.params if p not in ("self", kwn)]
    # a copy also carries what the constructors of the base classes store from **kwargs
    for c_ in idx.mro(cls):
        i2 = c_.methods.get("__init__")
        if i2 is None:
            continue
        for st_ in ast.walk(i2.node):
            if isinstance(st_, ast.Assign):
                for t_ in st_.targets:
                    if isinstance(t_, ast.Attribute) and isinstance(t_.value, ast.Name) and t_.value.id == "self" and t_.attr in i2.params and t_.attr not in params:
                        params.append(t_.attr)
    node = copy.deepcopy(fi.node)
    changed = [0]

    def process(body: List[ast.stmt]) -> List[ast.stmt]:
        for s_ in body:
            for fld in ("body", "orelse", "finalbody"):
                v = getattr(s_, fld, None)
                if isinstance(v, list) and v and isinstance(v[0], ast.stmt):
                    setattr(s_, fld, process(v))
        for i, s_ in enumerate(body):
            if isinstance(s_, ast.Assign) and len(s_.targets) == 1 and isinstance(s_.targets[0], ast.Name) and isinstance(s_.value, ast.Call) \
                    and call_name(s_.value) in ("copy.copy", "copy") and len(s_.value.args) == 1 and norm(s_.value.args[0]) == "self":
                r = s_.targets[0].id
                over: Dict[str, ast.AST] = {}
                j = i + 1
                while j < len(body):
                    t_ = body[j]
                    if isinstance(t_, ast.Assign) and len(t_.targets) == 1 and isinstance(t_.targets[0], ast.Attribute) and norm(t_.targets[0].value) == r:
                        over[t_.targets[0].attr] = t_.value
                    elif isinstance(t_, ast.Expr) and isinstance(t_.value, ast.Call) and norm(t_.value.func).startswith(f"{r}.__dict__.pop"):
                        pass
                    elif isinstance(t_, ast.Delete) and all(isinstance(x, ast.Attribute) and norm(x.value) == r for x in t_.targets):
                        pass
                    elif isinstance(t_, ast.Assert):
                        pass
                    else:
                        break
                    j += 1
                if j < len(body) and isinstance(body[j], ast.Return) and body[j].value is not None and norm(body[j].value) == r and all(a in params for a in over):
                    kws = [ast.keyword(arg=p_, value=over.get(p_) or ast.Attribute(value=ast.Name(id="self", ctx=ast.Load()), attr=p_, ctx=ast.Load())) for p_ in params]
                    call = ast.Call(func=ast.Attribute(value=ast.Name(id="self", ctx=ast.Load()), attr="__class__", ctx=ast.Load()), args=[], keywords=kws)
                    ret = ast.copy_location(ast.Return(value=call), body[j])
                    ast.fix_missing_locations(ret)
                    changed[0] += 1
                    return body[:i] + [ret] + body[j + 1:]
        return body
    node.body = process(list(node.body))
    if not changed[0]:
        return fi
    ast.fix_missing_locations(node)
    return FunctionInfo(name=fi.name, qualname=fi.qualname, module=fi.module, node=node, cls=fi.cls, decorators=list(fi.decorators))


def loopify_comprehensions(idx: Index, fi: FunctionInfo) -> FunctionInfo:
    """A copy of `fi` in which `X = [ELT for t in IT]` / `X = {K: V for t in IT}` (one generator, no filter, X a plain name) whose
    element calls a private multi-statement helper is written as the loop it abbreviates (`X = []` + `for t in IT: X.append(ELT)`;
    `X = {}` + `for t in IT: X[K] = V`), so that `inline_private_helpers` can put the helper's statements in place.  A
    comprehension has its own scope: the rewrite is only done when every other read of the loop variable's name in the function sits
    inside a loop / comprehension that binds that name itself."""
    m = fi.module

    def free_reads(root: ast.AST, names: Set[str], exclude: ast.AST) -> bool:
        """True if some read of one of `names` under root (outside `exclude`) is not under a For / comprehension binding it."""
        def walk(n: ast.AST, bound: Set[str]) -> bool:
            if n is exclude:
                return False
            if isinstance(n, ast.Name):
                return isinstance(n.ctx, ast.Load) and n.id in names and n.id not in bound
            if isinstance(n, (ast.For, ast.AsyncFor)):
                b2 = bound | {x.id for x in ast.walk(n.target) if isinstance(x, ast.Name)}
                return walk(n.iter, bound) or any(walk(c, b2) for c in n.body) or any(walk(c, bound) for c in n.orelse)
            if isinstance(n, (ast.ListComp, ast.SetComp, ast.GeneratorExp, ast.DictComp)):
                b2 = bound | {x.id for g_ in n.generators for x in ast.walk(g_.target) if isinstance(x, ast.Name)}
                return any(walk(c, b2) for c in ast.iter_child_nodes(n))
            return any(walk(c, bound) for c in ast.iter_child_nodes(n))
        return walk(root, set())

    def has_helper(e: ast.AST) -> bool:
        for c in ast.walk(e):
            if isinstance(c, ast.Call):
                fn = c.func
                name = fn.id if isinstance(fn, ast.Name) else fn.attr if isinstance(fn, ast.Attribute) and isinstance(fn.value, ast.Name) and fn.value.id in ("self", "cls") else None
                if name is None or not name.startswith("_") or name.startswith("__"):
                    continue
                g = m.functions.get(name) if isinstance(fn, ast.Name) else (idx.find_method(fi.cls, name) if fi.cls is not None else None)
                if g is None or g.module is not m:
                    continue
                sb = _simple_body(g)
                if sb is not None and sb[0]:
                    return True
                body0 = [s_ for s_ in g.node.body if not (isinstance(s_, ast.Expr) and isinstance(s_.value, ast.Constant) and isinstance(s_.value.value, str))]
                if sb is None and len(body0) > 1 and _tail_position_returns(_nest_early_returns(copy.deepcopy(body0))):
                    return True
        return False
    changed = [0]

    def process(stmts_: List[ast.stmt]) -> List[ast.stmt]:
        out: List[ast.stmt] = []
        for s in stmts_:
            for fld in ("body", "orelse", "finalbody"):
                v = getattr(s, fld, None)
                if isinstance(v, list) and v and isinstance(v[0], ast.stmt):
                    setattr(s, fld, process(v))
            if isinstance(s, ast.Return) and isinstance(s.value, (ast.ListComp, ast.DictComp)) and len(s.value.generators) == 1 and not s.value.generators[0].ifs \
                    and has_helper(s.value.elt if isinstance(s.value, ast.ListComp) else ast.Tuple(elts=[s.value.key, s.value.value], ctx=ast.Load())):
                # return [ELT for t in IT]  →  _ret = [ELT for t in IT]; return _ret   (then treated below)
                tmp_ = ast.copy_location(ast.Assign(targets=[ast.Name(id="_ret_comp", ctx=ast.Store())], value=s.value, lineno=s.lineno), s)
                ret_ = ast.copy_location(ast.Return(value=ast.Name(id="_ret_comp", ctx=ast.Load())), s)
                ast.fix_missing_locations(tmp_)
                ast.fix_missing_locations(ret_)
                out += process([tmp_]) + [ret_]
                continue
            if isinstance(s, ast.Assign) and len(s.targets) == 1 and isinstance(s.targets[0], ast.Name) and isinstance(s.value, (ast.ListComp, ast.DictComp)) \
                    and len(s.value.generators) == 1 and not s.value.generators[0].ifs and not s.value.generators[0].is_async \
                    and has_helper(s.value.elt if isinstance(s.value, ast.ListComp) else ast.Tuple(elts=[s.value.key, s.value.value], ctx=ast.Load())):
                x = s.targets[0].id
                ge = s.value.generators[0]
                tnames = {n.id for n in ast.walk(ge.target) if isinstance(n, ast.Name)}
                if any(isinstance(n, ast.Name) and n.id == x for n in ast.walk(s.value)) or free_reads(node, tnames, s.value):
                    out.append(s)
                    continue
                changed[0] += 1
                if isinstance(s.value, ast.ListComp):
                    init = ast.List(elts=[], ctx=ast.Load())
                    body = ast.Expr(value=ast.Call(func=ast.Attribute(value=ast.Name(id=x, ctx=ast.Load()), attr="append", ctx=ast.Load()),
                                                   args=[s.value.elt], keywords=[]))
                else:
                    init = ast.Dict(keys=[], values=[])
                    body = ast.Assign(targets=[ast.Subscript(value=ast.Name(id=x, ctx=ast.Load()), slice=s.value.key, ctx=ast.Store())], value=s.value.value,
                                      lineno=s.lineno)
                a0 = ast.copy_location(ast.Assign(targets=[ast.Name(id=x, ctx=ast.Store())], value=init, lineno=s.lineno), s)
                tgt = copy.deepcopy(ge.target)
                for n in ast.walk(tgt):
                    if isinstance(n, ast.Name):
                        n.ctx = ast.Store()
                lp = ast.copy_location(ast.For(target=tgt, iter=ge.iter, body=[ast.copy_location(body, s)], orelse=[], lineno=s.lineno), s)
                for z in (a0, lp):
                    ast.fix_missing_locations(z)
                out += [a0, lp]
                continue
            out.append(s)
        return out
    node = copy.deepcopy(fi.node)
    node.body = process(list(node.body))
    if not changed[0]:
        return fi
    ast.fix_missing_locations(node)
    return FunctionInfo(name=fi.name, qualname=fi.qualname, module=fi.module, node=node, cls=fi.cls, decorators=list(fi.decorators))


# ---------------------------------------------------------------------- abstract evaluation of small literal lists

def bind_target(target: ast.AST, value: ast.AST, env: Dict[str, ast.AST]) -> Optional[Dict[str, ast.AST]]:
    """env extended by destructuring `target = value` (names and tuples of names against tuple/list literals)."""
    out = dict(env)
    if isinstance(target, ast.Name):
        out[target.id] = value
        return out
    if isinstance(target, (ast.Tuple, ast.List)) and isinstance(value, (ast.Tuple, ast.List)) and len(target.elts) == len(value.elts):
        for t, v in zip(target.elts, value.elts):
            r = bind_target(t, v, out)
            if r is None:
                return None
            out = r
        return out
    return None


def list_elements(S: Sem, e: ast.AST, at: int, env: Optional[Dict[str, ast.AST]] = None, depth: int = 12) -> Optional[List[ast.AST]]:
    """The explicit elements of a list-valued expression when they can be enumerated statically: literal tuples/lists,
    range(n) with constant n, zip / enumerate of such, comprehensions over such, a local list built by `x = []` and one
    `x.append(v)` inside a loop over such, and single-expression private helpers returning such.  None if not enumerable."""
    env = env or {}
    if depth <= 0:
        return None
    e = S._subst(e, env)
    if isinstance(e, (ast.Tuple, ast.List)):
        return list(e.elts)
    if isinstance(e, ast.Call):
        cn = call_name(e)
        if cn == "range" and len(e.args) == 1 and isinstance(e.args[0], ast.Constant) and isinstance(e.args[0].value, int):
            return [ast.Constant(value=k) for k in range(e.args[0].value)]
        if cn == "zip" and e.args and not e.keywords:
            cols = [list_elements(S, a, at, {}, depth - 1) for a in e.args]
            known = [c for c in cols if c is not None]
            if not known:
                return None
            n = min(len(c) for c in known)
            # an operand that cannot be enumerated (a parameter, say) contributes its i-th element symbolically; the length of the
            # zip is that of the enumerable operands (a shorter opaque operand would end the loop earlier — callers that depend on
            # the exact length must not rely on this)
            cols = [c if c is not None else [ast.Subscript(value=a, slice=ast.Constant(value=i), ctx=ast.Load()) for i in range(n)]
                    for c, a in zip(cols, e.args)]
            return [ast.Tuple(elts=[c[i] for c in cols], ctx=ast.Load()) for i in range(n)]
        if cn == "enumerate" and len(e.args) == 1:
            inner = list_elements(S, e.args[0], at, {}, depth - 1)
            if inner is None:
                return None
            return [ast.Tuple(elts=[ast.Constant(value=i), x], ctx=ast.Load()) for i, x in enumerate(inner)]
        if cn in ("list", "tuple") and len(e.args) == 1:
            return list_elements(S, e.args[0], at, {}, depth - 1)
        if cn == "reversed" and len(e.args) == 1:
            inner = list_elements(S, e.args[0], at, {}, depth - 1)
            return None if inner is None else inner[::-1]
        inl = S._inline(e, at, 6, set(), False) if S.inline_helpers else None
        if inl is not None:
            return list_elements(S, inl, at, {}, depth - 1)
        return None
    if isinstance(e, (ast.ListComp, ast.GeneratorExp)):
        outs: List[Dict[str, ast.AST]] = [dict()]
        for ge in e.generators:
            nxt: List[Dict[str, ast.AST]] = []
            for sub in outs:
                els = list_elements(S, ge.iter, at, sub, depth - 1)
                if els is None or ge.ifs:
                    return None
                for el in els:
                    b = bind_target(ge.target, el, sub)
                    if b is None:
                        return None
                    nxt.append(b)
            outs = nxt
        return [S._subst(e.elt, sub) for sub in outs]
    if isinstance(e, ast.Attribute) and isinstance(e.value, ast.Name) and e.value.id == "self" and S.idx is not None and S.fi is not None and S.fi.cls is not None:
        # an attribute that the constructor sets once to a literal tuple / list (e.g. the pair of spin channels)
        ini = S.idx.find_method(S.fi.cls, "__init__")
        if ini is not None:
            sets = [a_ for a_ in ast.walk(ini.node) if isinstance(a_, ast.Assign) and len(a_.targets) == 1 and norm(a_.targets[0]) == norm(e)]
            others = [a_ for m_ in S.fi.cls.methods.values() if m_ is not ini for a_ in ast.walk(m_.node)
                      if isinstance(a_, (ast.Assign, ast.AugAssign)) and norm(a_.targets[0] if isinstance(a_, ast.Assign) else a_.target) == norm(e)]
            if len(sets) == 1 and not others and isinstance(sets[0].value, (ast.Tuple, ast.List)):
                return list(sets[0].value.elts)
        return None
    if isinstance(e, ast.Subscript) and isinstance(e.slice, ast.Slice):
        inner = list_elements(S, e.value, at, {}, depth - 1)
        if inner is None:
            return None
        try:
            lo, hi, stp = (None if x is None else ast.literal_eval(x) for x in (e.slice.lower, e.slice.upper, e.slice.step))
        except (ValueError, SyntaxError):
            return None
        if not all(x is None or isinstance(x, int) for x in (lo, hi, stp)):
            return None
        return inner[slice(lo, hi, stp)]
    if isinstance(e, ast.Name):
        ds = S.du.reaching(e.id, at)
        if len(ds) != 1 or ds[0].value is None or ds[0].kind != "assign":
            return None
        v = ds[0].value
        if (isinstance(v, ast.List) and not v.elts) or norm(v) == "list()":
            apps = [c for c in ast.walk(S.node) if isinstance(c, ast.Call) and isinstance(c.func, ast.Attribute) and c.func.attr == "append"
                    and norm(c.func.value) == e.id and len(c.args) == 1]
            if len(apps) != 1:
                return None
            loops = [l for l in reversed([x for x in _ancestors(S, apps[0]) if isinstance(x, ast.For)])]
            if any(isinstance(x, (ast.If, ast.While)) for x in _ancestors(S, apps[0])):
                return None
            envs: List[Dict[str, ast.AST]] = [dict()]
            for l in loops:
                nxt2: List[Dict[str, ast.AST]] = []
                for sub in envs:
                    els = list_elements(S, l.iter, S.cfg.node(l), sub, depth - 1)
                    if els is None:
                        return None
                    for el in els:
                        b = bind_target(l.target, el, sub)
                        if b is None:
                            return None
                        nxt2.append(b)
                envs = nxt2
            return [S._subst(apps[0].args[0], sub) for sub in envs]
        return list_elements(S, v, ds[0].node, {}, depth - 1)
    return None


def return_cases(S: Sem, resolve: bool = False) -> List[Tuple[ast.AST, List[Tuple[str, bool]], ast.stmt]]:
    """Every value the function can return, with the (canonical) conditions under which it is returned: one case per
    `return` statement, conditional expressions `a if c else b` split into their two arms."""
    out: List[Tuple[ast.AST, List[Tuple[str, bool]], ast.stmt]] = []
    for st in ast.walk(S.node):
        if not (isinstance(st, ast.Return) and st.value is not None):
            continue
        if any(isinstance(p_, (ast.FunctionDef, ast.Lambda)) and p_ is not S.node for p_ in _ancestors(S, st)):
            continue
        base = [(t, p) for t, p, _ in S.conditions(st, resolve=resolve)]
        work: List[Tuple[ast.AST, List[Tuple[str, bool]]]] = [(st.value, base)]
        while work:
            v, cs = work.pop()
            if isinstance(v, ast.IfExp):
                work.append((v.body, cs + [canon_cond(v.test, True)]))
                work.append((v.orelse, cs + [canon_cond(v.test, False)]))
            else:
                out.append((v, cs, st))
    return out


def _has_object(e: ast.AST) -> bool:
    return any(isinstance(n, ast.Attribute) for n in ast.walk(e))


def unroll_finite_loops(idx: Index, fi: FunctionInfo, want=None, max_elems: int = 8) -> FunctionInfo:
    """A copy of `fi` in which every `for T in ITER:` whose iterable can be enumerated statically (list_elements) and
    satisfies `want(elements)` (default: some element mentions an object attribute, i.e. the loop ranges over objects, not over
    plain integers) is replaced by one copy of its body per element with the loop targets substituted.  Loops containing
    break/continue/else, or whose body re-binds a loop target, are left alone."""
    S = Sem(idx, fi)
    want = want or (lambda els: any(_has_object(x) for x in els))
    changed = [False]

    def stores(body: List[ast.stmt]) -> Set[str]:
        return {n.id for st in body for n in ast.walk(st) if isinstance(n, ast.Name) and isinstance(n.ctx, (ast.Store, ast.Del))}

    def rec(body: List[ast.stmt]) -> List[ast.stmt]:
        out: List[ast.stmt] = []
        for st in body:
            if isinstance(st, ast.For) and not st.orelse and not any(isinstance(n, (ast.Break, ast.Continue)) for n in ast.walk(st)):
                els = list_elements(S, st.iter, S.cfg.node(st))
                tnames = {n.id for n in ast.walk(st.target) if isinstance(n, ast.Name)}
                if els is not None and 0 < len(els) <= max_elems and want(els) and not (tnames & stores(st.body)):
                    envs = [bind_target(st.target, el, {}) for el in els]
                    if all(e_ is not None for e_ in envs):
                        inner = rec(st.body)
                        for env in envs:
                            out += [S._subst(copy.deepcopy(x), env) for x in inner]
                        changed[0] = True
                        continue
            new = st
            for fld in ("body", "orelse", "finalbody"):
                b = getattr(st, fld, None)
                if isinstance(b, list) and b and isinstance(b[0], ast.stmt) and not isinstance(st, (ast.FunctionDef, ast.AsyncFunctionDef, ast.ClassDef)):
                    nb = rec(b)
                    if nb is not b and any(x is not y for x, y in zip(nb, b)) or len(nb) != len(b):
                        if new is st:
                            new = copy.copy(st)
                        setattr(new, fld, nb)
            if isinstance(st, ast.Try):
                hs = []
                for h in st.handlers:
                    nh = copy.copy(h)
                    nh.body = rec(h.body)
                    hs.append(nh)
                if new is st:
                    new = copy.copy(st)
                new.handlers = hs
            out.append(new)
        return out

    nb = rec(fi.node.body)
    if not changed[0]:
        return fi
    node = copy.copy(fi.node)
    node.body = nb
    node = copy.deepcopy(node)
    ast.fix_missing_locations(node)
    return FunctionInfo(name=fi.name, qualname=fi.qualname, module=fi.module, node=node, cls=fi.cls, decorators=list(fi.decorators))



# ---------------------------------------------------------------------------------------------------------------------
# de-referencing across comprehension scopes and concatenation normal form
def comp_binding(S: Sem, n: ast.Name):
    """(generator, comprehension) that binds the Load-name `n` lexically, or None."""
    x: ast.AST = n
    while x in S.pm:
        par = S.pm[x]
        if isinstance(par, (ast.ListComp, ast.GeneratorExp, ast.SetComp, ast.DictComp)):
            for gi, g in enumerate(par.generators):
                if any(isinstance(t, ast.Name) and t.id == n.id for t in ast.walk(g.target)):
                    # n must lie in the element / a filter / a later generator, not in this generator's own iterable
                    inside_iter = any(y is n for y in ast.walk(g.iter))
                    if not inside_iter:
                        return g, par
        if par is S.node:
            break
        x = par
    return None


def deref(S: Sem, e: ast.AST, depth: int = 10, at: Optional[int] = None) -> ast.AST:
    """Copy of the (original, un-copied) expression `e` in which every local with a single plain definition and every
    comprehension-bound name is replaced by what it stands for: `x` bound by `for x in L` with `L = [f(y) for y in M]`
    becomes f(M[IT]); `for a, b in zip(A, B)` binds a ↦ element of A, b ↦ element of B.  Names modified in place, with several
    reaching definitions, or parameters stay as they are.  `IT` is one abstract position shared by all iterables (sound for the
    element-wise pipelines it is used on, where every stage keeps positions aligned)."""
    IT = ast.Name(id="IT", ctx=ast.Load())

    def elem_of(it: ast.AST, d: int, at_: Optional[int]) -> ast.AST:
        if isinstance(it, ast.Name):
            cb = comp_binding(S, it) if it in S.pm else None
            if cb is None:
                try:
                    a_ = at_ if at_ is not None else S.du.node_of_expr(it)
                    ds = S.du.reaching(it.id, a_)
                except Exception:
                    ds = []
                if len(ds) == 1 and ds[0].kind == "assign" and ds[0].value is not None and it.id not in S._mutated:
                    v = ds[0].value
                    if isinstance(v, (ast.ListComp, ast.GeneratorExp)) and len(v.generators) == 1 and not v.generators[0].ifs and d > 0:
                        return go(v.elt, d - 1, ds[0].node)
                    if isinstance(v, ast.Call) and call_name(v) in ("list", "tuple", "np.array", "np.asarray") and len(v.args) == 1 and d > 0:
                        return elem_of(v.args[0], d - 1, ds[0].node)
        if isinstance(it, (ast.ListComp, ast.GeneratorExp)) and len(it.generators) == 1 and not it.generators[0].ifs and d > 0:
            return go(it.elt, d - 1, at_)
        return ast.Subscript(value=go(it, d - 1, at_), slice=IT, ctx=ast.Load())

    def go(x: ast.AST, d: int, at_: Optional[int]) -> ast.AST:
        if isinstance(x, ast.Name) and isinstance(x.ctx, ast.Load) and d > 0:
            cb = comp_binding(S, x) if x in S.pm else None
            if cb is not None:
                g, _comp = cb
                tgt, it = g.target, g.iter
                if isinstance(tgt, ast.Name):
                    return elem_of(it, d, at_)
                if isinstance(tgt, (ast.Tuple, ast.List)) and isinstance(it, ast.Call) and call_name(it) == "zip" and len(it.args) == len(tgt.elts):
                    for t, a in zip(tgt.elts, it.args):
                        if isinstance(t, ast.Name) and t.id == x.id:
                            return elem_of(a, d, at_)
                return x
            try:
                a_ = at_ if at_ is not None else S.du.node_of_expr(x)
                ds = S.du.reaching(x.id, a_)
            except Exception:
                return x
            if len(ds) == 1 and ds[0].kind == "assign" and ds[0].value is not None and x.id not in S._mutated and x.id not in S.keep_names:
                return go(ds[0].value, d - 1, ds[0].node)
            return x
        if isinstance(x, ast.AST):
            new = copy.copy(x)
            for fname, v in ast.iter_fields(x):
                if isinstance(v, ast.AST) and not isinstance(v, (ast.expr_context, ast.operator, ast.unaryop, ast.cmpop, ast.boolop)):
                    setattr(new, fname, go(v, d, at_))
                elif isinstance(v, list):
                    setattr(new, fname, [go(y, d, at_) if isinstance(y, ast.AST) and not isinstance(y, ast.cmpop) else y for y in v])
            return new
        return x

    return go(e, depth, at)


def seq_segments(S: Sem, e: ast.AST, at: int, depth: int = 8) -> Optional[List[Tuple[str, ast.AST, int]]]:
    """Concatenation normal form of a list-valued expression (original nodes): [('el', x, at) | ('seq', xs, at)] in order.
    Understands list/tuple displays (with *starred parts), `+`, list()/tuple()/np.array(), np.concatenate/np.hstack/np.r_,
    and a local list built by `b = [...]` followed by unconditional `b.append(x)` / `b.extend(xs)` / `b.insert(0, x)` /
    `b += xs` statements.  None when the construction is not understood (conditional or loop-carried mutation)."""
    if depth <= 0:
        return None
    if isinstance(e, (ast.List, ast.Tuple)):
        out: List[Tuple[str, ast.AST, int]] = []
        for x in e.elts:
            if isinstance(x, ast.Starred):
                sub = seq_segments(S, x.value, at, depth - 1)
                if sub is None:
                    return None
                out += sub
            else:
                out.append(("el", x, at))
        return out
    if isinstance(e, ast.BinOp) and isinstance(e.op, ast.Add):
        # `seq + 1` is arithmetic on an array, not a concatenation
        if isinstance(e.right, ast.Constant) or isinstance(e.left, ast.Constant):
            return [("seq", e, at)]
        l, r = seq_segments(S, e.left, at, depth - 1), seq_segments(S, e.right, at, depth - 1)
        if l is None or r is None:
            return None
        return l + r
    if isinstance(e, ast.Call):
        cn = call_name(e)
        if cn in ("list", "tuple", "np.array", "np.asarray", "numpy.array", "numpy.asarray") and len(e.args) >= 1:
            return seq_segments(S, e.args[0], at, depth - 1)
        if cn in ("np.concatenate", "np.hstack", "numpy.concatenate", "numpy.hstack") and e.args and isinstance(e.args[0], (ast.Tuple, ast.List)):
            out = []
            for x in e.args[0].elts:
                sub = seq_segments(S, x, at, depth - 1)
                if sub is None:
                    return None
                out += sub
            return out
        return [("seq", e, at)]
    if isinstance(e, ast.Subscript) and norm(e.value) in ("np.r_", "numpy.r_") and isinstance(e.slice, ast.Tuple):
        out = []
        for x in e.slice.elts:
            scalar = isinstance(x, ast.Constant) or (isinstance(x, ast.Call) and call_name(x) == "len") or \
                (isinstance(x, ast.Attribute) and x.attr == "size") or (isinstance(x, ast.Subscript) and isinstance(x.value, ast.Attribute) and x.value.attr == "shape")
            out.append(("el" if scalar else "seq", x, at))
        return out
    if isinstance(e, ast.Name):
        ds = S.du.reaching(e.id, at)
        if len(ds) != 1 or ds[0].value is None:
            return [("seq", e, at)] if len(ds) != 1 else None
        d0 = ds[0]
        if d0.kind == "aug":
            st = d0.stmt
            if not (isinstance(st, ast.AugAssign) and isinstance(st.op, ast.Add)):
                return None
            before = seq_segments(S, ast.copy_location(ast.Name(id=e.id, ctx=ast.Load()), st), _pred_node(S, st), depth - 1)
            add = seq_segments(S, st.value, S.cfg.node(st), depth - 1)
            if before is None or add is None:
                return None
            return before + add
        if d0.kind != "assign":
            return [("seq", e, at)]
        base = seq_segments(S, d0.value, d0.node, depth - 1)
        if base is None:
            return None
        if e.id not in S._mutated:
            return base
        block = _block_of(S, d0.stmt)
        if block is None:
            return None
        muts = [c for c in ast.walk(S.node) if isinstance(c, ast.Call) and isinstance(c.func, ast.Attribute) and isinstance(c.func.value, ast.Name)
                and c.func.value.id == e.id and c.func.attr in ("append", "extend", "insert", "sort", "pop", "remove", "clear", "reverse")]
        segs = list(base)
        i0 = block.index(d0.stmt)
        top = {id(st.value): st for st in block[i0 + 1:] if isinstance(st, ast.Expr)}
        use_line = S.cfg.g.nodes[at]["stmt"].lineno if S.cfg.g.nodes[at].get("stmt") is not None else 10 ** 9
        for c in sorted(muts, key=lambda c: (c.lineno, c.col_offset)):
            if c.lineno < d0.stmt.lineno or c.lineno > use_line:
                continue
            if id(c) not in top:
                return None
            a_ = S.cfg.node(top[id(c)])
            if c.func.attr == "append" and len(c.args) == 1:
                segs.append(("el", c.args[0], a_))
            elif c.func.attr == "extend" and len(c.args) == 1:
                sub = seq_segments(S, c.args[0], a_, depth - 1)
                if sub is None:
                    return None
                segs += sub
            elif c.func.attr == "insert" and len(c.args) == 2 and isinstance(c.args[0], ast.Constant) and c.args[0].value == 0:
                segs.insert(0, ("el", c.args[1], a_))
            else:
                return None
        if any(isinstance(n, ast.Subscript) and isinstance(n.ctx, (ast.Store, ast.Del)) and isinstance(n.value, ast.Name) and n.value.id == e.id
               for n in ast.walk(S.node)):
            return None
        return segs
    return [("seq", e, at)]


def _block_of(S: Sem, st: ast.stmt) -> Optional[List[ast.stmt]]:
    par = S.pm.get(st, S.node) if st is not S.node else None
    if par is None:
        return None
    for fld in ("body", "orelse", "finalbody"):
        b = getattr(par, fld, None)
        if isinstance(b, list) and any(x is st for x in b):
            return b
    return None


def _pred_node(S: Sem, st: ast.stmt) -> int:
    """a CFG node from which the definitions reaching *before* `st` can be read: st's own node (reaching is computed on entry)"""
    return S.cfg.node(st)



class DictEntry:
    """One way a key/value pair gets into a dict: `key`/`value` are (resolved) expressions; `loops` = [(target, iter)] outer→inner
    (statement loops and comprehension generators); `conds` = filter tests; `node` = the statement/expression that adds it."""
    def __init__(self, key: ast.AST, value: ast.AST, loops, conds, node: ast.AST, const_key=None):
        self.key, self.value, self.loops, self.conds, self.node, self.const_key = key, value, loops, conds, node, const_key

    def __repr__(self) -> str:
        return f"<{norm(self.key)}: {norm(self.value)} loops={[(norm(t), norm(i)) for t, i in self.loops]} conds={[norm(c) for c in self.conds]}>"


def dict_entries(S: Sem, e: ast.AST, at: int, resolve: bool = True) -> Optional[List[DictEntry]]:
    """Every entry of a dict-valued expression / local: display or dict(...) keywords, a dict comprehension, subscript stores
    `d[k] = v` and `d.update(<display | dict(...) | comprehension>)` on a local.  None if the construction is not understood
    (e.g. `**other`, update with an opaque argument)."""
    def res(x: ast.AST, a: int) -> ast.AST:
        return S.resolve(x, a) if resolve else x

    def ctx_of(node: ast.AST):
        loops, conds = [], []
        x = node
        while x in S.pm and S.pm[x] is not S.node:
            par = S.pm[x]
            if isinstance(par, ast.For) and any(x is y for y in par.body):
                loops.insert(0, (par.target, par.iter))
            elif isinstance(par, ast.If):
                conds.append(par.test if any(x is y for y in par.body) else ast.UnaryOp(op=ast.Not(), operand=par.test))
            x = par
        return loops, conds

    def from_expr(v: ast.AST, a: int, loops, conds, node) -> Optional[List[DictEntry]]:
        if isinstance(v, ast.Dict):
            out = []
            for k, val in zip(v.keys, v.values):
                if k is None:
                    return None
                out.append(DictEntry(res(k, a), res(val, a), list(loops), list(conds), node,
                                     k.value if isinstance(k, ast.Constant) else None))
            return out
        if isinstance(v, ast.Call) and call_name(v) == "dict":
            if v.args:
                if len(v.args) == 1 and not v.keywords:
                    return from_expr(v.args[0], a, loops, conds, node)
                return None
            out = []
            for k in v.keywords:
                if k.arg is None:
                    return None
                out.append(DictEntry(ast.Constant(value=k.arg), res(k.value, a), list(loops), list(conds), node, k.arg))
            return out
        if isinstance(v, (ast.GeneratorExp, ast.ListComp)) and isinstance(v.elt, ast.Tuple) and len(v.elt.elts) == 2:
            # an iterable of (key, value) pairs, as accepted by dict(...) and dict.update(...)
            lp = list(loops) + [(g.target, g.iter) for g in v.generators]
            cd = list(conds) + [c for g in v.generators for c in g.ifs]
            bound = {n.id for g in v.generators for n in ast.walk(g.target) if isinstance(n, ast.Name)}
            saved = S.keep_names
            S.keep_names = saved | bound
            try:
                return [DictEntry(res(v.elt.elts[0], a), res(v.elt.elts[1], a), lp, cd, node)]
            finally:
                S.keep_names = saved
        if isinstance(v, ast.DictComp):
            lp = list(loops) + [(g.target, g.iter) for g in v.generators]
            cd = list(conds) + [c for g in v.generators for c in g.ifs]
            bound = {n.id for g in v.generators for n in ast.walk(g.target) if isinstance(n, ast.Name)}
            saved = S.keep_names
            S.keep_names = saved | bound
            try:
                return [DictEntry(res(v.key, a), res(v.value, a), lp, cd, node)]
            finally:
                S.keep_names = saved
        return None

    if isinstance(e, ast.Name):
        ds = S.du.reaching(e.id, at)
        ds = [d for d in ds if d.kind == "assign"]
        if len(ds) != 1 or ds[0].value is None:
            return None
        v = ds[0].value
        out = from_expr(v, ds[0].node, *ctx_of(ds[0].stmt), ds[0].stmt)
        if out is None:
            return None
        for st in ast.walk(S.node):
            if isinstance(st, ast.Assign) and len(st.targets) == 1 and isinstance(st.targets[0], ast.Subscript) and isinstance(st.targets[0].value, ast.Name) \
                    and st.targets[0].value.id == e.id:
                a = S.cfg.node(st)
                lp, cd = ctx_of(st)
                k = st.targets[0].slice
                out.append(DictEntry(res(k, a), res(st.value, a), lp, cd, st, k.value if isinstance(k, ast.Constant) else None))
            elif isinstance(st, ast.Expr) and isinstance(st.value, ast.Call) and isinstance(st.value.func, ast.Attribute) and st.value.func.attr == "update" \
                    and isinstance(st.value.func.value, ast.Name) and st.value.func.value.id == e.id:
                c = st.value
                a = S.cfg.node(st)
                lp, cd = ctx_of(st)
                if len(c.args) == 1 and not c.keywords:
                    sub = from_expr(c.args[0], a, lp, cd, st)
                elif not c.args:
                    sub = [DictEntry(ast.Constant(value=k.arg), res(k.value, a), lp, cd, st, k.arg) for k in c.keywords if k.arg]
                else:
                    sub = None
                if sub is None:
                    return None
                out += sub
        return out
    return from_expr(e, at, [], [], e)


def _ancestors(S: Sem, n: ast.AST) -> List[ast.AST]:
    out = []
    while n in S.pm and S.pm[n] is not S.node:
        n = S.pm[n]
        out.append(n)
    return out
