"""C17 — energy smoothing applies every axis smoother (composition and axis plumbing).

R17.1 dataSmooth is a chain acc ← smoothers[i](acc, axis=i) over all energy axes, starting from the raw data.
R17.2 AbstractSmoother.__call__: output permutation inverts the input permutation for every axis; the kernel window
      is aligned with the data window and normalised by its own sum.
R17.3 VoidSmoother is the identity and replaces missing smoothers; get_smoother falls back to it.
"""
from __future__ import annotations

import ast
import itertools
from typing import Dict, List, Optional

from ..algebra import Poly, Rat, to_rat
from ..index import AnalysisError, call_name, dotted, norm, norm1, names_in
from ..sem import Sem, inline_private_helpers
from .common import calls, enclosing, fctx, in_body, is_name, method_calls, pmatch, stmts

LEVEL = "other"
EXPLANATION = (
    "Loop-carried def-use analysis of EnergyResult.dataSmooth: the first argument of every smoother call must be the "
    "accumulator assigned by the previous call (or the initial copy of self.data), the same loop index selects smoother "
    "and axis, the loop covers all energy axes and the accumulator is what is returned. The two transpose tuples of "
    "AbstractSmoother.__call__ are constant-folded as integer tuples for every 0 ≤ axis < ndim ≤ 6 and composed; the "
    "kernel window bounds are compared as polynomials with the data window bounds. Decides composition/axis plumbing; "
    "does not decide numerical linearity.")

ER = "wannierberri/result/energyresult.py"
SM = "wannierberri/smoother.py"


def _range_covers_all(it: ast.AST, n_expr: str) -> bool:
    t = norm(it).replace(" ", "")
    n = n_expr.replace(" ", "")
    return t in (f"range({n})", f"range(0,{n})", f"range({n}-1,-1,-1)", f"reversed(range({n}))",
                 f"range(len(self.smoothers))", f"range(len(self.smoothers)-1,-1,-1)", f"range(len(self.Energies))")


def _fold_int_tuple(e: ast.AST, env: Dict[str, int]):
    """Constant-fold integer / tuple-of-integer expressions (shared evaluator in rules/axes.py)."""
    from .axes import fold_int_tuple
    return fold_int_tuple(e, env)


def _loop_smoother_var(lp: ast.For):
    """(name, order) if the loop binds a smoother element: for s in self.smoothers / enumerate(...) / reversed(...)."""
    it, tg = lp.iter, lp.target
    order = "fwd"
    if isinstance(it, ast.Call) and call_name(it) == "enumerate" and it.args:
        it = it.args[0]
        if isinstance(tg, ast.Tuple) and len(tg.elts) == 2:
            tg = tg.elts[1]
    if isinstance(it, ast.Call) and call_name(it) == "reversed" and it.args:
        it, order = it.args[0], "rev"
    if isinstance(it, ast.Subscript) and norm(it.slice) == "::-1":
        it, order = it.value, "rev"
    if norm(it) == "self.smoothers" and isinstance(tg, ast.Name):
        return tg.id, order
    return None


def _iterate(lp: ast.For, how, axis_expr: ast.AST, N: int):
    """(smoother index, axis) pairs produced by the loop for N energy axes."""
    it, tg = lp.iter, lp.target
    seq = None
    idxvar = None
    elem_order = None
    if isinstance(it, ast.Call) and call_name(it) == "enumerate" and it.args and isinstance(tg, ast.Tuple) and len(tg.elts) == 2:
        idxvar = tg.elts[0].id if isinstance(tg.elts[0], ast.Name) else None
        inner = it.args[0]
        sv = _loop_smoother_var(lp)
        if sv is None:
            raise AnalysisError(f"cannot enumerate `{norm1(it)}`")
        elem_order = sv[1]
        seq = list(range(N))
    elif isinstance(it, ast.Call) and call_name(it) in ("range",):
        seq = list(range(*[_eval_int_n(a, N, {}) for a in it.args]))
        idxvar = tg.id if isinstance(tg, ast.Name) else None
    elif isinstance(it, ast.Call) and call_name(it) == "reversed" and it.args and isinstance(it.args[0], ast.Call) \
            and call_name(it.args[0]) == "range":
        seq = list(reversed(range(*[_eval_int_n(a, N, {}) for a in it.args[0].args])))
        idxvar = tg.id if isinstance(tg, ast.Name) else None
    else:
        sv = _loop_smoother_var(lp)
        if sv is None:
            raise AnalysisError(f"loop `{norm1(it)}` not understood")
        elem_order = sv[1]
        seq = list(range(N))
    out = []
    for k, i in enumerate(seq):
        env = {idxvar: i} if idxvar else {}
        if how[0] == "index":
            si = _eval_int_n(how[1], N, env)
        else:
            si = k if (elem_order or how[1]) == "fwd" else N - 1 - k
        out.append((si, _eval_int_n(axis_expr, N, env)))
    return out


def _eval_int_n(e: ast.AST, N: int, env) -> int:
    if isinstance(e, ast.Constant) and isinstance(e.value, int):
        return e.value
    if isinstance(e, ast.Name) and e.id in env:
        return env[e.id]
    t = norm(e).replace(" ", "")
    if t in ("self.N_energies", "len(self.smoothers)", "len(self.Energies)"):
        return N
    if isinstance(e, ast.UnaryOp) and isinstance(e.op, ast.USub):
        return -_eval_int_n(e.operand, N, env)
    if isinstance(e, ast.BinOp) and isinstance(e.op, (ast.Add, ast.Sub)):
        a, b = _eval_int_n(e.left, N, env), _eval_int_n(e.right, N, env)
        return a + b if isinstance(e.op, ast.Add) else a - b
    raise AnalysisError(f"index expression outside the integer subset: {norm1(e)}")


def _apply_reorder(e: ast.AST, base: str, axes, env):
    """Axis order of expression e built from the array named `base` (shared evaluator in rules/axes.py)."""
    from .axes import apply_reorder
    return apply_reorder(e, base, tuple(axes), env)


def run(ctx) -> None:
    idx = ctx.index

    # ---------------------------------------------------------------- R17.1
    r1 = ctx.rule("R17.1", "dataSmooth chains every axis smoother through one accumulator")
    # dataSmooth is a cached property: a shallow copy of a result carries the smoothed data of its parent; a derived result that is made by
    # copying self and replacing .data must drop that cache entry
    ecls_ = idx.cls(ER, "EnergyResult")
    cached_ = [m_.name for m_ in ecls_.methods.values() if any(d_.endswith("cached_property") for d_ in m_.decorators)]
    for m_ in ecls_.methods.values():
        cps_ = [c_ for c_ in ast.walk(m_.node) if isinstance(c_, ast.Call) and call_name(c_) in ("copy.copy", "copy") and len(c_.args) == 1 and norm(c_.args[0]) == "self"]
        if not cps_:
            continue
        txt_ = norm(m_.node)
        stores_data_ = any(isinstance(st_, ast.Assign) and isinstance(st_.targets[0], ast.Attribute) and st_.targets[0].attr == "data" for st_ in ast.walk(m_.node))
        for cp_ in cached_:
            dropped_ = f"pop('{cp_}'" in txt_ or f"del " in txt_ and f".{cp_}" in txt_ or f"__dict__['{cp_}']" in txt_
            r1.check(dropped_ or not stores_data_, f"{m_.name}: the copied object's cached `{cp_}` is dropped", m_, cps_[0],
                     f"`{norm1(cps_[0])}` in EnergyResult.{m_.name} copies the object including an already evaluated cached `{cp_}` and then replaces `.data`: the derived "
                     f"result returns the parent's smoothed data whenever the parent's `{cp_}` had been read before", stmt=f"shallow copy keeps {cp_}")
    f = idx.function(ER, "EnergyResult.dataSmooth")
    cfg, du, pm = fctx(f)
    FS = Sem(idx, f)
    rets = [s for s in stmts(f.node) if isinstance(s, ast.Return)]
    if len(rets) != 1:
        raise AnalysisError("dataSmooth: expected one return")
    reduce_calls = calls(f.node, "reduce", "functools.reduce")
    loops = [s for s in stmts(f.node) if isinstance(s, ast.For)]
    sm_calls = []  # (call, loop, smoother-index expr or ('elem', k))
    for lp in loops:
        seqvar = _loop_smoother_var(lp)
        for c in ast.walk(lp):
            if not isinstance(c, ast.Call):
                continue
            fres = c.func
            if isinstance(fres, ast.Name) and not (seqvar is not None and fres.id == seqvar[0]):
                try:
                    fres = FS.resolve(fres, du.node_of_expr(c))
                except Exception:
                    fres = c.func
            if isinstance(fres, ast.Subscript) and norm(fres.value) == "self.smoothers":
                sm_calls.append((c, lp, ("index", fres.slice)))
            elif isinstance(c.func, ast.Name) and seqvar is not None and c.func.id == seqvar[0]:
                sm_calls.append((c, lp, ("elem", seqvar[1])))
    if not sm_calls and not reduce_calls:
        raise AnalysisError("dataSmooth: no smoother call (`self.smoothers[i](…)`, loop over self.smoothers, reduce) found")
    for c, loop, how in sm_calls:
        r1.instance(f"{f.short}: {norm1(c)}")
        st = enclosing(pm, c, ast.stmt)
        ax = [k.value for k in c.keywords if k.arg == "axis"] + list(c.args[1:2])
        # enumerate the (smoother index, axis) pairs the loop produces for N = 1..4 energy axes
        bad = None
        for N in range(1, 5):
            try:
                pairs = _iterate(loop, how, ax[0] if ax else ast.Constant(0), N)
            except AnalysisError as e:
                raise AnalysisError(f"dataSmooth: {e}")
            if sorted(a for _, a in pairs) != list(range(N)) or any(si != a for si, a in pairs):
                bad = (N, pairs)
                break
        r1.check(bad is None, "for N = 1..4 energy axes the loop applies smoother i along axis i, each axis once", f, st,
                 f"with {bad[0]} energy axes the loop applies (smoother, axis) = {bad[1]}: a smoother acts on an axis it was not "
                 f"built for, or an axis is skipped / smoothed twice" if bad else "")
        # accumulator chain
        arg = c.args[0] if c.args else None
        tgt = st.targets[0] if isinstance(st, ast.Assign) and len(st.targets) == 1 else None
        if not isinstance(tgt, ast.Name):
            raise AnalysisError("dataSmooth: smoother result is not assigned to a plain name")
        acc = tgt.id
        if isinstance(arg, ast.Name) and arg.id == acc:
            defs = du.reaching(acc, cfg.node(st))
            loop_nodes = cfg.in_loop_body(loop)
            init = [d for d in defs if d.node not in loop_nodes]
            carried = [d for d in defs if d.node in loop_nodes]
            okc = bool(carried) and all(d.stmt is st for d in carried)
            r1.check(okc, "the smoother input is the previous iteration's output (loop-carried)", f, st,
                     f"`{acc}` reaching the smoother call is redefined elsewhere in the loop")
            okinit = bool(init)
            for d in init:
                sl, _, _ = du.backward_slice(d.value, d.node) if d.value is not None else ([], None, None)
                if not any("self.data" in norm(e) and "self.dataSmooth" not in norm(e) for e in sl):
                    okinit = False
            r1.check(okinit, "the chain starts from self.data", f, init[0].stmt if init else st,
                     f"the accumulator `{acc}` does not start from self.data")
        else:
            r1.violation(f, st, f"the smoother is applied to `{norm1(arg)}` instead of the running result "
                         f"`{acc}`: each pass discards the smoothing of the axes processed before it, so only the last "
                         f"processed axis is smoothed")
        r1.check(is_name(rets[0].value, acc), "the accumulated array is returned", f, rets[0],
                 f"dataSmooth returns `{norm1(rets[0].value)}`, not the accumulator `{acc}`")
        r1.check(cfg.dominates(cfg.node(loop), cfg.node(rets[0])), "the loop precedes the return", f, rets[0],
                 "return is reachable without passing the smoothing loop")
    for c in reduce_calls:
        r1.instance(f"{f.short}: {norm1(c, 80)}")
        r1.idiom("functools.reduce over the axis indices")
        ok = len(c.args) == 3 and "self.data" in norm(c.args[2]) and isinstance(c.args[0], ast.Lambda)
        r1.check(ok, "reduce(lambda acc, i: smoothers[i](acc, axis=i), axes, self.data)", f, enclosing(pm, c, ast.stmt),
                 "reduce form does not thread the accumulator from self.data")

    # ---------------------------------------------------------------- R17.2
    r2 = ctx.rule("R17.2", "AbstractSmoother.__call__: axis permutations invert each other; kernel window aligned")
    g = inline_private_helpers(idx, idx.function(SM, "AbstractSmoother.__call__"))
    gcfg, gdu, gpm = fctx(g)
    GS = Sem(idx, g)
    axis_name = g.node.args.args[2].arg if len(g.node.args.args) > 2 else "axis"
    arr_name = g.node.args.args[1].arg
    # input re-ordering: the statement re-binding the input array; output re-ordering: the return expression
    inp = [s for s in stmts(g.node) if isinstance(s, ast.Assign) and is_name(s.targets[0], arr_name)]
    retg = [s for s in stmts(g.node) if isinstance(s, ast.Return)]
    if len(inp) != 1 or len(retg) != 1:
        raise AnalysisError("AbstractSmoother.__call__: expected one re-ordering of the input and one return")
    r2.instance(f"{g.short}: {norm1(inp[0], 70)} … {norm1(retg[0], 70)}")
    # the buffer that receives the convolution must be able to hold the values of the input (complex results are smoothed too)
    for st_ in stmts(g.node):
        if isinstance(st_, ast.Assign) and isinstance(st_.value, ast.Call) and call_name(st_.value) in ("np.zeros", "np.empty", "np.ones", "np.full") \
                and isinstance(st_.targets[0], ast.Name) and any(isinstance(x_, ast.Subscript) and isinstance(x_.value, ast.Name) and x_.value.id == st_.targets[0].id
                                                                 for y_ in stmts(g.node) if isinstance(y_, ast.Assign) for x_ in y_.targets):
            dt_ = next((k_.value for k_ in st_.value.keywords if k_.arg == "dtype"), None)
            dtt_ = norm(dt_) if dt_ is not None else "float (numpy default)"
            wide_ = dt_ is not None and (arr_name in names_in(dt_) or "complex" in dtt_)
            r2.check(wide_, "the accumulation buffer takes its dtype from the input (or is complex)", g, st_,
                     f"`{norm1(st_)}` accumulates the convolution in dtype {dtt_}: the imaginary part of complex data is discarded when the smoothed "
                     f"values are stored, so S(x + iy) ≠ S(x) + i·S(y)", stmt="smoother buffer dtype")
    bad = None
    n = 0
    for ndim in range(1, 7):
        for axis in range(ndim):
            env = {axis_name: axis, "__ndim__": ndim}
            ident = tuple(range(ndim))
            GS.keep_names = {arr_name, "res", axis_name}
            p = _apply_reorder(GS.resolve(inp[0].value, gcfg.node(inp[0])), arr_name, ident, env)       # axes of the working array in terms of input axes
            q = _apply_reorder(GS.resolve(retg[0].value, gcfg.node(retg[0])), "res", p, env)             # axes of the returned array in terms of input axes
            n += 1
            if p is None or q is None:
                raise AnalysisError("AbstractSmoother.__call__: axis re-ordering is not transpose/moveaxis/swapaxes")
            if p[0] != axis or q != ident:
                bad = (ndim, axis, p, q)
                break
        if bad:
            break
    r2.check(bad is None, f"the smoothed axis is moved to position 0 and the output restores the input axis order for {n} "
             f"(ndim, axis) pairs", g, retg[0],
             f"for ndim={bad[0]}, axis={bad[1]}: the working array has input axes {bad[2]} and the returned array has input axes "
             f"{bad[3]} instead of {tuple(range(bad[0]))}: smoothing returns the data with permuted axes (or smooths the wrong axis)"
             if bad else "")
    # kernel window
    td = calls(g.node, "np.tensordot", suffix=False)
    if len(td) != 1:
        raise AnalysisError("AbstractSmoother.__call__: expected one np.tensordot")
    r2.instance(f"{g.short}: {norm1(td[0], 80)}")
    st = enclosing(gpm, td[0], ast.stmt)
    GS.keep_names = {arr_name, "res", axis_name}
    at_td = gcfg.node(st)

    def as_slice_sub(e):
        """X[slice(a, b)] → X[a:b] (after resolving local names)"""
        r_ = GS.resolve(e, at_td)
        if isinstance(r_, ast.Subscript) and isinstance(r_.slice, ast.Call) and call_name(r_.slice) == "slice" and len(r_.slice.args) == 2:
            r_ = ast.Subscript(value=r_.value, slice=ast.Slice(lower=r_.slice.args[0], upper=r_.slice.args[1], step=None), ctx=ast.Load())
        return r_
    dsl, ksl = as_slice_sub(td[0].args[0]), as_slice_sub(td[0].args[1])
    div = gpm.get(td[0])
    okn = isinstance(div, ast.BinOp) and isinstance(div.op, ast.Div) and isinstance(div.right, ast.Call) and \
        isinstance(div.right.func, ast.Attribute) and div.right.func.attr == "sum" and \
        norm(as_slice_sub(div.right.func.value)) == norm(ksl)
    r2.check(okn, "the kernel slice in the numerator is the slice whose sum normalises it (constants preserved)", g, st,
             f"the convolution is not divided by the sum of the same kernel window `{norm1(ksl)}`: a constant array is not "
             f"mapped to itself near the ends of the energy range")
    axes = [k.value for k in td[0].keywords if k.arg == "axes"]
    r2.check(bool(axes) and norm(axes[0]).replace(" ", "") in ("(0,0)", "[0,0]", "((0,),(0,))", "([0],[0])"),
             "tensordot contracts the (moved) energy axis with the kernel", g, st,
             f"tensordot axes are `{norm1(axes[0]) if axes else None}`")
    # window alignment as polynomials
    if isinstance(dsl, ast.Subscript) and isinstance(dsl.slice, ast.Slice) and isinstance(ksl, ast.Subscript) \
            and isinstance(ksl.slice, ast.Slice):
        loop = enclosing(gpm, td[0], ast.For)
        iv = loop.target.id if loop is not None and isinstance(loop.target, ast.Name) else None
        opaque = {}

        def env(x):
            if isinstance(x, ast.Name):
                d = gdu.single_def(x.id, gcfg.node(st))
                if d is not None and d.kind == "assign" and d.value is not None and not (
                        isinstance(d.value, ast.Call) and call_name(d.value) in ("max", "min")) \
                        and loop is not None and in_body(loop.body, d.stmt):
                    return to_rat(d.value, env)
                return Rat.sym(x.id)
            if isinstance(x, ast.Attribute):
                return Rat.sym(dotted(x))
            if isinstance(x, ast.Call) and call_name(x) in ("max", "min"):
                return Rat.sym("OPAQUE_" + norm(x).replace(" ", ""))
            return None
        s0, e0 = to_rat(dsl.slice.lower, env), to_rat(dsl.slice.upper, env)
        s1, e1 = to_rat(ksl.slice.lower, env), to_rat(ksl.slice.upper, env)
        centre = Rat.sym("self.NE1") - Rat.sym(iv)
        r2.check(s1.equals(s0 + centre) and e1.equals(e0 + centre),
                 "kernel window = data window shifted by (NE1 − i): kernel centre sits on the output point", g, st,
                 f"kernel window [{s1} : {e1}] is not the data window [{s0} : {e0}] shifted by NE1 − {iv}: the "
                 f"convolution kernel is off-centre or of a different length than the data window")
    else:
        raise AnalysisError("AbstractSmoother.__call__: data/kernel windows are not plain slices")
    out = [s for s in stmts(g.node) if isinstance(s, ast.Assign) and isinstance(s.targets[0], ast.Subscript)
           and norm(s.targets[0].value) == "res"]
    r2.check(len(out) == 1 and iv is not None and is_name(out[0].targets[0].slice, iv) and
             norm(loop.iter).replace(" ", "") == "range(self.NE)", "every output point i in range(NE) is written once",
             g, out[0] if out else g.node, "not every output energy point is written")

    # ---------------------------------------------------------------- R17.3
    r3 = ctx.rule("R17.3", "VoidSmoother is the identity and stands in for missing smoothers", min_instances=3)
    v = idx.function(SM, "VoidSmoother.__call__")
    r3.instance(v.short)
    a0 = v.node.args.args[1].arg
    vr = [s for s in stmts(v.node) if isinstance(s, ast.Return)]
    r3.check(len(vr) == 1 and is_name(vr[0].value, a0), "VoidSmoother.__call__ returns its argument", v,
             vr[0] if vr else v.node, "VoidSmoother.__call__ does not return its input unchanged")
    ss = idx.function(ER, "EnergyResult.set_smoother")
    r3.instance(ss.short)
    SSm = Sem(idx, ss)
    asg = [s_ for s_ in stmts(ss.node) if isinstance(s_, ast.Assign) and norm(s_.targets[0]) == "self.smoothers"]
    okvoid = False
    if len(asg) == 1:
        v_ = asg[0].value
        at_ = SSm.cfg.node(asg[0])
        comp = v_ if isinstance(v_, (ast.ListComp, ast.GeneratorExp)) else None
        if comp is None and isinstance(v_, ast.Name):
            dd = SSm.du.single_def(v_.id, at_)
            if dd is not None and isinstance(dd.value, (ast.ListComp, ast.GeneratorExp)):
                comp = dd.value
        if comp is not None and len(comp.generators) == 1 and isinstance(comp.generators[0].target, ast.Name):
            x_ = comp.generators[0].target.id
            okvoid = bool(pmatch(comp.elt, f"VoidSmoother() if {x_} is None else {x_}") or pmatch(comp.elt, f"{x_} if {x_} is not None else VoidSmoother()")) \
                and not comp.generators[0].ifs
        elif isinstance(v_, ast.Name):
            apps = [c_ for c_ in method_calls(ss.node, "append") if norm(c_.func.value) == v_.id and len(c_.args) == 1 and isinstance(c_.args[0], ast.Name)]
            if len(apps) == 1:
                lp_ = enclosing(SSm.pm, apps[0], ast.For)
                x_ = apps[0].args[0].id
                defs_ = SSm.du.reaching(x_, SSm.du.node_of_expr(apps[0]))
                kinds = sorted(d_.kind for d_ in defs_)
                vd = [d_ for d_ in defs_ if d_.kind == "assign"]
                okvoid = lp_ is not None and isinstance(lp_.target, ast.Name) and lp_.target.id == x_ and kinds == ["assign", "for"] and norm(vd[0].value) == "VoidSmoother()" and \
                    any(t_ == f"{x_} is None" and p_ for t_, p_, _ in SSm.conditions(vd[0].stmt, resolve=False)) and \
                    not [1 for t_, p_, _ in SSm.conditions(enclosing(SSm.pm, apps[0], ast.stmt), resolve=False) if enclosing(SSm.pm, apps[0], ast.If) is not None]
    r3.check(okvoid, "None → VoidSmoother() per axis, every given smoother kept", ss,
             asg[0] if asg else ss.node.body[-1], "missing smoothers are not replaced by VoidSmoother (or given smoothers are dropped)")
    gs = idx.function(SM, "get_smoother")
    r3.instance(gs.short)
    GSm = Sem(idx, gs)
    rts = [s_ for s_ in stmts(gs.node) if isinstance(s_, ast.Return)]
    atoms = set()
    for s_ in rts:
        if norm(s_.value) != "VoidSmoother()":
            continue
        for t_, p_, _ in GSm.conditions(s_, resolve=True):
            if not p_:
                continue
            e_ = ast.parse(t_, mode="eval").body
            work = [e_]
            while work:
                x = work.pop()
                if isinstance(x, ast.BoolOp) and isinstance(x.op, ast.Or):
                    work += list(x.values)
                else:
                    atoms.add(norm(x))
    ep, sp = gs.params[0], gs.params[1]
    need = {f"{ep} is None", f"{sp} is None", f"{sp} <= 0", f"len({ep}) <= 1"}
    void_guards = sorted(atoms)
    r3.check(need <= atoms, f"get_smoother falls back to VoidSmoother for {void_guards}", gs, gs.node.body[-1],
             f"get_smoother only returns VoidSmoother under {void_guards} (expected {sorted(need)})")
    cls = idx.cls(SM, "AbstractSmoother")
    subs = [c for c in idx.subclasses(cls, strict=True)]
    for c in subs:
        if c.name == "VoidSmoother":
            continue
        r3.instance(c.fq)
        own_call = "__call__" in c.methods
        r3.check(not own_call and "_broaden" in c.methods, f"{c.name} uses the shared convolution with its own kernel",
                 f"{c.module.relpath}:{c.name}", c.node, f"{c.name} overrides __call__ or lacks _broaden",
                 stmt=f"class {c.name}")


from ..selftest import V  # noqa: E402

SELFTEST = [
    V("smoothing buffer fixed to float (seeded C17-m5)", SM, "res = np.zeros(A.shape, dtype=A.dtype)", "res = np.zeros(A.shape, dtype=float)", "fire", "R17.2"),
    V("smoothing buffer from np.result_type of the input", SM, "res = np.zeros(A.shape, dtype=A.dtype)", "res = np.zeros(A.shape, dtype=np.result_type(A, float))", "silent", "R17.2"),
    V("every pass smooths the raw data (original defect)", ER, "data_tmp = self.smoothers[i](data_tmp, axis=i)",
      "data_tmp = self.smoothers[i](self.data, axis=i)", "fire", "R17.1"),
    V("axis hard-wired to 0", ER, "data_tmp = self.smoothers[i](data_tmp, axis=i)",
      "data_tmp = self.smoothers[i](data_tmp, axis=0)", "fire", "R17.1"),
    V("last axis skipped", ER, "for i in range(self.N_energies - 1, -1, -1):", "for i in range(self.N_energies - 2, -1, -1):",
      "fire", "R17.1"),
    V("raw data returned", ER, "            data_tmp = self.smoothers[i](data_tmp, axis=i)\n        return data_tmp",
      "            data_tmp = self.smoothers[i](data_tmp, axis=i)\n        return self.data", "fire", "R17.1"),
    V("output permutation off by one", SM, "return res.transpose(tuple(range(1, axis + 1)) + (0,) + tuple(range(axis + 1, A.ndim)))",
      "return res.transpose(tuple(range(1, axis)) + (0,) + tuple(range(axis, A.ndim)))", "fire", "R17.2"),
    V("input permutation moves the wrong axis", SM,
      "A = A.transpose((axis,) + tuple(range(0, axis)) + tuple(range(axis + 1, A.ndim)))",
      "A = A.transpose((0,) + tuple(range(1, A.ndim)))", "fire", "R17.2"),
    V("kernel normalised by the full kernel", SM, "/ self.smt[start1:end1].sum()", "/ self.smt.sum()", "fire", "R17.2"),
    V("kernel window off-centre", SM, "start1 = self.NE1 - (i - start)", "start1 = self.NE1 - (i - start) + 1", "fire", "R17.2"),
    V("void smoother scales its input", SM, "    def __call__(self, A, axis=0):\n        return A\n",
      "    def __call__(self, A, axis=0):\n        return A * 1.0000001\n", "fire", "R17.3"),
    V("smoothers reversed but axes ascending (seeded C17-m1)", ER,
      "        for i in range(self.N_energies - 1, -1, -1):\n            data_tmp = self.smoothers[i](data_tmp, axis=i)",
      "        for i, smoother in enumerate(reversed(self.smoothers)):\n            data_tmp = smoother(data_tmp, axis=i)", "fire", "R17.1"),
    V("moveaxis in, swapaxes out (seeded C17-m2)", SM, "return res.transpose(tuple(range(1, axis + 1)) + (0,) + tuple(range(axis + 1, A.ndim)))",
      "return np.swapaxes(res, 0, axis)", "fire", "R17.2"),
    V("neutral: enumerate over the smoothers", ER,
      "        for i in range(self.N_energies - 1, -1, -1):\n            data_tmp = self.smoothers[i](data_tmp, axis=i)",
      "        for i, smoother in enumerate(self.smoothers):\n            data_tmp = smoother(data_tmp, axis=i)", "silent"),
    V("neutral: moveaxis in and out", SM, "return res.transpose(tuple(range(1, axis + 1)) + (0,) + tuple(range(axis + 1, A.ndim)))",
      "return np.moveaxis(res, 0, axis)", "silent"),
    V("neutral: ascending loop order", ER, "for i in range(self.N_energies - 1, -1, -1):", "for i in range(self.N_energies):",
      "silent"),
    V("neutral: renamed accumulator", ER,
      "        data_tmp = self.data.copy()\n        for i in range(self.N_energies - 1, -1, -1):\n            data_tmp = self.smoothers[i](data_tmp, axis=i)\n        return data_tmp",
      "        acc = np.array(self.data)\n        for i in range(self.N_energies - 1, -1, -1):\n            acc = self.smoothers[i](acc, axis=i)\n        return acc",
      "silent"),
    V("neutral: equivalent output permutation spelling", SM,
      "return res.transpose(tuple(range(1, axis + 1)) + (0,) + tuple(range(axis + 1, A.ndim)))",
      "return res.transpose(tuple(range(1, 1 + axis)) + (0,) + tuple(range(1 + axis, A.ndim)))", "silent"),
    V("neutral: algebraically equal kernel bounds", SM, "start1 = self.NE1 - (i - start)", "start1 = self.NE1 + start - i",
      "silent"),
]
