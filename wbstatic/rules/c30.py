"""C30 — grid tabulation covers every grid point once, in C order, with its own values (structural clauses).

R30.1 linearisation agreement: the slot index computed in TABresult.to_grid, the meshgrid/reshape that builds the new
      k-points, the reshape in get_data and the flatten in fermiSurfer all denote C order.
R30.2 slot map: one list per grid slot; every on-grid k-point is appended to the slot of its own index; K__Result.to_grid
      averages each slot over its own members.
R30.3 component extraction: x,y,z ↦ 0,1,2; trace sums the (i,i,…) diagonal; tuple components index trailing axes in order.
"""
from __future__ import annotations

import ast
from typing import Dict, List, Optional

from ..algebra import Rat, to_rat
from ..index import AnalysisError, call_name, norm, norm1
from .common import Frag, calls, const_of, enclosing, fctx, in_body, is_name, kwarg, method_calls, pmatch, stmts

LEVEL = "other"
EXPLANATION = (
    "The index arithmetic of TABresult.to_grid is normalised as an exact polynomial and compared with the C-order "
    "linearisation k0·g1·g2 + k1·g2 + k2; the same order must be used by the meshgrid(indexing='ij')/reshape(order) that builds "
    "the grid k-points, by self_to_grid (order='C'), by the default-order reshape in get_data and by flatten(order='C') in "
    "fermiSurfer. The slot map and the per-slot average are structural rules; the component table of get_component is folded "
    "from its literal. Not decided: equality with single-point evaluation.")

TAB = "wannierberri/result/tabresult.py"
KB = "wannierberri/result/kbandresult.py"
TC = "wannierberri/calculators/tabulate.py"


def _order_is_C(call: ast.Call, pos: Optional[int] = None):
    """`order` argument of a numpy reshape/flatten call: True if it denotes C order (absent = numpy default 'C')."""
    v = const_of(kwarg(call, "order", pos), "C")
    return v in ("C", "c"), v


def run(ctx) -> None:
    idx = ctx.index

    # ---------------------------------------------------------------- R30.1
    r1 = ctx.rule("R30.1", "one linearisation (C order) across to_grid / get_data / fermiSurfer", min_instances=4)
    tg = idx.function(TAB, "TABresult.to_grid")
    cfg, du, pm = fctx(tg)
    F = Frag(tg)
    gridp, orderp = (tg.params + [None, None, None])[1:3]
    r1.expect(gridp is not None and orderp is not None, "to_grid(self, grid, order)", tg, tg.node, "to_grid no longer has the parameters (grid, order)")
    # locate the slot store  k_map[ind_grid[ik]].append(ik)  → names of the slot list and the index array
    app0 = pmatch(tg.node, "KM[IDX].append(IK)", {"KM", "IDX", "IK"})
    if len(app0) != 1:
        r1.expect(False, "slot store located", tg, tg.node, "to_grid: the store `slots[…].append(ik)` was not found (exactly once)")
        return
    app = F.find("k_map[ind_grid[ik]].append(ik)")
    if len(app) != 1:
        r1.violation(tg, app0[0][0], f"`{norm1(app0[0][0])}`: k-point {app0[0][1]['IK']} is appended to slot `{app0[0][1]['IDX']}`, which is not the slot "
                     f"index computed for that same k-point (index[{app0[0][1]['IK']}])")
        return
    ind_name = app[0][1]["ind_grid"]
    d = du.single_def(ind_name, du.node_of_expr(app[0][0])) if ind_name.isidentifier() else None
    if d is None or d.kind != "assign":
        r1.expect(False, "slot index has one definition", tg, app[0][0], f"to_grid: `{ind_name}` does not have a single plain definition")
        return
    r1.instance(f"{tg.short}: {norm1(d.stmt, 100)}")
    kint_names = set()

    def env(x):
        if isinstance(x, ast.Subscript):
            sl = x.slice
            if isinstance(x.value, ast.Name) and isinstance(sl, ast.Tuple) and len(sl.elts) == 2 and isinstance(sl.elts[0], ast.Slice) \
                    and isinstance(sl.elts[1], ast.Constant) and sl.elts[1].value in (0, 1, 2) and x.value.id != gridp:
                kint_names.add(x.value.id)
                return Rat.sym(f"k{sl.elts[1].value}")
            if isinstance(x.value, ast.Name) and x.value.id == gridp and isinstance(sl, ast.Constant) and sl.value in (0, 1, 2):
                return Rat.sym(f"g{sl.value}")
        if isinstance(x, ast.Name):
            dd = du.single_def(x.id, d.node)
            if dd is not None and dd.kind == "assign" and not any(isinstance(n, ast.Call) for n in ast.walk(dd.value)):
                return to_rat(dd.value, env)
        return None
    got = to_rat(d.value, env)
    want = Rat.sym("k0") * Rat.sym("g1") * Rat.sym("g2") + Rat.sym("k1") * Rat.sym("g2") + Rat.sym("k2")
    r1.check(got.equals(want) and len(kint_names) == 1, "slot index = k0·g1·g2 + k1·g2 + k2 (C order)", tg, d.stmt,
             f"the slot index `{norm1(d.value)}` is not the C-order linearisation k0·g1·g2 + k1·g2 + k2: values are attached to other "
             f"grid points than the k-points stored next to them")
    kint = next(iter(kint_names)) if len(kint_names) == 1 else None
    if kint is not None:
        # integer coordinates: rint(k·grid) folded into [0, g) before they are linearised
        defs = [x for x in du.reaching(kint, d.node)]
        fold = [x for x in defs if x.value is not None and (pmatch(x.value, f"KI % {gridp}[None, :]", {"KI"}) or pmatch(x.value, f"KI % {gridp}", {"KI"})
                                                           or pmatch(x.value, f"np.mod(KI, {gridp}[None, :])", {"KI"}))
                and any(pmatch(x.value, pt, {"KI"})[0][0] is x.value for pt in (f"KI % {gridp}[None, :]", f"KI % {gridp}", f"np.mod(KI, {gridp}[None, :])")
                        if pmatch(x.value, pt, {"KI"}))]
        r1.check(len(defs) == 1 and len(fold) == 1, "integer grid coordinates are folded into [0, g) before linearisation", tg, d.stmt,
                 f"`{kint}` is not reduced modulo the grid before the slot index is computed: k-points given outside [0,1) index other slots "
                 f"(or past the end)")
        sl, _, _ = du.backward_slice(ast.Name(id=kint, ctx=ast.Load()), d.node)
        r1.check(any(pmatch(e, f"np.rint(self.kpoints * {gridp}[None, :]).astype(int)") or pmatch(e, f"np.rint(self.kpoints * {gridp}).astype(int)") for e in sl),
                 "integer coordinates = rint(k · grid)", tg, d.stmt, "the integer grid coordinates are no longer rint(self.kpoints · grid)")
    # the new k-points
    mg = [c for c in calls(tg.node, "meshgrid")]
    if len(mg) != 1:
        r1.expect(False, "meshgrid located", tg, tg.node, "to_grid: the np.meshgrid call that builds the grid k-points was not found")
    else:
        m = mg[0]
        ax = [norm(a_) for a_ in m.args]
        gl = {a_.value.id for a_ in m.args if isinstance(a_, ast.Subscript) and isinstance(a_.value, ast.Name)}
        ax_ok = len(m.args) == 3 and len(gl) == 1 and ax == [f"{next(iter(gl))}[{i}]" for i in range(3)]
        r1.check(ax_ok and const_of(kwarg(m, "indexing"), "xy") == "ij", "grid k-points: meshgrid of axes 0,1,2 with indexing='ij'", tg, m,
                 f"`{norm1(m)}`: the grid k-points are not generated as meshgrid(axis0, axis1, axis2, indexing='ij') (numpy's default 'xy' swaps "
                 f"the first two axes): k-points and values are paired differently")
        rs = pm.get(pm.get(pm.get(m)))   # np.array(meshgrid).reshape
        outer = [c for c in method_calls(tg.node, "reshape") if any(n is m for n in ast.walk(c.func))]
        if len(outer) != 1:
            r1.expect(False, "reshape of the meshgrid located", tg, m, "to_grid: reshape of the meshgrid not found")
        else:
            rc = outer[0]
            ov = kwarg(rc, "order")
            tr = pm.get(rc)
            r1.check(isinstance(ov, ast.Name) and ov.id == orderp and const_of(rc.args[0] if rc.args else None) == (3, -1)
                     and isinstance(tr, ast.Attribute) and tr.attr == "T",
                     "grid k-points flattened as (3, -1) with the requested order, one row per k-point", tg, rc,
                     f"`{norm1(rc, 90)}`: the grid k-points are not flattened with reshape((3, -1), order=<requested order>).T")
        if gl:
            gd_ = du.single_def(next(iter(gl)), du.node_of_expr(m))
            r1.check(gd_ is not None and bool(pmatch(gd_.value, f"[np.linspace(0.0, 1.0, G_, False) for G_ in {gridp}]", {"G_"})
                                               or pmatch(gd_.value, f"[np.linspace(0.0, 1.0, G_, endpoint=False) for G_ in {gridp}]", {"G_"})
                                               or pmatch(gd_.value, f"[np.arange(G_) / G_ for G_ in {gridp}]", {"G_"})),
                     "axis i holds the points j/g_i, j = 0..g_i−1", tg, gd_.stmt if gd_ else m,
                     "the grid axes are no longer the g_i equidistant points j/g_i of [0, 1)")
    sg = idx.function(TAB, "TABresult.self_to_grid")
    r1.instance(sg.short)
    tc = [c for c in method_calls(sg.node, "to_grid") if norm(c.func.value) == "self"]
    if len(tc) != 1:
        r1.expect(False, "self.to_grid call located", sg, sg.node, "self_to_grid no longer calls self.to_grid once")
    else:
        default = None
        pa = tg.node.args
        if orderp in [x.arg for x in pa.args]:
            i_ = [x.arg for x in pa.args].index(orderp) - (len(pa.args) - len(pa.defaults))
            default = const_of(pa.defaults[i_]) if i_ >= 0 else None
        ov = const_of(kwarg(tc[0], orderp, 1), default)
        r1.check(ov == "C", "self_to_grid requests C order", sg, tc[0],
                 f"self_to_grid requests order={ov!r}: the slot index is the C-order linearisation, so the k-points are not those of the values")
    gd = idx.function(TAB, "TABresult.__get_data_grid")
    r1.instance(gd.short)
    rsh = method_calls(gd.node, "reshape")
    r1.expect(len(rsh) >= 2, "get_data reshapes located", gd, gd.node, "__get_data_grid: reshape calls not found")
    gcfg, gdu, gpm = fctx(gd)
    for rc in rsh:
        okc, v = _order_is_C(rc, 1)
        r1.check(okc, "get_data reshapes the slot axis in C order", gd, rc,
                 f"`{norm1(rc, 80)}` reshapes the slot axis with order={v!r} although the slots were filled in C order")
        a0 = rc.args[0] if rc.args else None
        first = a0.left if isinstance(a0, ast.BinOp) and isinstance(a0.op, ast.Add) else a0
        shp_defs = gdu.reaching(first.id, gdu.node_of_expr(rc)) if isinstance(first, ast.Name) else []
        okshape = bool(shp_defs) and all(x.value is not None and (norm(x.value) == "tuple(self.grid)" or norm(x.value).startswith("tuple(self.grid) + "))
                                         for x in shp_defs)
        r1.check(okshape, "… to the grid shape (g0, g1, g2[, bands, components])", gd, rc,
                 f"`{norm1(rc, 80)}`: the leading axes of the reshaped data are not tuple(self.grid)")
    fs = idx.function(TAB, "fermiSurfer")
    r1.instance(fs.short)
    fl = [c for c in ast.walk(fs.node) if isinstance(c, ast.Call) and isinstance(c.func, ast.Attribute) and c.func.attr in ("flatten", "ravel", "reshape")
          and isinstance(c.func.value, ast.Subscript)]
    r1.expect(len(fl) >= 2, "FermiSurfer flatten calls located", fs, fs.node, "fermiSurfer: the flatten calls on the grid arrays were not found")
    for c in fl:
        okc, v = _order_is_C(c, 0 if c.func.attr != "reshape" else 1)
        r1.check(okc, "FermiSurfer output is flattened in C order", fs, c, f"`{norm1(c, 80)}` flattens the grid with order={v!r}; the FermiSurfer format and "
                 f"the grid built by to_grid are C-ordered")
    tf = idx.function(TAB, "TABresult.fermiSurfer")
    guard = [s_ for s_ in stmts(tf.node) if isinstance(s_, ast.If) and "gridorder" in norm(s_.test)]
    r1.check(len(guard) == 1 and norm(guard[0].test) in ("self.gridorder != 'C'", "'C' != self.gridorder", "not self.gridorder == 'C'")
             and isinstance(guard[0].body[-1], ast.Raise), "FermiSurfer export refuses non-C grids", tf, guard[0] if guard else tf.node,
             "the `gridorder != 'C'` guard of TABresult.fermiSurfer no longer raises", stmt="gridorder guard")

    # ---------------------------------------------------------------- R30.2
    r2 = ctx.rule("R30.2", "slot map and per-slot averaging", min_instances=2)
    kmap = app[0][1]["k_map"]
    r2.instance(f"{tg.short}: {kmap}")
    kd = du.single_def(kmap, du.node_of_expr(app[0][0])) if kmap.isidentifier() else None
    fresh = kd is not None and kd.value is not None and (
        pmatch(kd.value, f"[[] for I in range(np.prod({gridp}))]", {"I"}) or pmatch(kd.value, f"[list() for I in range(np.prod({gridp}))]", {"I"})
        or pmatch(kd.value, f"[[] for I in range(int(np.prod({gridp})))]", {"I"}))
    r2.check(bool(fresh), "one (independent) list per grid slot", tg, kd.stmt if kd else tg.node,
             f"`{norm1(kd.stmt) if kd else kmap}`: the slot map is not one fresh list per grid slot (e.g. `[[]] * n` shares one list between all slots)")
    appn = app[0][0]
    g = enclosing(pm, appn, ast.If)
    lp = enclosing(pm, appn, ast.For)
    ikv = app[0][1]["ik"]
    on = None
    if g is not None and isinstance(g.test, ast.Subscript) and norm(g.test.slice) == ikv and isinstance(g.test.value, ast.Name) and in_body(g.body, appn):
        on = gdef = du.single_def(g.test.value.id, cfg.node(g))
    r2.check(on is not None and on.value is not None and "< 1e-" in norm(on.value) and "self.kpoints" in norm(on.value),
             "k-point ik goes to the slot of its own index, only if it lies on the grid", tg, appn,
             "a k-point is appended without the on-grid test of that same k-point: off-grid points are averaged into grid slots")
    r2.check(lp is not None and isinstance(lp.target, ast.Name) and lp.target.id == ikv
             and norm(lp.iter).replace(" ", "") in ("range(len(self.kpoints))", "range(self.kpoints.shape[0])"),
             "every stored k-point is considered", tg, lp or tg.node, "not every stored k-point is mapped to the grid")
    res = F.find(f"{{r: self.results[r].to_grid({kmap}) for r in self.results}}") or F.find(f"{{r: v.to_grid({kmap}) for r, v in self.results.items()}}")
    r2.check(bool(res), "every quantity is gathered with the same slot map", tg, tg.node,
             "not every tabulated quantity is gathered with the slot map", stmt="results to_grid")
    kg = idx.function(KB, "K__Result.to_grid")
    r2.instance(kg.short)
    km = kg.params[1] if len(kg.params) > 1 else "k_map"
    K = Frag(kg)
    mean = K.find(f"[sum(dataall[ik] for ik in km) / len(km) for km in {km}]") or K.find(f"[sum([dataall[ik] for ik in km]) / len(km) for km in {km}]") \
        or K.find(f"[np.mean([dataall[ik] for ik in km], axis=0) for km in {km}]") or K.find(f"[dataall[km].mean(axis=0) for km in {km}]")
    anycomp = [n for n in ast.walk(kg.node) if isinstance(n, (ast.ListComp, ast.GeneratorExp)) and any(norm(g_.iter) == km for g_ in n.generators)]
    if mean:
        src = mean[0][1].get("dataall")
        dd = fctx(kg)[1].single_def(src, fctx(kg)[1].node_of_expr(mean[0][0])) if src and src.isidentifier() else None
        r2.check(dd is not None and norm(dd.value) == "self.data", "slot value = mean of the object's own data over the slot's own members", kg, mean[0][0],
                 f"the slot average is taken over `{norm1(dd.value) if dd else src}`, not over self.data")
    elif anycomp:
        r2.violation(kg, anycomp[0], f"`{norm1(anycomp[0], 100)}`: the slot value is not the mean of the data over exactly the slot's members "
                     f"(Σ_{{ik∈slot}} data[ik] / len(slot))")
    else:
        r2.expect(False, "slot average located", kg, kg.node, "K__Result.to_grid: the per-slot average was not found")
    ta = idx.function(TC, "TabulatorAll.__call__")
    ctor = [c for c in ast.walk(ta.node) if isinstance(c, ast.Call) and call_name(c).endswith("TABresult")]
    if len(ctor) != 1:
        r2.expect(False, "TABresult constructor located", ta, ta.node, "TabulatorAll.__call__: TABresult(…) not found")
    else:
        dk = ta.params[1]
        kp = kwarg(ctor[0], "kpoints", 0)
        rs_ = kwarg(ctor[0], "results")
        okk = kp is not None and norm(kp) in (f"{dk}.kpoints_all.copy()", f"{dk}.kpoints_all")
        okr = isinstance(rs_, ast.DictComp) and bool(pmatch(rs_, f"{{K: V({dk}) for K, V in self.tabulators.items()}}", {"K", "V"}))
        r2.check(okk and okr, "a tabulation block stores the k-points it was evaluated at, next to every tabulator's values for the same data_K", ta, ctor[0],
                 f"TabulatorAll pairs results with `{norm1(kp) if kp is not None else None}` instead of {dk}.kpoints_all / does not evaluate every tabulator on {dk}")

    # ---------------------------------------------------------------- R30.3
    r3 = ctx.rule("R30.3", "component extraction")
    gc = idx.function(KB, "get_component")
    r3.instance(gc.short)
    G = Frag(gc)
    xyz = None
    xyzname = None
    for s in stmts(gc.node):
        if isinstance(s, ast.Assign) and isinstance(s.targets[0], ast.Name) and isinstance(s.value, ast.Dict) \
                and all(isinstance(k, ast.Constant) for k in s.value.keys) and {k.value for k in s.value.keys} >= {"x", "y", "z"}:
            xyz = {k.value: const_of(v) for k, v in zip(s.value.keys, s.value.values)}
            xyzname = s.targets[0].id
    if xyz is None:
        r3.expect(False, "component table located", gc, gc.node, "get_component: the {'x':…, 'y':…, 'z':…} table was not found")
        return
    r3.check(xyz == {"x": 0, "y": 1, "z": 2}, "x, y, z ↦ 0, 1, 2", gc, gc.node, f"component table is {xyz}", stmt="xyz")
    datap, ndimp, compp = gc.params[:3]
    r3.check(G.all(f"_data = {datap}.transpose(dims[-{ndimp}:] + dims[:-{ndimp}])", f"return _data[tuple([{xyzname}[c] for c in {compp}])]"),
             "string components index the trailing axes in the order written", gc, gc.node,
             "multi-letter components no longer index the trailing (tensor) axes in the order written", stmt="string comps")
    r3.check(G.has(f"return sum([_data[(i,) * {ndimp}] for i in range(3)])") or G.has(f"return sum(_data[(i,) * {ndimp}] for i in range(3))"),
             "trace = Σ_i T[i, i, …] over i = 0, 1, 2", gc, gc.node, "`trace` is no longer the sum of the three diagonal elements", stmt="trace")
    tl = G.find(f"for k in {compp}[-1::-1]:\n    Xnk = Xnk[..., k]") or G.find(f"for k in reversed({compp}):\n    Xnk = Xnk[..., k]")
    r3.check(bool(tl), "tuple components peel trailing axes from the last one", gc, gc.node,
             "tuple components no longer index the trailing axes in order (last component ↔ last axis first)", stmt="tuple comps")
    r3.check(G.has(f"return {datap}[..., {xyzname}[{compp}]]") and G.has(f"return np.linalg.norm({datap}, axis=-1)"),
             "vector components / norm act on the last axis", gc, gc.node, "vector component / norm extraction changed", stmt="vector comps")
    cl = idx.function(KB, "K__Result.get_component_list")
    C = Frag(cl)
    r3.check(C.has("itertools.product(*[('x', 'y', 'z')] * dim)") or C.has("itertools.product('xyz', repeat=dim)") or C.has("itertools.product(('x', 'y', 'z'), repeat=dim)"),
             "component list enumerates xyz^dim", cl, cl.node, "the component list is no longer the product {x,y,z}^dim", stmt="component list")


from ..selftest import V  # noqa: E402

SELFTEST = [
    V("Fortran-order slot index", TAB, "ind_grid = kpoints_int[:, 2] + grid[2] * (kpoints_int[:, 1] + grid[1] * kpoints_int[:, 0])",
      "ind_grid = kpoints_int[:, 0] + grid[0] * (kpoints_int[:, 1] + grid[1] * kpoints_int[:, 2])", "fire", "R30.1"),
    V("slot index uses the wrong stride", TAB, "ind_grid = kpoints_int[:, 2] + grid[2] * (kpoints_int[:, 1] + grid[1] * kpoints_int[:, 0])",
      "ind_grid = kpoints_int[:, 2] + grid[2] * (kpoints_int[:, 1] + grid[2] * kpoints_int[:, 0])", "fire", "R30.1"),
    V("self_to_grid asks for Fortran order", TAB, "res = self.to_grid(self.find_grid, order='C')", "res = self.to_grid(self.find_grid, order='F')", "fire", "R30.1"),
    V("shared slot list", TAB, "k_map = [[] for i in range(np.prod(grid))]", "k_map = [[]] * np.prod(grid)", "fire", "R30.2"),
    V("slot average divides by the number of k-points", KB, "data = np.array([sum(dataall[ik] for ik in km) / len(km) for km in k_map])",
      "data = np.array([sum(dataall[ik] for ik in km) / len(k_map) for km in k_map])", "fire", "R30.2"),
    V("y and z swapped", KB, "xyz = {\"x\": 0, \"y\": 1, \"z\": 2}", "xyz = {\"x\": 0, \"y\": 2, \"z\": 1}", "fire", "R30.3"),
    V("trace skips a diagonal element", KB, "return sum([_data[((i,) * ndim)] for i in range(3)])", "return sum([_data[((i,) * ndim)] for i in range(2)])", "fire", "R30.3"),
    V("meshgrid with the default indexing", TAB, "indexing='ij')", "indexing='xy')", "fire", "R30.1"),
    V("integer coordinates not folded", TAB, "        kpoints_int = kpoints_int % grid[None, :]\n", "", "fire", "R30.1"),
    V("get_data reshapes in Fortran order", TAB, "return self.Enk.data[:, iband].reshape(shape)", "return self.Enk.data[:, iband].reshape(shape, order='F')", "fire", "R30.1"),
    V("FermiSurfer flatten in Fortran order", TAB, "data[:, :, :, ib].flatten(order='C')", "data[:, :, :, ib].flatten(order='F')", "fire", "R30.1"),
    V("k-point appended to the neighbouring slot", TAB, "k_map[ind_grid[ik]].append(ik)", "k_map[ind_grid[ik] - 1].append(ik)", "fire", "R30.1"),
    V("off-grid points not skipped", TAB, "            if on_grid[ik]:\n                k_map[ind_grid[ik]].append(ik)\n            else:\n                warnings.warn(f\"k-point {ik}={self.kpoints[ik]} is not on the grid, skipping.\")",
      "            k_map[ind_grid[ik]].append(ik)", "fire", "R30.2"),
    V("tabulator stores the irreducible k-point only", TC, "kpoints=data_K.kpoints_all.copy(),", "kpoints=data_K.kpoints_all[:1].copy(),", "fire", "R30.2"),
    V("neutral: locals renamed in to_grid", TAB, "k_map", "slots", "silent", replace_all=True),
    V("neutral: locals renamed in to_grid (index arrays)", TAB, "ind_grid", "flat_index", "silent", replace_all=True),
    V("neutral: kpoints_int renamed", TAB, "kpoints_int", "kint", "silent", replace_all=True),
    V("neutral: flatten without explicit order (numpy default C)", TAB, "data[:, :, :, ib].flatten(order='C')", "data[:, :, :, ib].flatten()", "silent"),
    V("neutral: slot mean with a list inside sum", KB, "sum(dataall[ik] for ik in km) / len(km)", "sum([dataall[ik] for ik in km]) / len(km)", "silent"),
    V("neutral: expanded slot index", TAB, "ind_grid = kpoints_int[:, 2] + grid[2] * (kpoints_int[:, 1] + grid[1] * kpoints_int[:, 0])",
      "ind_grid = kpoints_int[:, 0] * grid[1] * grid[2] + kpoints_int[:, 1] * grid[2] + kpoints_int[:, 2]", "silent"),
]
