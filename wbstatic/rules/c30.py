"""C30 — grid tabulation covers every grid point once, in C order, with its own values (structural clauses).

R30.1 linearisation agreement: the slot index computed in TABresult.to_grid, the meshgrid/reshape that builds the new
      k-points, the reshape in get_data and the flatten in fermiSurfer all denote C order.
R30.2 slot map: one list per grid slot; every on-grid k-point is appended to the slot of its own index; K__Result.to_grid
      averages each slot over its own members.
R30.4 Tabulator: column j holds the value of the group containing the j-th requested band (order of `ibands` kept).
R30.3 component extraction: x,y,z ↦ 0,1,2; trace sums the (i,i,…) diagonal; tuple components index trailing axes in order.
"""
from __future__ import annotations

import ast
from typing import Dict, List, Optional

from ..algebra import Rat, to_rat
from ..index import AnalysisError, call_name, norm, norm1
from ..sem import Sem, built_container
from .groups import check_band_values
from .common import index_domain, Frag, calls, const_of, enclosing, fctx, in_body, is_name, kwarg, method_calls, pmatch, stmts

LEVEL = "other"
EXPLANATION = (
    "The index arithmetic of TABresult.to_grid is normalised as an exact polynomial and compared with the C-order "
    "linearisation k0·g1·g2 + k1·g2 + k2; the same order must be used by the meshgrid(indexing='ij')/reshape(order) that builds "
    "the grid k-points, by self_to_grid (order='C'), by the default-order reshape in get_data and by flatten(order='C') in "
    "fermiSurfer. The slot map and the per-slot average are structural rules; the component table of get_component is folded "
    "from its literal. Not decided: equality with single-point evaluation.")

TAB = "wannierberri/result/tabresult.py"
KB = "wannierberri/result/kbandresult.py"
TC = "wannierberri/calculators/tabulate.py"


def _order_is_C(call: ast.Call, pos: Optional[int] = None):
    """`order` argument of a numpy reshape/flatten call: True if it denotes C order (absent = numpy default 'C')."""
    v = const_of(kwarg(call, "order", pos), "C")
    return v in ("C", "c"), v


def _defs_of_shape(a0: ast.AST, du, at: int):
    """Definitions that decide the leading axes of a reshape target `a0` (a name, or name + tuple…)."""
    first = a0
    while isinstance(first, ast.BinOp) and isinstance(first.op, ast.Add):
        first = first.left
    if isinstance(first, ast.Name):
        return du.reaching(first.id, at) or [None]
    class _D:  # literal expression
        kind, value, name, node = "assign", first, "", at
    return [_D()]


def _leading_is_grid(S, value, d, du) -> bool:
    """The tuple bound by definition d starts with tuple(self.grid) (appending on the right keeps the leading axes)."""
    if d is None:
        return False
    if d.kind == "aug":
        return isinstance(d.stmt.op, ast.Add) and all(_leading_is_grid(S, x.value if x.kind != "aug" else None, x, du) for x in (du.reaching(d.name, d.node) or [None]))
    v = d.value
    if v is None:
        return False
    while isinstance(v, ast.BinOp) and isinstance(v.op, ast.Add):
        v = v.left
    if norm(v) in ("tuple(self.grid)", "tuple(self.grid.tolist())"):
        return True
    if isinstance(v, ast.Name) and v.id == d.name:
        return all(_leading_is_grid(S, x.value if x.kind != "aug" else None, x, du) for x in (du.reaching(d.name, d.node) or [None]))
    return False


def run(ctx) -> None:
    idx = ctx.index

    # ---------------------------------------------------------------- R30.1
    r1 = ctx.rule("R30.1", "one linearisation (C order) across to_grid / get_data / fermiSurfer", min_instances=4)
    tg = idx.function(TAB, "TABresult.to_grid")
    cfg, du, pm = fctx(tg)
    S = Sem(idx, tg)
    # whatever the formulation: k-point indices stored in the grid map refer to the stored k-point list, never to a mask-filtered copy of it
    from ..taint import masked_index_escapes
    from ..sem import reachable_helpers as _rh
    for g_ in [tg] + _rh(idx, tg):
        for n_, m_, why_ in masked_index_escapes(g_.node, fctx(g_)[1]):
            r1.violation(g_, n_, f"{g_.qualname}: {why_}: as soon as one stored k-point is not on the target grid, grid slots receive the values of other "
                         f"k-points", stmt="positions in a filtered list")
    gridp, orderp = (tg.params + [None, None, None])[1:3]
    r1.expect(gridp is not None and orderp is not None, "to_grid(self, grid, order)", tg, tg.node, "to_grid no longer has the parameters (grid, order)")
    GF = (f"{gridp}[None, :]", gridp, f"{gridp}[np.newaxis, :]", f"np.array({gridp})[None, :]")
    app0 = pmatch(tg.node, "KM[IDX].append(IK)", {"KM", "IDX", "IK"})
    if len(app0) != 1:
        r1.expect(False, "slot store located", tg, tg.node, "to_grid: the store `slots[…].append(ik)` was not found (exactly once)")
        return
    appn, ab = app0[0]
    app_stmt = enclosing(pm, appn, ast.stmt)
    ikv, kmap = ab["IK"], ab["KM"]
    r1.instance(f"{tg.short}: {norm1(app_stmt, 100)}")
    idx_res = S.resolve(appn.func.value.slice, cfg.node(app_stmt))
    # slot index of k-point ik = (array expression)[ik]
    if not (isinstance(idx_res, ast.Subscript) and norm(idx_res.slice) == ikv):
        r1.violation(tg, appn, f"`{norm1(appn)}`: k-point {ikv} is appended to slot `{norm1(idx_res, 80)}`, which is not the slot index computed for that same "
                     f"k-point (index[{ikv}])")
        return
    kint_bases = set()

    def env(x):
        if isinstance(x, ast.Subscript):
            sl = x.slice
            if isinstance(sl, ast.Tuple) and len(sl.elts) == 2 and isinstance(sl.elts[0], ast.Slice) and isinstance(sl.elts[1], ast.Constant) \
                    and sl.elts[1].value in (0, 1, 2) and norm(x.value) != gridp:
                kint_bases.add(norm(x.value))
                return Rat.sym(f"k{sl.elts[1].value}")
            if norm(x.value) == gridp and isinstance(sl, ast.Constant) and sl.value in (0, 1, 2):
                return Rat.sym(f"g{sl.value}")
            if isinstance(x.value, ast.Attribute) and x.value.attr == "T" and isinstance(sl, ast.Constant) and sl.value in (0, 1, 2) and norm(x.value.value) != gridp:
                kint_bases.add(norm(x.value.value))      # X.T[a] is column a of X
                return Rat.sym(f"k{sl.value}")
            if isinstance(x.value, (ast.Tuple, ast.List)) and isinstance(sl, ast.Constant) and isinstance(sl.value, int) and sl.value < len(x.value.elts):
                return to_rat(x.value.elts[sl.value], env)
        return None
    try:
        got = to_rat(idx_res.value, env)
    except AnalysisError as e_:
        r1.expect(False, "slot index is integer arithmetic on the grid coordinates", tg, app_stmt, f"to_grid: slot index `{norm1(idx_res.value, 90)}` is outside the arithmetic subset ({e_})")
        return
    want = Rat.sym("k0") * Rat.sym("g1") * Rat.sym("g2") + Rat.sym("k1") * Rat.sym("g2") + Rat.sym("k2")
    r1.check(got.equals(want) and len(kint_bases) == 1, "slot index = k0·g1·g2 + k1·g2 + k2 (C order)", tg, app_stmt,
             f"the slot index `{norm1(idx_res.value, 120)}` is not the C-order linearisation k0·g1·g2 + k1·g2 + k2: values are attached to other "
             f"grid points than the k-points stored next to them")
    if len(kint_bases) == 1:
        base = ast.parse(next(iter(kint_bases)), mode="eval").body
        folded = any(pmatch(base, f"KI % {g_}", {"KI"}) and pmatch(base, f"KI % {g_}", {"KI"})[0][0] is base for g_ in GF) or \
            any(pmatch(base, f"np.mod(KI, {g_})", {"KI"}) and pmatch(base, f"np.mod(KI, {g_})", {"KI"})[0][0] is base for g_ in GF)
        r1.check(folded, "integer grid coordinates are folded into [0, g) before linearisation", tg, app_stmt,
                 f"`{norm1(base, 90)}` is not reduced modulo the grid before the slot index is computed: k-points given outside [0,1) index other slots "
                 f"(or past the end)")
        r1.check(any(pmatch(base, f"np.rint(self.kpoints * {g_}).astype(int)") or pmatch(base, f"np.round(self.kpoints * {g_}).astype(int)") for g_ in GF),
                 "integer coordinates = rint(k · grid)", tg, app_stmt, "the integer grid coordinates are no longer rint(self.kpoints · grid)")
    # the new k-points
    mg = [c for c in calls(tg.node, "meshgrid")]
    if len(mg) != 1:
        r1.expect(False, "meshgrid located", tg, tg.node, "to_grid: the np.meshgrid call that builds the grid k-points was not found")
    else:
        m = mg[0]
        gl = {a_.value.id for a_ in m.args if isinstance(a_, ast.Subscript) and isinstance(a_.value, ast.Name)}
        star = len(m.args) == 1 and isinstance(m.args[0], ast.Starred) and isinstance(m.args[0].value, ast.Name)
        if star:
            gl = {m.args[0].value.id}
        ax_ok = star or (len(m.args) == 3 and len(gl) == 1 and [norm(a_) for a_ in m.args] == [f"{next(iter(gl))}[{i}]" for i in range(3)])
        r1.check(ax_ok and const_of(kwarg(m, "indexing"), "xy") == "ij", "grid k-points: meshgrid of axes 0,1,2 with indexing='ij'", tg, m,
                 f"`{norm1(m)}`: the grid k-points are not generated as meshgrid(axis0, axis1, axis2, indexing='ij') (numpy's default 'xy' swaps "
                 f"the first two axes): k-points and values are paired differently")
        outer = [c for c in method_calls(tg.node, "reshape") if any(n is m for n in ast.walk(c.func))]
        if len(outer) != 1:
            r1.expect(False, "reshape of the meshgrid located", tg, m, "to_grid: reshape of the meshgrid not found")
        else:
            rc = outer[0]
            ov = kwarg(rc, "order")
            tr = pm.get(rc)
            r1.check(isinstance(ov, ast.Name) and ov.id == orderp and const_of(rc.args[0] if rc.args else None) == (3, -1)
                     and isinstance(tr, ast.Attribute) and tr.attr == "T",
                     "grid k-points flattened as (3, -1) with the requested order, one row per k-point", tg, rc,
                     f"`{norm1(rc, 90)}`: the grid k-points are not flattened with reshape((3, -1), order=<requested order>).T")
        if gl:
            gv = S.resolve(ast.Name(id=next(iter(gl)), ctx=ast.Load()), du.node_of_expr(m))
            forms = [f"[np.linspace(0.0, 1.0, G_, False) for G_ in {gridp}]", f"[np.linspace(0.0, 1.0, G_, endpoint=False) for G_ in {gridp}]",
                     f"[np.linspace(0, 1, G_, endpoint=False) for G_ in {gridp}]", f"[np.arange(G_) / G_ for G_ in {gridp}]"]
            r1.check(any(pmatch(gv, f_, {"G_"}) for f_ in forms), "axis i holds the points j/g_i, j = 0..g_i−1", tg, m,
                     f"the grid axes `{norm1(gv, 80)}` are no longer the g_i equidistant points j/g_i of [0, 1)")
    sg = idx.function(TAB, "TABresult.self_to_grid")
    r1.instance(sg.short)
    tc = [c for c in method_calls(sg.node, "to_grid") if norm(c.func.value) == "self"]
    if len(tc) != 1:
        r1.expect(False, "self.to_grid call located", sg, sg.node, "self_to_grid no longer calls self.to_grid once")
    else:
        default = None
        pa = tg.node.args
        if orderp in [x.arg for x in pa.args]:
            i_ = [x.arg for x in pa.args].index(orderp) - (len(pa.args) - len(pa.defaults))
            default = const_of(pa.defaults[i_]) if i_ >= 0 else None
        ov = const_of(kwarg(tc[0], orderp, 1), default)
        r1.check(ov == "C", "self_to_grid requests C order", sg, tc[0],
                 f"self_to_grid requests order={ov!r}: the slot index is the C-order linearisation, so the k-points are not those of the values")
    gd = idx.function(TAB, "TABresult.__get_data_grid")
    r1.instance(gd.short)
    rsh = method_calls(gd.node, "reshape")
    r1.expect(len(rsh) >= 1, "get_data reshapes located", gd, gd.node, "__get_data_grid: reshape calls not found")
    gcfg, gdu, gpm = fctx(gd)
    gS = Sem(idx, gd)
    for rc in rsh:
        okc, v = _order_is_C(rc, 1)
        r1.check(okc, "get_data reshapes the slot axis in C order", gd, rc,
                 f"`{norm1(rc, 80)}` reshapes the slot axis with order={v!r} although the slots were filled in C order")
        a0 = rc.args[0] if rc.args else None
        okshape = a0 is not None and all(_leading_is_grid(gS, x.value if x.kind != "aug" else None, x, gdu) for x in _defs_of_shape(a0, gdu, gdu.node_of_expr(rc)))
        r1.check(okshape, "… to the grid shape (g0, g1, g2[, bands, components])", gd, rc,
                 f"`{norm1(rc, 80)}`: the leading axes of the reshaped data are not tuple(self.grid)")
    fs = idx.function(TAB, "fermiSurfer")
    r1.instance(fs.short)
    fl = [c for c in ast.walk(fs.node) if isinstance(c, ast.Call) and isinstance(c.func, ast.Attribute) and c.func.attr in ("flatten", "ravel", "reshape")
          and isinstance(c.func.value, ast.Subscript)]
    r1.expect(len(fl) >= 2, "FermiSurfer flatten calls located", fs, fs.node, "fermiSurfer: the flatten calls on the grid arrays were not found")
    for c in fl:
        okc, v = _order_is_C(c, 0 if c.func.attr != "reshape" else 1)
        r1.check(okc, "FermiSurfer output is flattened in C order", fs, c, f"`{norm1(c, 80)}` flattens the grid with order={v!r}; the FermiSurfer format and "
                 f"the grid built by to_grid are C-ordered")
    tf = idx.function(TAB, "TABresult.fermiSurfer")
    guard = [s_ for s_ in stmts(tf.node) if isinstance(s_, ast.If) and "gridorder" in norm(s_.test)]
    r1.check(len(guard) == 1 and norm(guard[0].test) in ("self.gridorder != 'C'", "'C' != self.gridorder", "not self.gridorder == 'C'")
             and isinstance(guard[0].body[-1], ast.Raise), "FermiSurfer export refuses non-C grids", tf, guard[0] if guard else tf.node,
             "the `gridorder != 'C'` guard of TABresult.fermiSurfer no longer raises", stmt="gridorder guard")

    # ---------------------------------------------------------------- R30.2
    r2 = ctx.rule("R30.2", "slot map and per-slot averaging", min_instances=2)
    r2.instance(f"{tg.short}: {kmap}")
    kd = du.single_def(kmap, cfg.node(app_stmt)) if kmap.isidentifier() else None
    fresh = kd is not None and kd.value is not None and any(
        pmatch(kd.value, f_, {"I"}) for f_ in (f"[[] for I in range(np.prod({gridp}))]", f"[list() for I in range(np.prod({gridp}))]",
                                               f"[[] for I in range(int(np.prod({gridp})))]", f"[[] for I in range({gridp}.prod())]"))
    r2.check(bool(fresh), "one (independent) list per grid slot", tg, kd.stmt if kd else tg.node,
             f"`{norm1(kd.stmt) if kd else kmap}`: the slot map is not one fresh list per grid slot (e.g. `[[]] * n` shares one list between all slots)")
    lp = enclosing(pm, appn, ast.For)
    conds = S.conditions(app_stmt)
    on_ok = False
    for txt, pol, tnode in conds:
        if not pol:
            continue
        c_ = ast.parse(txt, mode="eval").body
        m_ = pmatch(c_, f"np.all(abs(ANY - self.kpoints) < TOL, axis=1)[{ikv}]", {"TOL"}) or pmatch(c_, f"np.all(np.abs(ANY - self.kpoints) < TOL, axis=1)[{ikv}]", {"TOL"})
        if m_ and m_[0][0] is c_:
            tol = const_of(ast.parse(m_[0][1]["TOL"], mode="eval").body)
            on_ok = isinstance(tol, float) and 0 < tol < 0.01
    r2.check(on_ok, "k-point ik goes to the slot of its own index, only if it lies on the grid", tg, app_stmt,
             "a k-point is appended without the on-grid test |rint(k·grid)/grid − k| < tol of that same k-point: off-grid points are averaged into grid slots")
    iv_, seqs = index_domain(lp) if lp is not None else (None, [])
    r2.check(lp is not None and iv_ == ikv and bool(seqs) and all(x == "self.kpoints" or "self.kpoints" in S.rnorm(ast.parse(x, mode="eval").body, cfg.node(lp)) for x in seqs),
             "every stored k-point is considered", tg, lp or tg.node, "not every stored k-point is mapped to the grid")
    res = [n for n in ast.walk(tg.node) if isinstance(n, ast.DictComp) and any(c.args and norm(c.args[0]) == kmap for c in method_calls(n, "to_grid"))]
    okres = False
    if len(res) == 1:
        dc = res[0]
        okres = bool(pmatch(dc, f"{{R_: self.results[R_].to_grid({kmap}) for R_ in self.results}}", {"R_"}) or
                     pmatch(dc, f"{{R_: V_.to_grid({kmap}) for R_, V_ in self.results.items()}}", {"R_", "V_"}))
    r2.check(okres, "every quantity is gathered with the same slot map", tg, res[0] if res else tg.node,
             "not every tabulated quantity is gathered with the slot map", stmt="results to_grid")
    kg = idx.function(KB, "K__Result.to_grid")
    r2.instance(kg.short)
    # the gathered object is read-only here: a name that is (a view of) self.data must not be updated in place — the average would be written
    # into the source rows and a second gathering of the same result starts from the partial sums
    views_ = set()
    grew_ = True
    while grew_:
        grew_ = False
        for st_ in ast.walk(kg.node):
            if isinstance(st_, ast.Assign) and len(st_.targets) == 1 and isinstance(st_.targets[0], ast.Name) and st_.targets[0].id not in views_:
                v_ = st_.value
                while isinstance(v_, ast.Subscript) or (isinstance(v_, ast.Call) and isinstance(v_.func, ast.Attribute) and v_.func.attr in ("reshape", "view", "transpose", "swapaxes", "squeeze", "ravel")) \
                        or (isinstance(v_, ast.Attribute) and v_.attr == "T"):
                    v_ = v_.value if isinstance(v_, (ast.Subscript, ast.Attribute)) else v_.func.value
                if norm(v_) == "self.data" or (isinstance(v_, ast.Name) and v_.id in views_):
                    # fancy (list / array) indexing copies; a scalar or slice index gives a view
                    sub_ = st_.value
                    copying_ = isinstance(sub_, ast.Subscript) and isinstance(sub_.slice, (ast.List, ast.Tuple)) and any(isinstance(e_, (ast.List, ast.Name)) for e_ in getattr(sub_.slice, "elts", []))
                    if not copying_:
                        views_.add(st_.targets[0].id)
                        grew_ = True
    for st_ in ast.walk(kg.node):
        tg_ = None
        if isinstance(st_, ast.AugAssign):
            tg_ = st_.target
        elif isinstance(st_, ast.Assign) and isinstance(st_.targets[0], ast.Subscript):
            tg_ = st_.targets[0]
        if tg_ is None:
            continue
        b_ = tg_
        while isinstance(b_, ast.Subscript):
            b_ = b_.value
        if (isinstance(b_, ast.Name) and b_.id in views_) or norm(b_) == "self.data":
            r2.violation(kg, st_, f"`{norm1(st_)}` updates in place `{norm(b_)}`, which is (a view of) self.data: gathering onto the grid modifies the result it "
                         f"gathers from, so the same tabulation gathered a second time returns other values")
    km = kg.params[1] if len(kg.params) > 1 else "k_map"
    K = Frag(kg)
    mean = K.find(f"[sum(dataall[ik] for ik in km) / len(km) for km in {km}]") or K.find(f"[sum([dataall[ik] for ik in km]) / len(km) for km in {km}]") \
        or K.find(f"[np.mean([dataall[ik] for ik in km], axis=0) for km in {km}]") or K.find(f"[dataall[km].mean(axis=0) for km in {km}]")
    anycomp = [n for n in ast.walk(kg.node) if isinstance(n, (ast.ListComp, ast.GeneratorExp)) and any(norm(g_.iter) == km for g_ in n.generators)]
    if mean:
        src = mean[0][1].get("dataall")
        dd = fctx(kg)[1].single_def(src, fctx(kg)[1].node_of_expr(mean[0][0])) if src and src.isidentifier() else None
        r2.check(dd is not None and norm(dd.value) == "self.data", "slot value = mean of the object's own data over the slot's own members", kg, mean[0][0],
                 f"the slot average is taken over `{norm1(dd.value) if dd else src}`, not over self.data")
    elif anycomp:
        r2.violation(kg, anycomp[0], f"`{norm1(anycomp[0], 100)}`: the slot value is not the mean of the data over exactly the slot's members "
                     f"(Σ_{{ik∈slot}} data[ik] / len(slot))")
    else:
        r2.expect(False, "slot average located", kg, kg.node, "K__Result.to_grid: the per-slot average was not found")
    ta = idx.function(TC, "TabulatorAll.__call__")
    TS = Sem(idx, ta)
    ctor = [c for c in ast.walk(ta.node) if isinstance(c, ast.Call) and call_name(c).endswith("TABresult")]
    if len(ctor) != 1:
        r2.expect(False, "TABresult constructor located", ta, ta.node, "TabulatorAll.__call__: TABresult(…) not found")
    else:
        dk = ta.params[1]
        at_c = TS.du.node_of_expr(ctor[0])
        kp = kwarg(ctor[0], "kpoints", 0)
        rs_ = kwarg(ctor[0], "results", 2)
        okk = kp is not None and TS.rnorm(kp, at_c) in (f"{dk}.kpoints_all.copy()", f"{dk}.kpoints_all", f"np.copy({dk}.kpoints_all)", f"np.array({dk}.kpoints_all)")
        okr = False
        if rs_ is not None:
            bc = built_container(TS, rs_ if not isinstance(rs_, ast.Name) else rs_.id, at_c) if isinstance(rs_, (ast.Name, ast.DictComp)) else None
            if bc is not None and bc.kind == "dict" and len(bc.loops) == 1 and not bc.conds:
                tgt, it = bc.loops[0]
                if norm(it) == "self.tabulators.items()" and isinstance(tgt, ast.Tuple) and len(tgt.elts) == 2:
                    okr = norm(bc.key) == norm(tgt.elts[0]) and norm(bc.value) == f"{norm(tgt.elts[1])}({dk})"
                elif norm(it) in ("self.tabulators", "self.tabulators.keys()") and isinstance(tgt, ast.Name):
                    okr = norm(bc.key) == tgt.id and norm(bc.value) == f"self.tabulators[{tgt.id}]({dk})"
        r2.check(okk and okr, "a tabulation block stores the k-points it was evaluated at, next to every tabulator's values for the same data_K", ta, ctor[0],
                 f"TabulatorAll pairs results with `{norm1(kp) if kp is not None else None}` instead of {dk}.kpoints_all / does not evaluate every tabulator on {dk}")

    # ---------------------------------------------------------------- R30.4
    r4 = ctx.rule("R30.4", "band columns: column j of a tabulated quantity belongs to the j-th requested band")
    tb = idx.function(TC, "Tabulator.__call__")
    r4.instance(tb.short)
    check_band_values(r4, idx, tb, average=True)

    # ---------------------------------------------------------------- R30.3
    r3 = ctx.rule("R30.3", "component extraction")
    gc = idx.function(KB, "get_component")
    r3.instance(gc.short)
    GS = Sem(idx, gc)
    GS.subst_consts = False
    datap, ndimp, compp = gc.params[:3]
    # the letter → axis table: a dict literal with keys x, y, z, local or at module level
    xyz, xyzname = None, None
    cands = [(s_.targets[0].id, s_.value) for s_ in stmts(gc.node) if isinstance(s_, ast.Assign) and isinstance(s_.targets[0], ast.Name) and isinstance(s_.value, ast.Dict)]
    cands += [(k_, v_[0]) for k_, v_ in gc.module.assigns.items() if len(v_) == 1 and isinstance(v_[0], ast.Dict)
              and any(isinstance(n, ast.Name) and n.id == k_ for n in ast.walk(gc.node))]
    for nm, dv in cands:
        if all(isinstance(k, ast.Constant) for k in dv.keys) and {k.value for k in dv.keys} >= {"x", "y", "z"}:
            xyz = {k.value: const_of(v) for k, v in zip(dv.keys, dv.values)}
            xyzname = nm
    if xyz is None:
        r3.expect(False, "component table located", gc, gc.node, "get_component: the {'x':…, 'y':…, 'z':…} table was not found")
        return
    r3.check({k: xyz[k] for k in "xyz"} == {"x": 0, "y": 1, "z": 2}, "x, y, z ↦ 0, 1, 2", gc, gc.node, f"component table is {xyz}", stmt="xyz")
    rets = [s_ for s_ in stmts(gc.node) if isinstance(s_, ast.Return) and s_.value is not None]
    res = [(r_, GS.resolve(r_.value, GS.cfg.node(r_))) for r_ in rets]
    TR = f"{datap}.transpose(tuple(np.arange({datap}.ndim))[-{ndimp}:] + tuple(np.arange({datap}.ndim))[:-{ndimp}])"
    TR2 = f"np.moveaxis({datap}, range(-{ndimp}, 0), range({ndimp}))"

    def any_ret(*pats, metas=()):
        for r_, v_ in res:
            for p_ in pats:
                m_ = pmatch(v_, p_, set(metas))
                if m_ and m_[0][0] is v_:
                    return r_
        return None
    multi = any_ret(*[f"{t_}[tuple([{xyzname}[C_] for C_ in {compp}])]" for t_ in (TR, TR2)], metas={"C_"})
    r3.check(multi is not None, "string components index the trailing axes in the order written", gc, gc.node,
             "multi-letter components no longer index the trailing (tensor) axes in the order written", stmt="string comps")
    trc = any_ret(*[f"sum([{t_}[(I_,) * {ndimp}] for I_ in range(3)])" for t_ in (TR, TR2)], f"np.trace({datap}, axis1=-2, axis2=-1)", metas={"I_"})
    r3.check(trc is not None and GS.holds(trc, f"{compp} == 'trace'"), "trace = Σ_i T[i, i, …] over i = 0, 1, 2, returned for component 'trace'", gc, trc or gc.node,
             "`trace` is no longer the sum of the three diagonal elements", stmt="trace")
    # tuple components: peel the trailing axes starting with the last component
    peel = [l for l in stmts(gc.node) if isinstance(l, ast.For) and isinstance(l.target, ast.Name) and len(l.body) == 1
            and pmatch(l.body[0], f"X_ = X_[..., {l.target.id}]", {"X_"}) and pmatch(l.body[0], f"X_ = X_[..., {l.target.id}]", {"X_"})[0][0] is l.body[0]]
    okt = len(peel) == 1 and norm(peel[0].iter).replace(" ", "") in (f"{compp}[-1::-1]", f"{compp}[::-1]", f"reversed({compp})")
    if len(peel) == 1:
        xn = pmatch(peel[0].body[0], f"X_ = X_[..., {peel[0].target.id}]", {"X_"})[0][1]["X_"]
        xd = GS.du.reaching(xn, GS.cfg.node(peel[0]))
        okt = okt and any(d_.value is not None and norm(d_.value) in (f"np.copy({datap})", f"{datap}.copy()", datap, f"np.array({datap})") for d_ in xd) and \
            any(norm(r_.value) == xn for r_ in rets)
    r3.check(okt, "tuple components peel trailing axes from the last one", gc, peel[0] if peel else gc.node,
             "tuple components no longer index the trailing axes in order (last component ↔ last axis first)", stmt="tuple comps")
    vec = any_ret(f"{datap}[..., {xyzname}[{compp}]]")
    nrm = any_ret(f"np.linalg.norm({datap}, axis=-1)")
    r3.check(vec is not None and nrm is not None and GS.holds(vec, f"{ndimp} == 1") and GS.holds(nrm, f"{compp} == 'norm'"),
             "vector components / norm act on the last axis", gc, vec or gc.node, "vector component / norm extraction changed", stmt="vector comps")
    cl = idx.function(KB, "K__Result.get_component_list")
    CS = Sem(idx, cl)
    prods = [c for c in ast.walk(cl.node) if isinstance(c, ast.Call) and call_name(c) == "itertools.product"]
    okp = False
    if len(prods) == 1:
        c = prods[0]
        at_ = CS.du.node_of_expr(c) if any(x is c for s_ in stmts(cl.node) for x in ast.walk(s_)) else None
        dimtxt = None
        if len(c.args) == 1 and isinstance(c.args[0], ast.Starred):
            m_ = pmatch(c.args[0].value, "[('x', 'y', 'z')] * D_", {"D_"}) or pmatch(c.args[0].value, "['xyz'] * D_", {"D_"}) or pmatch(c.args[0].value, "('xyz',) * D_", {"D_"})
            dimtxt = m_[0][1]["D_"] if m_ else None
        elif len(c.args) == 1 and kwarg(c, "repeat") is not None and const_of(c.args[0]) in ("xyz", ("x", "y", "z"), ["x", "y", "z"]):
            dimtxt = norm(kwarg(c, "repeat"))
        if dimtxt is not None and at_ is not None:
            dres = CS.rnorm(ast.parse(dimtxt, mode="eval").body, at_)
            okp = dres in ("len(self.data.shape[2:])", "self.data.ndim - 2", "len(self.data.shape) - 2", "self.ndim")
    r3.check(okp, "component list enumerates xyz^dim, dim = number of tensor axes", cl, prods[0] if prods else cl.node,
             "the component list is no longer the product {x,y,z}^dim over the tensor axes", stmt="component list")


from ..selftest import V  # noqa: E402

SELFTEST = [
    V("slot average accumulated in place into a view of the source (seeded C30-m6)", KB,
      "        data = np.array([sum(dataall[ik] for ik in km) / len(km) for km in k_map])\n",
      "        data = np.empty((len(k_map),) + dataall.shape[1:], dtype=dataall.dtype)\n        for i, km in enumerate(k_map):\n            acc = dataall[km[0]]\n            for ik in km[1:]:\n                acc += dataall[ik]\n            data[i] = acc / len(km)\n",
      "fire", "R30.2"),
    V("Fortran-order slot index", TAB, "ind_grid = kpoints_int[:, 2] + grid[2] * (kpoints_int[:, 1] + grid[1] * kpoints_int[:, 0])",
      "ind_grid = kpoints_int[:, 0] + grid[0] * (kpoints_int[:, 1] + grid[1] * kpoints_int[:, 2])", "fire", "R30.1"),
    V("slot index uses the wrong stride", TAB, "ind_grid = kpoints_int[:, 2] + grid[2] * (kpoints_int[:, 1] + grid[1] * kpoints_int[:, 0])",
      "ind_grid = kpoints_int[:, 2] + grid[2] * (kpoints_int[:, 1] + grid[2] * kpoints_int[:, 0])", "fire", "R30.1"),
    V("self_to_grid asks for Fortran order", TAB, "res = self.to_grid(self.find_grid, order='C')", "res = self.to_grid(self.find_grid, order='F')", "fire", "R30.1"),
    V("shared slot list", TAB, "k_map = [[] for i in range(np.prod(grid))]", "k_map = [[]] * np.prod(grid)", "fire", "R30.2"),
    V("slot average divides by the number of k-points", KB, "data = np.array([sum(dataall[ik] for ik in km) / len(km) for km in k_map])",
      "data = np.array([sum(dataall[ik] for ik in km) / len(k_map) for km in k_map])", "fire", "R30.2"),
    V("y and z swapped", KB, "xyz = {\"x\": 0, \"y\": 1, \"z\": 2}", "xyz = {\"x\": 0, \"y\": 2, \"z\": 1}", "fire", "R30.3"),
    V("trace skips a diagonal element", KB, "return sum([_data[((i,) * ndim)] for i in range(3)])", "return sum([_data[((i,) * ndim)] for i in range(2)])", "fire", "R30.3"),
    V("meshgrid with the default indexing", TAB, "indexing='ij')", "indexing='xy')", "fire", "R30.1"),
    V("integer coordinates not folded", TAB, "        kpoints_int = kpoints_int % grid[None, :]\n", "", "fire", "R30.1"),
    V("get_data reshapes in Fortran order", TAB, "return self.Enk.data[:, iband].reshape(shape)", "return self.Enk.data[:, iband].reshape(shape, order='F')", "fire", "R30.1"),
    V("FermiSurfer flatten in Fortran order", TAB, "data[:, :, :, ib].flatten(order='C')", "data[:, :, :, ib].flatten(order='F')", "fire", "R30.1"),
    V("k-point appended to the neighbouring slot", TAB, "k_map[ind_grid[ik]].append(ik)", "k_map[ind_grid[ik] - 1].append(ik)", "fire", "R30.1"),
    V("off-grid points not skipped", TAB, "            if on_grid[ik]:\n                k_map[ind_grid[ik]].append(ik)\n            else:\n                warnings.warn(f\"k-point {ik}={self.kpoints[ik]} is not on the grid, skipping.\")",
      "            k_map[ind_grid[ik]].append(ik)", "fire", "R30.2"),
    V("tabulator stores the irreducible k-point only", TC, "kpoints=data_K.kpoints_all.copy(),", "kpoints=data_K.kpoints_all[:1].copy(),", "fire", "R30.2"),
    V("neutral: locals renamed in to_grid", TAB, "k_map", "slots", "silent", replace_all=True),
    V("neutral: locals renamed in to_grid (index arrays)", TAB, "ind_grid", "flat_index", "silent", replace_all=True),
    V("neutral: kpoints_int renamed", TAB, "kpoints_int", "kint", "silent", replace_all=True),
    V("neutral: flatten without explicit order (numpy default C)", TAB, "data[:, :, :, ib].flatten(order='C')", "data[:, :, :, ib].flatten()", "silent"),
    V("neutral: slot mean with a list inside sum", KB, "sum(dataall[ik] for ik in km) / len(km)", "sum([dataall[ik] for ik in km]) / len(km)", "silent"),
    V("neutral: expanded slot index", TAB, "ind_grid = kpoints_int[:, 2] + grid[2] * (kpoints_int[:, 1] + grid[1] * kpoints_int[:, 0])",
      "ind_grid = kpoints_int[:, 0] * grid[1] * grid[2] + kpoints_int[:, 1] * grid[2] + kpoints_int[:, 2]", "silent"),
]
