"""C30 — grid tabulation covers every grid point once, in C order, with its own values (structural clauses).

R30.1 linearisation agreement: the slot index computed in TABresult.to_grid, the meshgrid/reshape that builds the new
      k-points, the reshape in get_data and the flatten in fermiSurfer all denote C order.
R30.2 slot map: one list per grid slot; every on-grid k-point is appended to the slot of its own index; K__Result.to_grid
      averages each slot over its own members.
R30.3 component extraction: x,y,z ↦ 0,1,2; trace sums the (i,i,…) diagonal; tuple components index trailing axes in order.
"""
from __future__ import annotations

import ast
from typing import Dict, List, Optional

from ..algebra import Rat, to_rat
from ..index import AnalysisError, call_name, norm, norm1
from .common import calls, enclosing, fctx, in_body, is_name, method_calls, stmts

LEVEL = "other"
EXPLANATION = (
    "The index arithmetic of TABresult.to_grid is normalised as an exact polynomial and compared with the C-order "
    "linearisation k0·g1·g2 + k1·g2 + k2; the same order must be used by the meshgrid(indexing='ij')/reshape(order) that builds "
    "the grid k-points, by self_to_grid (order='C'), by the default-order reshape in get_data and by flatten(order='C') in "
    "fermiSurfer. The slot map and the per-slot average are structural rules; the component table of get_component is folded "
    "from its literal. Not decided: equality with single-point evaluation.")

TAB = "wannierberri/result/tabresult.py"
KB = "wannierberri/result/kbandresult.py"
TC = "wannierberri/calculators/tabulate.py"


def run(ctx) -> None:
    idx = ctx.index

    # ---------------------------------------------------------------- R30.1
    r1 = ctx.rule("R30.1", "one linearisation (C order) across to_grid / get_data / fermiSurfer", min_instances=4)
    tg = idx.function(TAB, "TABresult.to_grid")
    cfg, du, pm = fctx(tg)
    st = [s for s in stmts(tg.node) if isinstance(s, ast.Assign) and is_name(s.targets[0], "ind_grid")]
    if len(st) != 1:
        raise AnalysisError("to_grid: ind_grid assignment not found")
    r1.instance(f"{tg.short}: {norm1(st[0], 100)}")

    def env(x):
        if isinstance(x, ast.Subscript):
            t = norm(x).replace(" ", "")
            for a in range(3):
                if t == f"kpoints_int[:,{a}]":
                    return Rat.sym(f"k{a}")
                if t == f"grid[{a}]":
                    return Rat.sym(f"g{a}")
        return None
    got = to_rat(st[0].value, env)
    want = Rat.sym("k0") * Rat.sym("g1") * Rat.sym("g2") + Rat.sym("k1") * Rat.sym("g2") + Rat.sym("k2")
    r1.check(got.equals(want), "slot index = k0·g1·g2 + k1·g2 + k2 (C order)", tg, st[0],
             f"the slot index `{norm1(st[0].value)}` is not the C-order linearisation k0·g1·g2 + k1·g2 + k2: values are attached to other "
             f"grid points than the k-points stored next to them")
    t = norm(tg.node).replace(" ", "")
    r1.check("np.meshgrid(grid1[0],grid1[1],grid1[2],indexing='ij')).reshape((3,-1),order=order).T" in t,
             "new k-points: meshgrid(indexing='ij') flattened with the requested order", tg, tg.node,
             "the grid k-points are no longer generated with meshgrid(indexing='ij').reshape((3,-1), order=order)", stmt="k_new")
    r1.check("kpoints_int=kpoints_int%grid[None,:]" in t and "np.rint(self.kpoints*grid[None,:]).astype(int)" in t,
             "integer grid coordinates are folded into [0, g)", tg, tg.node, "integer grid coordinates are not folded modulo the grid", stmt="fold")
    sg = idx.function(TAB, "TABresult.self_to_grid")
    r1.instance(sg.short)
    r1.check("self.to_grid(self.find_grid, order='C')" in norm(sg.node), "self_to_grid requests C order", sg, sg.node,
             "self_to_grid no longer requests order='C' (the index arithmetic is C order)", stmt="order='C'")
    gd = idx.function(TAB, "TABresult.__get_data_grid")
    r1.instance(gd.short)
    tgd = norm(gd.node).replace(" ", "")
    r1.check(".reshape(shape)" in tgd and "order=" not in tgd and "shape=tuple(self.grid)" in tgd, "get_data reshapes the slots in default (C) order to the grid shape", gd, gd.node,
             "get_data reshapes the slot axis with a different order than the slots were filled in", stmt="reshape(shape)")
    fs = idx.function(TAB, "fermiSurfer")
    r1.instance(fs.short)
    tfs = norm(fs.node).replace(" ", "")
    r1.check("Enk[:,:,:,ib].flatten(order='C')" in tfs and "data[:,:,:,ib].flatten(order='C')" in tfs, "FermiSurfer output is flattened in C order", fs, fs.node,
             "fermiSurfer flattens the grid in a different order than it was built", stmt="flatten C")
    tf = idx.function(TAB, "TABresult.fermiSurfer")
    r1.check("if self.gridorder != 'C':" in norm(tf.node), "FermiSurfer export refuses non-C grids", tf, tf.node, "the gridorder guard of fermiSurfer was removed", stmt="gridorder guard")

    # ---------------------------------------------------------------- R30.2
    r2 = ctx.rule("R30.2", "slot map and per-slot averaging", min_instances=2)
    r2.instance(f"{tg.short}: k_map")
    r2.check("k_map=[[]foriinrange(np.prod(grid))]" in t, "one (independent) list per grid slot", tg, tg.node,
             "k_map is not one fresh list per grid slot (e.g. `[[]] * n` shares one list)", stmt="k_map init")
    app = [c for c in method_calls(tg.node, "append") if "k_map" in norm(c.func.value)]
    ok = len(app) == 1 and norm(app[0].func.value).replace(" ", "") == "k_map[ind_grid[ik]]" and norm(app[0].args[0]) == "ik"
    g = enclosing(pm, app[0], ast.If) if app else None
    r2.check(ok and g is not None and norm(g.test).replace(" ", "") == "on_grid[ik]", "k-point ik goes to the slot of its own index, only if it lies on the grid", tg,
             app[0] if app else tg.node, "a k-point is appended to a slot other than its own / off-grid points are not skipped")
    lp = enclosing(pm, app[0], ast.For) if app else None
    r2.check(lp is not None and norm(lp.iter).replace(" ", "") == "range(len(self.kpoints))", "every stored k-point is considered", tg, lp or tg.node,
             "not every stored k-point is mapped to the grid")
    r2.check("{r:self.results[r].to_grid(k_map)forrinself.results}" in t, "every quantity is gathered with the same slot map", tg, tg.node,
             "not every tabulated quantity is gathered with the slot map", stmt="results to_grid")
    kg = idx.function(KB, "K__Result.to_grid")
    r2.instance(kg.short)
    tk = norm(kg.node).replace(" ", "")
    r2.check("np.array([sum((dataall[ik]forikinkm))/len(km)forkmink_map])" in tk, "slot value = mean over the slot's own members", kg, kg.node,
             "K__Result.to_grid no longer averages each slot over exactly its members", stmt="slot mean")
    ta = idx.function(TC, "TabulatorAll.__call__")
    tt = norm(ta.node).replace(" ", "")
    r2.check("kpoints=data_K.kpoints_all.copy()" in tt and "results={key:val(data_K)forkey,valinself.tabulators.items()}" in tt,
             "a tabulation block stores the k-points it was evaluated at", ta, ta.node, "TabulatorAll no longer pairs results with data_K.kpoints_all", stmt="kpoints_all")

    # ---------------------------------------------------------------- R30.3
    r3 = ctx.rule("R30.3", "component extraction")
    gc = idx.function(KB, "get_component")
    r3.instance(gc.short)
    xyz = None
    for s in stmts(gc.node):
        if isinstance(s, ast.Assign) and is_name(s.targets[0], "xyz") and isinstance(s.value, ast.Dict):
            xyz = {k.value: v.value for k, v in zip(s.value.keys, s.value.values)}
    r3.check(xyz == {"x": 0, "y": 1, "z": 2}, "x, y, z ↦ 0, 1, 2", gc, gc.node, f"component table is {xyz}", stmt="xyz")
    tg_ = norm(gc.node).replace(" ", "")
    r3.check("_data=data.transpose(dims[-ndim:]+dims[:-ndim])" in tg_ and "return_data[tuple([xyz[c]forcincomponent])]" in tg_,
             "string components index the trailing axes in the order written", gc, gc.node, "multi-letter components no longer index the trailing axes in order", stmt="string comps")
    r3.check("returnsum([_data[(i,)*ndim]foriinrange(3)])" in tg_, "trace = Σ_i T[i, i, …]", gc, gc.node, "`trace` is no longer the sum of the diagonal elements", stmt="trace")
    r3.check("forkincomponent[-1::-1]:Xnk=Xnk[...,k]" in tg_.replace("\n", ""), "tuple components peel trailing axes from the last one", gc, gc.node,
             "tuple components no longer index the trailing axes in order", stmt="tuple comps")
    r3.check("returndata[...,xyz[component]]" in tg_ and "returnnp.linalg.norm(data,axis=-1)" in tg_, "vector components / norm act on the last axis", gc, gc.node,
             "vector component / norm extraction changed", stmt="vector comps")
    cl = idx.function(KB, "K__Result.get_component_list")
    r3.check("itertools.product(*[('x', 'y', 'z')] * dim)" in norm(cl.node), "component list enumerates xyz^dim", cl, cl.node, "component list changed", stmt="component list")


from ..selftest import V  # noqa: E402

SELFTEST = [
    V("Fortran-order slot index", TAB, "ind_grid = kpoints_int[:, 2] + grid[2] * (kpoints_int[:, 1] + grid[1] * kpoints_int[:, 0])",
      "ind_grid = kpoints_int[:, 0] + grid[0] * (kpoints_int[:, 1] + grid[1] * kpoints_int[:, 2])", "fire", "R30.1"),
    V("slot index uses the wrong stride", TAB, "ind_grid = kpoints_int[:, 2] + grid[2] * (kpoints_int[:, 1] + grid[1] * kpoints_int[:, 0])",
      "ind_grid = kpoints_int[:, 2] + grid[2] * (kpoints_int[:, 1] + grid[2] * kpoints_int[:, 0])", "fire", "R30.1"),
    V("self_to_grid asks for Fortran order", TAB, "res = self.to_grid(self.find_grid, order='C')", "res = self.to_grid(self.find_grid, order='F')", "fire", "R30.1"),
    V("shared slot list", TAB, "k_map = [[] for i in range(np.prod(grid))]", "k_map = [[]] * np.prod(grid)", "fire", "R30.2"),
    V("slot average divides by the number of k-points", KB, "data = np.array([sum(dataall[ik] for ik in km) / len(km) for km in k_map])",
      "data = np.array([sum(dataall[ik] for ik in km) / len(k_map) for km in k_map])", "fire", "R30.2"),
    V("y and z swapped", KB, "xyz = {\"x\": 0, \"y\": 1, \"z\": 2}", "xyz = {\"x\": 0, \"y\": 2, \"z\": 1}", "fire", "R30.3"),
    V("trace skips a diagonal element", KB, "return sum([_data[((i,) * ndim)] for i in range(3)])", "return sum([_data[((i,) * ndim)] for i in range(2)])", "fire", "R30.3"),
    V("neutral: expanded slot index", TAB, "ind_grid = kpoints_int[:, 2] + grid[2] * (kpoints_int[:, 1] + grid[1] * kpoints_int[:, 0])",
      "ind_grid = kpoints_int[:, 0] * grid[1] * grid[2] + kpoints_int[:, 1] * grid[2] + kpoints_int[:, 2]", "silent"),
]
