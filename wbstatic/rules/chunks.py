"""Block / chunk loops: `for i in range(M): … X[B*i : B*(i+1)] …` or `for i in range(0, N, B): … X[i : i+B] …`.

A loop that processes an axis block by block visits every entry exactly once iff the number of blocks is ceil(N / B) (first form) or
the start positions run over range(0, N, B) (second form).  Floor division drops the remainder (N // B, max(N // B, 1)) or adds an
empty block when B divides N (N // B + 1).  Decided from the loop header and the slice bounds alone.
"""
from __future__ import annotations

import ast
import re
from typing import Iterable, List, Optional, Set, Tuple

from ..algebra import Rat, to_rat
from ..index import AnalysisError, call_name, norm, norm1
from ..sem import Sem


def block_slices(lp: ast.For) -> List[Tuple[ast.AST, ast.AST, ast.AST]]:
    """(node, lower, upper) of the slices in the loop body whose bounds depend on the loop variable"""
    if not isinstance(lp.target, ast.Name):
        return []
    i = lp.target.id
    out = []
    for st in lp.body:
        for x in ast.walk(st):
            lo = hi = None
            if isinstance(x, ast.Slice) and x.step is None and x.lower is not None and x.upper is not None:
                lo, hi = x.lower, x.upper
            elif isinstance(x, ast.Call) and call_name(x) == "slice" and len(x.args) == 2 and not x.keywords:
                lo, hi = x.args
            if lo is not None and any(isinstance(n, ast.Name) and n.id == i for n in ast.walk(lo)):
                out.append((x, lo, hi))
    return out


def decide_block_loop(S: Sem, lp: ast.For, length_names: Optional[Set[str]] = None):
    """None if `lp` is not a block loop; otherwise (verdict, why, description) with verdict True / False / None (form not decidable)."""
    if not (isinstance(lp.target, ast.Name) and isinstance(lp.iter, ast.Call) and call_name(lp.iter) == "range"):
        return None
    sls = block_slices(lp)
    if not sls:
        return None
    keys = {(norm(lo), norm(hi)) for _, lo, hi in sls}
    if len(keys) != 1:
        return None
    node, lo_e, hi_e = sls[0]
    i = lp.target.id
    at = S.cfg.node(lp)
    length_names = set(length_names or ())

    def env(x):
        t = norm(x)
        if t in length_names or (not (isinstance(x, ast.Name) and x.id == i) and S.rnorm(x, at) in length_names):
            return Rat.sym("N")
        if isinstance(x, ast.Name):
            if x.id == i:
                return Rat.sym(i)
            r = S.resolve(x, at)
            if isinstance(r, ast.Constant) and isinstance(r.value, int) and not isinstance(r.value, bool):
                return Rat.const(r.value)
            return Rat.sym(x.id)
        return None

    def rat(e):
        try:
            return to_rat(e, env)
        except AnalysisError:
            return None

    def uppers(e):
        if isinstance(e, ast.Call) and call_name(e) in ("min", "np.minimum") and len(e.args) == 2:
            return [rat(a) for a in e.args]
        return [rat(e)]
    I = Rat.sym(i)
    lo, ups = rat(lo_e), uppers(hi_e)
    desc = f"for {i} in {norm1(lp.iter)}: [{norm1(lo_e)}:{norm1(hi_e)}]"
    if lo is None or any(u is None for u in ups):
        return None, "", desc
    args = lp.iter.args
    if len(args) == 3:
        a0, a2 = rat(args[0]), rat(args[2])
        if a0 is not None and a0.equals(Rat.const(0)) and a2 is not None and lo.equals(I) and any(u.equals(I + a2) for u in ups) \
                and all(u.equals(I + a2) or u.equals(rat(args[1])) for u in ups if rat(args[1]) is not None):
            if length_names and not (rat(args[1]) is not None and rat(args[1]).equals(Rat.sym("N"))):
                return None, "", desc
            return True, "", desc
        return None, "", desc
    if len(args) != 1:
        return None, "", desc
    # block b covers [B·b, B·(b+1))
    width = None
    for u in ups:
        d = u - lo
        if d.d.as_const() is not None and d.as_poly().as_const() is None:
            width = d            # symbolic block size
        elif d.d.as_const() is not None and d.as_poly().as_const() is not None and d.as_poly().as_const() > 0:
            width = d
    if width is None or not lo.equals(I * width):
        return None, "", desc
    if width.d.as_const() is not None and width.as_poly().as_const() == 1:
        return None          # one entry per pass: an element loop, not a block loop
    m = S.resolve(args[0], at)
    mt = norm(m).replace(" ", "")
    # the block size as it is spelled in the header
    btxts = set()
    for _, lo2, hi2 in sls:
        for n in ast.walk(hi2):
            if isinstance(n, ast.Name) and n.id != i:
                btxts.add(n.id)
            elif isinstance(n, ast.Constant) and isinstance(n.value, int) and n.value > 1:
                btxts.add(str(n.value))
    for B in sorted(btxts, key=len, reverse=True):
        Bq = re.escape(B)
        Bm1 = str(int(B) - 1) if B.isdigit() else None
        ceil_pats = [rf"\((.+)\+{Bq}-1\)//{Bq}", rf"-\(-(.+)//{Bq}\)", rf"math\.ceil\((.+)/{Bq}\)", rf"int\(np\.ceil\((.+)/{Bq}\)\)", rf"int\(math\.ceil\((.+)/{Bq}\)\)",
                     rf"\((.+)-1\)//{Bq}\+1"] + ([rf"\((.+)\+{Bm1}\)//{Bq}"] if Bm1 else [])
        if any(re.fullmatch(p_, mt) for p_ in ceil_pats):
            return True, "", desc
        mm = re.fullmatch(rf"(.+)//{Bq}\+1", mt) or re.fullmatch(rf"1\+(.+)//{Bq}", mt)
        if mm:
            return False, (f"`{norm1(lp.iter)}` makes N // {B} + 1 blocks of {B}: when the number of entries is a multiple of {B} the last block is empty"), desc
        mm = re.fullmatch(rf"(.+)//{Bq}", mt) or re.fullmatch(rf"max\((.+)//{Bq},1\)", mt) or re.fullmatch(rf"max\(1,(.+)//{Bq}\)", mt)
        if mm:
            return False, (f"`{norm1(lp.iter)}` makes N // {B} blocks of {B} (floor division): the last N % {B} entries are never processed "
                           f"when the size is not a multiple of {B}"), desc
    return None, "", desc
