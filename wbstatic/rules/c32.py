"""C32 — tight-binding imports reproduce the source model (structural clauses).

R32.1 every parameter of a bundled model builder is live: its value (not a constant that shadows it) reaches the model.
R32.2 the PythTB and TBmodels Haldane builders describe the same lattice, sites, on-site terms and hop table.
R32.3 hopping import: every H(R)[a,b] += t has the Hermitian partner H(−R)[b,a] += conj(t); the R list is closed under −R.
"""
from __future__ import annotations

import ast
from typing import Dict, List, Optional, Set, Tuple

from ..index import AnalysisError, call_name, dotted, norm, norm1, names_in, walk_no_nested
from ..sem import Sem, bind_target, inline_private_helpers, list_elements
from .common import calls, enclosing, kwarg, fctx, in_body, is_name, method_calls, stmts, store_targets

LEVEL = "other"
EXPLANATION = (
    "Reaching-definitions analysis over every builder in models.py: the parameter definition must reach at least one "
    "use (a constant re-assignment that kills it before its first use makes the argument dead), and the uses must flow "
    "into a model-building call. The two Haldane builders are compared as siblings after resolving local temporaries: "
    "lattice, orbital positions, on-site list and the multiset of (amplitude, i, j, R). In get_system_tb_py every "
    "accumulation into H(R) must have its Hermitian partner at −R in the same block, for the tbmodels branch and both "
    "nspin arms of the pythtb branch. Not decided: numerical equality of band energies with the source package.")

MD = "wannierberri/models.py"
TP = "wannierberri/system/system_tb_py.py"

BUILD_CALLS = ("set_hop", "add_hop", "set_onsite", "add_on_site", "set_on_site", "Model", "TBModel", "tb_model", "Lattice")


def _resolve_text(du, e: ast.AST, at: int, depth: int = 5) -> str:
    """norm(e) with local single-definition temporaries substituted (t2 → hop2 * np.exp(1j * phi))."""
    if depth == 0:
        return norm(e)

    class Sub(ast.NodeTransformer):
        def visit_Name(self, n):
            if isinstance(n.ctx, ast.Load):
                d = du.single_def(n.id, at)
                if d is not None and d.kind == "assign" and d.value is not None and not isinstance(d.value, ast.Constant):
                    return ast.parse("(" + _resolve_text(du, d.value, d.node, depth - 1) + ")", mode="eval").body
            return n
    import copy
    t = Sub().visit(copy.deepcopy(e))
    return norm(ast.fix_missing_locations(t)).replace("1j", "1j").replace("1.0j", "1j")


def _const(e: ast.AST):
    try:
        return ast.literal_eval(e)
    except Exception:
        return None


def _fold_num(e: ast.AST):
    """Fold numeric literal expressions (1. / 3., np.sqrt(3.0) / 2.0) to floats; lists recursively."""
    if isinstance(e, (ast.List, ast.Tuple)):
        return [_fold_num(x) for x in e.elts]
    if isinstance(e, ast.Constant) and isinstance(e.value, (int, float)):
        return float(e.value)
    if isinstance(e, ast.UnaryOp) and isinstance(e.op, ast.USub):
        return -_fold_num(e.operand)
    if isinstance(e, ast.BinOp):
        a, b = _fold_num(e.left), _fold_num(e.right)
        if isinstance(e.op, ast.Div):
            return a / b
        if isinstance(e.op, ast.Mult):
            return a * b
        if isinstance(e.op, ast.Add):
            return a + b
        if isinstance(e.op, ast.Sub):
            return a - b
    if isinstance(e, ast.Call) and call_name(e) in ("np.sqrt", "numpy.sqrt", "math.sqrt") and e.args:
        return _fold_num(e.args[0]) ** 0.5
    raise AnalysisError(f"cannot fold numeric literal {norm1(e)}")


def _model_description(f, idx=None) -> Dict[str, object]:
    if idx is not None:
        f = inline_private_helpers(idx, f)
    cfg, du, pm = fctx(f)
    S = Sem(idx, f)
    hops = []
    onsite = None
    lat = pos = None
    for c in ast.walk(f.node):
        if not isinstance(c, ast.Call) or not isinstance(c.func, ast.Attribute):
            continue
        at = None
        if c.func.attr in ("set_hop", "add_hop") and len(c.args) >= 4:
            at = du.node_of_expr(c)
            lp = enclosing(pm, c, ast.For)
            envs = [dict()]
            if lp is not None:
                els = list_elements(S, lp.iter, cfg.node(lp))
                if els is None:
                    raise AnalysisError(f"{f.short}: cannot enumerate the hopping table `{norm1(lp.iter)}`")
                envs = []
                for el in els:
                    b_ = bind_target(lp.target, el, {})
                    if b_ is None:
                        raise AnalysisError(f"{f.short}: hopping table entries do not match the loop target")
                    envs.append(b_)
            for env in envs:
                a0, a1, a2, a3 = (S._subst(x, env) for x in c.args[:4])
                amp = _resolve_text(du, a0, at)
                r_ = _const(a3)
                if r_ is None or _const(a1) is None or _const(a2) is None:
                    raise AnalysisError(f"{f.short}: hopping `{norm1(c)}` has non-literal sites / lattice vector")
                hops.append((amp, _const(a1), _const(a2), tuple(r_)))
        if c.func.attr in ("set_onsite",) and c.args:
            at = du.node_of_expr(c)
            onsite = _resolve_text(du, c.args[0], at)
    for c in ast.walk(f.node):
        if isinstance(c, ast.Call):
            for k in c.keywords:
                if k.arg == "on_site":
                    onsite = _resolve_text(du, k.value, du.node_of_expr(c))
                if k.arg in ("uc", "lat_vecs"):
                    v = du.resolve_local(k.value, du.node_of_expr(c))
                    lat = _fold_num(v)
                if k.arg in ("pos", "orb_vecs"):
                    v = du.resolve_local(k.value, du.node_of_expr(c))
                    pos = _fold_num(v)
    return {"hops": sorted(hops, key=str), "onsite": onsite, "lat": lat, "pos": pos}


def run(ctx) -> None:
    idx = ctx.index
    mod = idx.module(MD)

    # ---------------------------------------------------------------- R32.1
    r1 = ctx.rule("R32.1", "builder parameters are live (not shadowed by a constant before use)", min_instances=6)
    for f in mod.functions.values():
        src = norm(f.node)
        if not any(("." + b + "(") in src for b in BUILD_CALLS):
            continue
        cfg, du, pm = fctx(f)
        r1.instance(f.short)
        for p in f.params:
            # loads of p and which definitions reach them
            param_reaches = False
            any_load = False
            killers = []
            for n, d in cfg.g.nodes(data=True):
                s = d["stmt"]
                if s is None:
                    continue
                from ..defuse import header_exprs
                for h in header_exprs(s):
                    if h is None:
                        continue
                    for x in walk_no_nested(h):
                        if isinstance(x, ast.Name) and x.id == p and isinstance(x.ctx, ast.Load):
                            any_load = True
                            for df in du.reaching(p, n):
                                if df.kind == "param":
                                    param_reaches = True
                                else:
                                    killers.append(df)
            # nested helper functions may read the parameter as a free variable
            nested_use = any(isinstance(x, ast.Name) and x.id == p for sub in ast.walk(f.node)
                             if isinstance(sub, (ast.FunctionDef, ast.Lambda)) and sub is not f.node for x in ast.walk(sub))
            if param_reaches or nested_use:
                r1.ok(f"{f.name}({p}): the argument reaches a use")
            elif not any_load:
                r1.violation(f, f.node, f"parameter `{p}` of {f.name} is never used: the model does not depend on it",
                             stmt=f"parameter {p}")
            else:
                k = killers[0]
                r1.violation(f, k.stmt, f"parameter `{p}` of {f.name} is overwritten by `{norm1(k.stmt)}` before its first use: "
                             f"the argument is ignored and the model is always built with that value")

    # ---------------------------------------------------------------- R32.2
    r2 = ctx.rule("R32.2", "Haldane_ptb ≡ Haldane_tbm (lattice, sites, on-site, hop table)", min_instances=2)
    ft = idx.function(MD, "Haldane_tbm")
    fp = idx.function(MD, "Haldane_ptb")
    dt, dp = _model_description(ft, idx), _model_description(fp, idx)
    r2.instance(f"{ft.short}: {len(dt['hops'])} hops")
    r2.instance(f"{fp.short}: {len(dp['hops'])} hops")
    r2.check(ft.params == fp.params and [norm(d) for d in ft.node.args.defaults] == [norm(d) for d in fp.node.args.defaults],
             "same parameters and defaults", fp, fp.node, f"the two builders take different parameters/defaults: "
             f"{ft.params} vs {fp.params}", stmt="signature")
    for key, label in (("lat", "lattice vectors"), ("pos", "orbital positions"), ("onsite", "on-site energies")):
        r2.check(dt[key] is not None and dt[key] == dp[key], f"same {label}: {dt[key]}", fp, fp.node,
                 f"{label} differ: tbmodels {dt[key]} vs pythtb {dp[key]}", stmt=label)
    if dt["hops"] != dp["hops"]:
        only_t = [h for h in dt["hops"] if h not in dp["hops"]]
        only_p = [h for h in dp["hops"] if h not in dt["hops"]]
        r2.violation(fp, fp.node, f"hop tables differ: only in Haldane_tbm {only_t}; only in Haldane_ptb {only_p}",
                     stmt=f"hops {only_p}")
    else:
        r2.ok(f"same multiset of {len(dt['hops'])} hops (amplitude, i, j, R)", dt["hops"][:3])

    # ---------------------------------------------------------------- R32.3
    r3 = ctx.rule("R32.3", "Hermitian insertion of hoppings; R list closed under negation", min_instances=2)
    g = idx.function(TP, "get_system_tb_py")
    cfg, du, pm = fctx(g)
    S3 = Sem(idx, g)
    R0_FORMS = ("system.rvec.iR0", "system.rvec.iR((0, 0, 0))", "system.rvec.iR([0, 0, 0])")

    def r_index(t: ast.Subscript, st: ast.stmt) -> str:
        sl = t.slice
        first = sl.elts[0] if isinstance(sl, ast.Tuple) else sl
        S3.keep_names = {"system"}
        try:
            return norm(S3.resolve(first, cfg.node(st)))
        finally:
            S3.keep_names = set()

    augs = [s for s in stmts(g.node) if isinstance(s, ast.AugAssign) and isinstance(s.op, ast.Add)
            and isinstance(s.target, ast.Subscript) and norm(s.target.value) == "Ham_R"
            and r_index(s.target, s) not in R0_FORMS]
    by_block: Dict[int, List[ast.AugAssign]] = {}
    for s in augs:
        by_block.setdefault(id(pm[s]) if not isinstance(pm[s], ast.If) else id(pm[s]) * 2 + (1 if s in pm[s].orelse else 0), []).append(s)
    # group by the enclosing statement list
    groups: List[List[ast.AugAssign]] = []
    for s in augs:
        parent = pm[s]
        body = parent.body if s in getattr(parent, "body", []) else parent.orelse
        grp = [x for x in body if x in augs]
        if grp not in groups:
            groups.append(grp)
    # hoppings are accumulated, never assigned: several hoppings may land on the same (R, i, j), and a source model may hold both R and −R
    plain = [s for s in stmts(g.node) if isinstance(s, ast.Assign) and len(s.targets) == 1 and isinstance(s.targets[0], ast.Subscript)
             and norm(s.targets[0].value) == "Ham_R" and enclosing(pm, s, ast.For) is not None and r_index(s.targets[0], s) not in R0_FORMS
             and not any(isinstance(n_, ast.Attribute) and "site_energ" in n_.attr for n_ in ast.walk(s.value))]
    for s in plain:
        r3.instance(f"{g.short}: {norm1(s, 60)}")
        r3.violation(g, s, f"`{norm1(s, 80)}` ASSIGNS a hopping block into Ham_R inside the loop over hoppings instead of accumulating it: an entry of the "
                     f"source model at −R (or a second hopping between the same orbitals) overwrites what was stored before, so the imported H(k) differs "
                     f"from the source model", stmt="hopping assigned, not accumulated")
    branches = set()
    for grp in groups:
        for t_, p_, _n in S3.conditions(grp[0], resolve=False):
            if p_ and "module" in t_:
                branches.add(t_)
    if not plain and (len(groups) < 2 or len(branches) < 2):
        raise AnalysisError(f"get_system_tb_py: expected hopping-insertion blocks for both source packages, found {len(groups)} block(s) under {sorted(branches)}")

    def idx_parts(t: ast.Subscript) -> List[str]:
        sl = t.slice
        return [norm(x) for x in (sl.elts if isinstance(sl, ast.Tuple) else [sl])]

    CONJ = ("conjugate", "conj")

    def peel(e: ast.AST) -> Tuple[ast.AST, int, int]:
        """strip conjugations and transpositions: (core, #conj, #transpose)"""
        c = t = 0
        while True:
            if isinstance(e, ast.Call) and call_name(e) in ("np.conjugate", "np.conj", "numpy.conjugate", "numpy.conj") and len(e.args) == 1:
                e = e.args[0]; c += 1
            elif isinstance(e, ast.Call) and isinstance(e.func, ast.Attribute) and e.func.attr in CONJ and not e.args:
                e = e.func.value; c += 1
            elif isinstance(e, ast.Attribute) and e.attr == "T":
                e = e.value; t += 1
            elif isinstance(e, ast.Attribute) and e.attr == "H":
                e = e.value; t += 1; c += 1
            elif isinstance(e, ast.Call) and call_name(e) in ("np.transpose", "numpy.transpose") and len(e.args) == 1 and not e.keywords:
                e = e.args[0]; t += 1
            elif isinstance(e, ast.Call) and isinstance(e.func, ast.Attribute) and e.func.attr == "transpose" and not e.args and not e.keywords:
                e = e.func.value; t += 1
            else:
                return e, c, t

    def neg_diff(x: ast.AST, y: ast.AST) -> Optional[int]:
        """number of places where y has −E (or np.negative(E)) and x has E; None when they differ in any other way"""
        if isinstance(y, ast.UnaryOp) and isinstance(y.op, ast.USub) and not (isinstance(x, ast.UnaryOp) and isinstance(x.op, ast.USub)):
            return 1 if norm(y.operand) == norm(x) else None
        if isinstance(y, ast.Call) and call_name(y) in ("np.negative", "numpy.negative") and len(y.args) == 1 and norm(y.args[0]) == norm(x):
            return 1
        if type(x) is not type(y):
            return None
        tot = 0
        for (fx, vx), (fy, vy) in zip(ast.iter_fields(x), ast.iter_fields(y)):
            if isinstance(vx, ast.AST) and isinstance(vy, ast.AST):
                d = neg_diff(vx, vy)
                if d is None:
                    return None
                tot += d
            elif isinstance(vx, list) and isinstance(vy, list):
                if len(vx) != len(vy):
                    return None
                for ex, ey in zip(vx, vy):
                    if isinstance(ex, ast.AST) and isinstance(ey, ast.AST):
                        d = neg_diff(ex, ey)
                        if d is None:
                            return None
                        tot += d
                    elif ex != ey:
                        return None
            elif vx != vy and fx not in ("lineno", "col_offset", "end_lineno", "end_col_offset", "ctx"):
                return None
        return tot

    def sub_parts(t: ast.Subscript) -> List[ast.AST]:
        sl = t.slice
        return list(sl.elts) if isinstance(sl, ast.Tuple) else [sl]

    for grp in groups:
        r3.instance(f"{g.short}: {'; '.join(norm1(s, 50) for s in grp)}")
        if len(grp) != 2:
            r3.violation(g, grp[0], f"hopping block has {len(grp)} accumulation(s) into Ham_R; a forward term and its Hermitian "
                         f"partner are required")
            continue
        a, b = grp
        keep = set(names_in(a.value))
        S3.keep_names = keep
        core_a, ca, ta_ = peel(S3.resolve(a.value, cfg.node(a)))
        core_b, cb, tb_ = peel(S3.resolve(b.value, cfg.node(b)))
        S3.keep_names = set()
        if (ca % 2 == 1) and (cb % 2 == 0):        # the partner was written first
            a, b = b, a
            core_a, ca, ta_, core_b, cb, tb_ = core_b, cb, tb_, core_a, ca, ta_
        pa, pb = idx_parts(a.target), idx_parts(b.target)
        qa, qb = sub_parts(a.target), sub_parts(b.target)
        ra = S3.resolve(qa[0], cfg.node(a))
        rb = S3.resolve(qb[0], cfg.node(b))
        nd = neg_diff(ra, rb)
        if nd is None and isinstance(ra, ast.Subscript) and isinstance(rb, ast.Subscript) and norm(ra.value) == norm(rb.value) and isinstance(ra.value, ast.Call) \
                and isinstance(ra.slice, ast.Constant) and isinstance(rb.slice, ast.Constant) and isinstance(ra.value.func, ast.Name):
            # (iR, inR) = _helper(...): compare the two elements of the tuple the helper returns
            hf = g.module.functions.get(ra.value.func.id)
            hrets = [x for x in ast.walk(hf.node) if isinstance(x, ast.Return) and isinstance(x.value, ast.Tuple)] if hf is not None else []
            if len(hrets) == 1 and max(ra.slice.value, rb.slice.value) < len(hrets[0].value.elts):
                nd = neg_diff(hrets[0].value.elts[ra.slice.value], hrets[0].value.elts[rb.slice.value])
        if nd is None and norm(ra) != norm(rb):
            # both are index look-ups `<rvec>.iR(X)` / `<rvec>.iR(Y)` of plain (possibly negated) local vectors: Y must be −X of the SAME vector
            def lookup_arg(q_, st_):
                e_ = q_
                if isinstance(e_, ast.Name):
                    d_ = du.single_def(e_.id, cfg.node(st_))
                    e_ = d_.value if d_ is not None and d_.kind == "assign" and d_.value is not None else e_
                if isinstance(e_, ast.Call) and isinstance(e_.func, ast.Attribute) and e_.func.attr in ("iR", "index_R", "index") and len(e_.args) == 1:
                    x_ = e_.args[0]
                    sg_ = 1
                    while isinstance(x_, ast.UnaryOp) and isinstance(x_.op, ast.USub):
                        x_, sg_ = x_.operand, -sg_
                    if isinstance(x_, ast.Call) and call_name(x_) == "tuple" and len(x_.args) == 1:
                        x_ = x_.args[0]
                        while isinstance(x_, ast.UnaryOp) and isinstance(x_.op, ast.USub):
                            x_, sg_ = x_.operand, -sg_
                    if isinstance(x_, ast.Name):
                        # an unmodified copy / alias of another vector is that vector
                        nm_ = x_.id
                        for _i in range(3):
                            if nm_ in S3._mutated:
                                break
                            dd_ = du.single_def(nm_, cfg.node(st_))
                            v2_ = dd_.value if dd_ is not None and dd_.kind == "assign" else None
                            if isinstance(v2_, ast.Call) and ((isinstance(v2_.func, ast.Attribute) and v2_.func.attr == "copy" and isinstance(v2_.func.value, ast.Name) and not v2_.args)
                                                              or (call_name(v2_) in ("np.array", "np.copy", "np.asarray") and len(v2_.args) == 1 and isinstance(v2_.args[0], ast.Name))):
                                nm_ = v2_.func.value.id if isinstance(v2_.func, ast.Attribute) and v2_.func.attr == "copy" else v2_.args[0].id
                            elif isinstance(v2_, ast.Name):
                                nm_ = v2_.id
                            else:
                                break
                        return norm(e_.func.value), nm_, sg_
                return None
            la_, lb_ = lookup_arg(qa[0], a), lookup_arg(qb[0], b)
            if la_ is not None and lb_ is not None and la_[0] == lb_[0]:
                if la_[1] == lb_[1]:
                    nd = la_[2] * lb_[2] == -1
                else:
                    r3.violation(g, b, f"the forward block is stored at the R-vector `{la_[1]}` but its Hermitian partner at `{'-' if lb_[2] < 0 else ''}{lb_[1]}`, a different "
                                 f"vector: H_ij(R) and H_ji(−R) are no longer conjugates of each other whenever `{la_[1]}` ≠ `{lb_[1]}` (the imported H(k) is not "
                                 f"Hermitian or the index of −R does not exist)")
                    continue
        if nd is None and norm(ra) != norm(rb):
            raise AnalysisError(f"get_system_tb_py: cannot relate the R indices `{norm1(ra, 90)}` and `{norm1(rb, 90)}` of a hopping block")
        neg_ok = bool(nd)
        swap_ok = (pa[1:] == pb[1:][::-1]) if len(pa) == 3 else (len(pa) == 1 and len(pb) == 1)
        def is_slice(x_):
            if isinstance(x_, ast.Slice):
                return True
            r_ = S3.resolve(x_, cfg.node(a)) if isinstance(x_, ast.Name) else x_
            return isinstance(r_, ast.Call) and call_name(r_) == "slice"
        needs_T = len(pa) == 1 or any(is_slice(x) for x in qa[1:])
        conj_ok = norm(core_a) == norm(core_b) and (cb - ca) % 2 == 1
        if needs_T:
            conj_ok = conj_ok and (tb_ - ta_) % 2 == 1
        r3.check(neg_ok and swap_ok and conj_ok, f"H(R)[{','.join(pa[1:])}] += t  ↔  H(−R)[{','.join(pb[1:])}] += conj(t)",
                 g, b, f"the partner of `{norm1(a)}` is `{norm1(b)}`: it is not the Hermitian conjugate at −R "
                 f"(−R: {neg_ok}, indices swapped: {swap_ok}, conjugate{'-transpose' if needs_T else ''}: {conj_ok}); the "
                 f"imported H(k) is not Hermitian / differs from the source model")
    tg = norm(g.node)
    # the R list handed to Rvectors contains E and −E for the hop vectors E (closed under negation)
    rv_calls = calls(g.node, "Rvectors")
    if len(rv_calls) != 1:
        raise AnalysisError(f"get_system_tb_py: expected one Rvectors(...) construction, found {len(rv_calls)}")
    arg = kwarg(rv_calls[0], "iRvec", 1)
    if arg is None:
        raise AnalysisError("get_system_tb_py: Rvectors(...) has no iRvec argument")
    at_rv = du.node_of_expr(rv_calls[0])
    exprs, _params, _defs = du.backward_slice(arg, at_rv)
    STACK = ("np.vstack", "np.concatenate", "np.row_stack", "numpy.vstack", "numpy.concatenate")
    closed = False
    n_stack = 0
    for ex in exprs:
        for c in ast.walk(ex):
            if isinstance(c, ast.Call) and call_name(c) in STACK and c.args and isinstance(c.args[0], (ast.Tuple, ast.List)):
                n_stack += 1
                els = c.args[0].elts
                if any(neg_diff(x, y) == 1 for x in els for y in els if x is not y):
                    closed = True
    r3.check(closed, "R list ⊇ {R, −R} for every hop vector", g, g.node,
             "the R-vector list is no longer closed under R → −R (index of −R may not exist)", stmt="iRvec closure")
    # on-site energies: every statement that reads the model's site energies stores them on the diagonal of H(R=0), directly
    # or through a complex-typed local buffer that is then stored at R=0
    def mentions_onsite(e: ast.AST) -> bool:
        return any(isinstance(n, ast.Attribute) and ("site_energ" in n.attr or "onsite" in n.attr.lower()) for n in ast.walk(e))

    def ham_target(st: ast.stmt) -> Optional[ast.Subscript]:
        t = st.targets[0] if isinstance(st, ast.Assign) and len(st.targets) == 1 else st.target if isinstance(st, ast.AugAssign) else None
        return t if isinstance(t, ast.Subscript) and norm(t.value) == "Ham_R" else None

    def diag_ok(t: ast.Subscript, lead: int) -> bool:
        parts = idx_parts(t)[lead:]
        return len(parts) == 2 and parts[0] == parts[1]

    COMPLEX = ("complex", "np.complex128", "np.complex_", "np.cdouble", "'complex'", "'complex128'", "numpy.complex128")
    srcs = [s for s in stmts(g.node) if isinstance(s, (ast.Assign, ast.AugAssign)) and s.value is not None and mentions_onsite(s.value)
            and not isinstance((s.targets[0] if isinstance(s, ast.Assign) else s.target), ast.Name)]
    n_on = 0
    for s in srcs:
        t = s.targets[0] if isinstance(s, ast.Assign) else s.target
        ht = ham_target(s)
        if ht is not None:
            n_on += 1
            r0 = r_index(ht, s)
            r3.check(r0 in R0_FORMS and diag_ok(ht, 1), "on-site energies go to the diagonal of H(R=0)", g, s,
                     f"on-site energies are stored at `{norm1(ht)}` (R index resolves to `{r0}`)")
            continue
        if not (isinstance(t, ast.Subscript) and isinstance(t.value, ast.Name)):
            continue
        buf = t.value.id
        sinks = [x for x in stmts(g.node) if ham_target(x) is not None and buf in names_in(x.value)]
        if not sinks:
            continue
        n_on += 1
        r3.check(diag_ok(t, 0), "on-site energies go to the diagonal of the buffer", g, s,
                 f"on-site energies are stored at `{norm1(t)}`, not on the diagonal")
        for x in sinks:
            r0 = r_index(ham_target(x), x)
            r3.check(r0 in R0_FORMS and len(idx_parts(ham_target(x))) == 1, "the on-site buffer is stored at H(R=0)", g, x,
                     f"the on-site buffer `{buf}` is stored at `{norm1(ham_target(x))}` (R index resolves to `{r0}`)")
        d = du.single_def(buf, cfg.node(s))
        made = d.value if d is not None else None
        dt = kwarg(made, "dtype", 1) if isinstance(made, ast.Call) else None
        like_ham = isinstance(made, ast.Call) and call_name(made).endswith("_like") and made.args and "Ham_R" in names_in(made.args[0])
        if not isinstance(made, ast.Call):
            r3.expect(False, "", g, s, f"cannot see how the on-site buffer `{buf}` is created")
        else:
            r3.check(like_ham or (dt is not None and norm(dt) in COMPLEX), "the on-site buffer is complex-typed", g, d.stmt if hasattr(d, "stmt") else s,
                     f"the on-site buffer `{buf}` is created as `{norm1(made)}` — a real array: the imaginary part of spinful 2×2 on-site "
                     f"blocks (σ_y component) is discarded before it reaches H(R=0)", stmt=f"{buf} = {norm1(made)}")
    r3.expect(n_on >= 1, "on-site energy stores located", g, g.node, "get_system_tb_py: no statement storing the model's site energies into Ham_R was found")


from ..selftest import V  # noqa: E402

SELFTEST = [
    V("partner stored at the negative of another vector (seeded C32-m6)", "wannierberri/system/system_tb_py.py", "            iR = system.rvec.iR(R)\n",
      "            R_home = R.copy()\n            R_home[:dimr] += 0\n            iR = system.rvec.iR(R_home)\n", "fire", "R32.3"),
    V("partner index through an unmodified copy of the vector", "wannierberri/system/system_tb_py.py", "            inR = system.rvec.iR(-R)\n",
      "            R_neg = R.copy()\n            inR = system.rvec.iR(-R_neg)\n", "silent", "R32.3"),
    V("parameter shadowed by a constant (original defect)", MD, "    t2 = hop2 * np.exp(1.j * phi)\n    t2c = t2.conjugate()\n\n    my_model.set_onsite",
      "    delta = 0.2\n    t2 = hop2 * np.exp(1.j * phi)\n    t2c = t2.conjugate()\n\n    my_model.set_onsite", "fire", "R32.1"),
    V("phase parameter never used", MD,
      "    lat = [[1.0, 0.0], [0.5, np.sqrt(3.0) / 2.0]]\n    orb = [[1. / 3., 1. / 3.], [2. / 3., 2. / 3.]]\n    if version.parse(pythtb.__version__) < NEW_PYTHTB_VERSION:\n        my_model = pythtb.tb_model(2, 2, lat, orb)\n    else:\n        lattice = pythtb.Lattice(lat_vecs=lat, orb_vecs=orb, periodic_dirs=[0, 1])\n        my_model = pythtb.TBModel(lattice)\n\n    t2 = hop2 * np.exp(1.j * phi)",
      "    lat = [[1.0, 0.0], [0.5, np.sqrt(3.0) / 2.0]]\n    orb = [[1. / 3., 1. / 3.], [2. / 3., 2. / 3.]]\n    if version.parse(pythtb.__version__) < NEW_PYTHTB_VERSION:\n        my_model = pythtb.tb_model(2, 2, lat, orb)\n    else:\n        lattice = pythtb.Lattice(lat_vecs=lat, orb_vecs=orb, periodic_dirs=[0, 1])\n        my_model = pythtb.TBModel(lattice)\n\n    t2 = hop2 * np.exp(1.j * np.pi / 2)",
      "fire", "R32.1"),
    V("one next-nearest hop on the wrong sublattice in the PythTB twin", MD, "    my_model.set_hop(t2, 1, 1, [1, -1])\n", "    my_model.set_hop(t2, 0, 0, [1, -1])\n",
      "fire", "R32.2"),
    V("on-site sign flipped in the PythTB twin", MD, "    my_model.set_onsite([-delta, delta])\n    my_model.set_hop(hop1, 0, 1, [0, 0])",
      "    my_model.set_onsite([delta, -delta])\n    my_model.set_hop(hop1, 0, 1, [0, 0])", "fire", "R32.2"),
    V("orbital position changed in the TBmodels twin", MD, "        pos=[[1. / 3., 1. / 3.], [2. / 3., 2. / 3.]])",
      "        pos=[[1. / 3., 1. / 3.], [2. / 3., 1. / 3.]])", "fire", "R32.2"),
    V("Hermitian partner not conjugated (pythtb, nspin 1)", TP, "Ham_R[inR, j, i] += np.conjugate(amplitude)", "Ham_R[inR, j, i] += amplitude",
      "fire", "R32.3"),
    V("Hermitian partner at the same R", TP, "            inR = system.rvec.iR(-R)\n", "            inR = system.rvec.iR(R)\n", "fire", "R32.3"),
    V("spinor partner not transposed", TP, "+= np.conjugate(amplitude.T)", "+= np.conjugate(amplitude)", "fire", "R32.3"),
    V("tbmodels partner dropped", TP, "            Ham_R[inR] += np.conjugate(hops.T)\n", "", "fire", "R32.3"),
    V("R list not closed under negation", TP, "np.vstack((Rzero, iRvec, -iRvec))", "np.vstack((Rzero, iRvec, iRvec))", "fire", "R32.3"),
    V("on-site energies stored at a non-zero R", TP, "    index0 = system.rvec.iR0\n", "    index0 = system.rvec.iR0 + 1\n", "fire", "R32.3"),
    V("neutral: .conj().T spelling of the block partner", TP, "Ham_R[inR] += np.conjugate(hops.T)", "Ham_R[inR] += hops.conj().T", "silent"),
    V("neutral: −R looked up through a named temporary", TP, "            inR = system.rvec.iR(-R)\n", "            mR = -R\n            inR = system.rvec.iR(mR)\n", "silent"),
    V("on-site energies collected in a real-typed buffer", TP, "        for i in range(norb_loc):\n            if model._nspin == 1:\n                Ham_R[index0, i, i] = model._site_energies[i]\n            elif model._nspin == 2:\n                Ham_R[index0, 2 * i:2 * i + 2, 2 * i:2 * i + 2] = model._site_energies[i]\n",
      "        onsite = np.zeros((system.num_wann, system.num_wann))\n        for i in range(norb_loc):\n            if model._nspin == 1:\n                onsite[i, i] = model._site_energies[i]\n            elif model._nspin == 2:\n                onsite[2 * i:2 * i + 2, 2 * i:2 * i + 2] = model._site_energies[i]\n        Ham_R[index0] += onsite\n", "fire", "R32.3"),
    V("neutral: on-site energies collected in a complex buffer", TP, "        for i in range(norb_loc):\n            if model._nspin == 1:\n                Ham_R[index0, i, i] = model._site_energies[i]\n            elif model._nspin == 2:\n                Ham_R[index0, 2 * i:2 * i + 2, 2 * i:2 * i + 2] = model._site_energies[i]\n",
      "        onsite = np.zeros((system.num_wann, system.num_wann), dtype=complex)\n        for i in range(norb_loc):\n            if model._nspin == 1:\n                onsite[i, i] = model._site_energies[i]\n            elif model._nspin == 2:\n                onsite[2 * i:2 * i + 2, 2 * i:2 * i + 2] = model._site_energies[i]\n        Ham_R[index0] += onsite\n", "silent"),
    V("tbmodels hoppings assigned instead of accumulated (seeded C32-m3)", TP, "            Ham_R[iR] += hops\n            Ham_R[inR] += np.conjugate(hops.T)\n",
      "            Ham_R[iR] = hops\n            Ham_R[inR] = np.conjugate(hops.T)\n", "fire", "R32.3"),
    V("neutral: np.conj spelling", TP, "Ham_R[inR, j, i] += np.conjugate(amplitude)", "Ham_R[inR, j, i] += np.conj(amplitude)", "silent"),
    V("neutral: hop order permuted in the PythTB twin", MD,
      "    my_model.set_hop(t2, 0, 0, [1, 0])\n    my_model.set_hop(t2, 1, 1, [1, -1])\n", "    my_model.set_hop(t2, 1, 1, [1, -1])\n    my_model.set_hop(t2, 0, 0, [1, 0])\n",
      "silent"),
]
