"""C32 — tight-binding imports reproduce the source model (structural clauses).

R32.1 every parameter of a bundled model builder is live: its value (not a constant that shadows it) reaches the model.
R32.2 the PythTB and TBmodels Haldane builders describe the same lattice, sites, on-site terms and hop table.
R32.3 hopping import: every H(R)[a,b] += t has the Hermitian partner H(−R)[b,a] += conj(t); the R list is closed under −R.
"""
from __future__ import annotations

import ast
from typing import Dict, List, Optional, Set, Tuple

from ..index import AnalysisError, call_name, dotted, norm, norm1, names_in, walk_no_nested
from .common import calls, enclosing, fctx, in_body, is_name, method_calls, stmts, store_targets

LEVEL = "other"
EXPLANATION = (
    "Reaching-definitions analysis over every builder in models.py: the parameter definition must reach at least one "
    "use (a constant re-assignment that kills it before its first use makes the argument dead), and the uses must flow "
    "into a model-building call. The two Haldane builders are compared as siblings after resolving local temporaries: "
    "lattice, orbital positions, on-site list and the multiset of (amplitude, i, j, R). In get_system_tb_py every "
    "accumulation into H(R) must have its Hermitian partner at −R in the same block, for the tbmodels branch and both "
    "nspin arms of the pythtb branch. Not decided: numerical equality of band energies with the source package.")

MD = "wannierberri/models.py"
TP = "wannierberri/system/system_tb_py.py"

BUILD_CALLS = ("set_hop", "add_hop", "set_onsite", "add_on_site", "set_on_site", "Model", "TBModel", "tb_model", "Lattice")


def _resolve_text(du, e: ast.AST, at: int, depth: int = 5) -> str:
    """norm(e) with local single-definition temporaries substituted (t2 → hop2 * np.exp(1j * phi))."""
    if depth == 0:
        return norm(e)

    class Sub(ast.NodeTransformer):
        def visit_Name(self, n):
            if isinstance(n.ctx, ast.Load):
                d = du.single_def(n.id, at)
                if d is not None and d.kind == "assign" and d.value is not None and not isinstance(d.value, ast.Constant):
                    return ast.parse("(" + _resolve_text(du, d.value, d.node, depth - 1) + ")", mode="eval").body
            return n
    import copy
    t = Sub().visit(copy.deepcopy(e))
    return norm(ast.fix_missing_locations(t)).replace("1j", "1j").replace("1.0j", "1j")


def _const(e: ast.AST):
    try:
        return ast.literal_eval(e)
    except Exception:
        return None


def _fold_num(e: ast.AST):
    """Fold numeric literal expressions (1. / 3., np.sqrt(3.0) / 2.0) to floats; lists recursively."""
    if isinstance(e, (ast.List, ast.Tuple)):
        return [_fold_num(x) for x in e.elts]
    if isinstance(e, ast.Constant) and isinstance(e.value, (int, float)):
        return float(e.value)
    if isinstance(e, ast.UnaryOp) and isinstance(e.op, ast.USub):
        return -_fold_num(e.operand)
    if isinstance(e, ast.BinOp):
        a, b = _fold_num(e.left), _fold_num(e.right)
        if isinstance(e.op, ast.Div):
            return a / b
        if isinstance(e.op, ast.Mult):
            return a * b
        if isinstance(e.op, ast.Add):
            return a + b
        if isinstance(e.op, ast.Sub):
            return a - b
    if isinstance(e, ast.Call) and call_name(e) in ("np.sqrt", "numpy.sqrt", "math.sqrt") and e.args:
        return _fold_num(e.args[0]) ** 0.5
    raise AnalysisError(f"cannot fold numeric literal {norm1(e)}")


def _model_description(f) -> Dict[str, object]:
    cfg, du, pm = fctx(f)
    hops = []
    onsite = None
    lat = pos = None
    for c in ast.walk(f.node):
        if not isinstance(c, ast.Call) or not isinstance(c.func, ast.Attribute):
            continue
        at = None
        if c.func.attr in ("set_hop", "add_hop") and len(c.args) >= 4:
            at = du.node_of_expr(c)
            amp = _resolve_text(du, c.args[0], at)
            hops.append((amp, _const(c.args[1]), _const(c.args[2]), tuple(_const(c.args[3]))))
        if c.func.attr in ("set_onsite",) and c.args:
            at = du.node_of_expr(c)
            onsite = _resolve_text(du, c.args[0], at)
    for c in ast.walk(f.node):
        if isinstance(c, ast.Call):
            for k in c.keywords:
                if k.arg == "on_site":
                    onsite = _resolve_text(du, k.value, du.node_of_expr(c))
                if k.arg in ("uc", "lat_vecs"):
                    v = du.resolve_local(k.value, du.node_of_expr(c))
                    lat = _fold_num(v)
                if k.arg in ("pos", "orb_vecs"):
                    v = du.resolve_local(k.value, du.node_of_expr(c))
                    pos = _fold_num(v)
    return {"hops": sorted(hops, key=str), "onsite": onsite, "lat": lat, "pos": pos}


def run(ctx) -> None:
    idx = ctx.index
    mod = idx.module(MD)

    # ---------------------------------------------------------------- R32.1
    r1 = ctx.rule("R32.1", "builder parameters are live (not shadowed by a constant before use)", min_instances=6)
    for f in mod.functions.values():
        src = norm(f.node)
        if not any(("." + b + "(") in src for b in BUILD_CALLS):
            continue
        cfg, du, pm = fctx(f)
        r1.instance(f.short)
        for p in f.params:
            # loads of p and which definitions reach them
            param_reaches = False
            any_load = False
            killers = []
            for n, d in cfg.g.nodes(data=True):
                s = d["stmt"]
                if s is None:
                    continue
                from ..defuse import header_exprs
                for h in header_exprs(s):
                    if h is None:
                        continue
                    for x in walk_no_nested(h):
                        if isinstance(x, ast.Name) and x.id == p and isinstance(x.ctx, ast.Load):
                            any_load = True
                            for df in du.reaching(p, n):
                                if df.kind == "param":
                                    param_reaches = True
                                else:
                                    killers.append(df)
            # nested helper functions may read the parameter as a free variable
            nested_use = any(isinstance(x, ast.Name) and x.id == p for sub in ast.walk(f.node)
                             if isinstance(sub, (ast.FunctionDef, ast.Lambda)) and sub is not f.node for x in ast.walk(sub))
            if param_reaches or nested_use:
                r1.ok(f"{f.name}({p}): the argument reaches a use")
            elif not any_load:
                r1.violation(f, f.node, f"parameter `{p}` of {f.name} is never used: the model does not depend on it",
                             stmt=f"parameter {p}")
            else:
                k = killers[0]
                r1.violation(f, k.stmt, f"parameter `{p}` of {f.name} is overwritten by `{norm1(k.stmt)}` before its first use: "
                             f"the argument is ignored and the model is always built with that value")

    # ---------------------------------------------------------------- R32.2
    r2 = ctx.rule("R32.2", "Haldane_ptb ≡ Haldane_tbm (lattice, sites, on-site, hop table)", min_instances=2)
    ft = idx.function(MD, "Haldane_tbm")
    fp = idx.function(MD, "Haldane_ptb")
    dt, dp = _model_description(ft), _model_description(fp)
    r2.instance(f"{ft.short}: {len(dt['hops'])} hops")
    r2.instance(f"{fp.short}: {len(dp['hops'])} hops")
    r2.check(ft.params == fp.params and [norm(d) for d in ft.node.args.defaults] == [norm(d) for d in fp.node.args.defaults],
             "same parameters and defaults", fp, fp.node, f"the two builders take different parameters/defaults: "
             f"{ft.params} vs {fp.params}", stmt="signature")
    for key, label in (("lat", "lattice vectors"), ("pos", "orbital positions"), ("onsite", "on-site energies")):
        r2.check(dt[key] is not None and dt[key] == dp[key], f"same {label}: {dt[key]}", fp, fp.node,
                 f"{label} differ: tbmodels {dt[key]} vs pythtb {dp[key]}", stmt=label)
    if dt["hops"] != dp["hops"]:
        only_t = [h for h in dt["hops"] if h not in dp["hops"]]
        only_p = [h for h in dp["hops"] if h not in dt["hops"]]
        r2.violation(fp, fp.node, f"hop tables differ: only in Haldane_tbm {only_t}; only in Haldane_ptb {only_p}",
                     stmt=f"hops {only_p}")
    else:
        r2.ok(f"same multiset of {len(dt['hops'])} hops (amplitude, i, j, R)", dt["hops"][:3])

    # ---------------------------------------------------------------- R32.3
    r3 = ctx.rule("R32.3", "Hermitian insertion of hoppings; R list closed under negation", min_instances=3)
    g = idx.function(TP, "get_system_tb_py")
    cfg, du, pm = fctx(g)
    augs = [s for s in stmts(g.node) if isinstance(s, ast.AugAssign) and isinstance(s.op, ast.Add)
            and isinstance(s.target, ast.Subscript) and norm(s.target.value) == "Ham_R"]
    by_block: Dict[int, List[ast.AugAssign]] = {}
    for s in augs:
        by_block.setdefault(id(pm[s]) if not isinstance(pm[s], ast.If) else id(pm[s]) * 2 + (1 if s in pm[s].orelse else 0), []).append(s)
    # group by the enclosing statement list
    groups: List[List[ast.AugAssign]] = []
    for s in augs:
        parent = pm[s]
        body = parent.body if s in getattr(parent, "body", []) else parent.orelse
        grp = [x for x in body if x in augs]
        if grp not in groups:
            groups.append(grp)
    if len(groups) < 3:
        raise AnalysisError(f"get_system_tb_py: expected ≥3 hopping-insertion blocks, found {len(groups)}")

    def idx_parts(t: ast.Subscript) -> List[str]:
        sl = t.slice
        return [norm(x) for x in (sl.elts if isinstance(sl, ast.Tuple) else [sl])]

    for grp in groups:
        r3.instance(f"{g.short}: {'; '.join(norm1(s, 50) for s in grp)}")
        if len(grp) != 2:
            r3.violation(g, grp[0], f"hopping block has {len(grp)} accumulation(s) into Ham_R; a forward term and its Hermitian "
                         f"partner are required")
            continue
        a, b = grp
        pa, pb = idx_parts(a.target), idx_parts(b.target)
        # R index: a uses iR-like, b uses inR-like → resolve their definitions
        def rdef(name):
            d = du.single_def(name, cfg.node(a)) if name.isidentifier() else None
            return norm(d.value).replace(" ", "") if d is not None and d.value is not None else name
        ra, rb = rdef(pa[0]), rdef(pb[0])
        neg_ok = ("(-R" in rb and "(R" in ra) or ("-R[None" in rb and "R[None" in ra and "-R[None" not in ra)
        swap_ok = (pa[1:] == pb[1:][::-1]) if len(pa) == 3 else (len(pa) == 1 and len(pb) == 1)
        vb = norm(b.value).replace(" ", "")
        va = norm(a.value).replace(" ", "")
        conj_ok = vb in (f"np.conjugate({va})", f"np.conj({va})", f"{va}.conjugate()", f"np.conjugate({va}.T)",
                         f"np.conj({va}.T)", f"{va}.conj().T", f"{va}.T.conj()")
        needs_T = len(pa) == 1 or any(":" in x for x in pa[1:])
        if needs_T:
            conj_ok = conj_ok and ".T" in vb
        r3.check(neg_ok and swap_ok and conj_ok, f"H(R)[{','.join(pa[1:])}] += t  ↔  H(−R)[{','.join(pb[1:])}] += conj(t)",
                 g, b, f"the partner of `{norm1(a)}` is `{norm1(b)}`: it is not the Hermitian conjugate at −R "
                 f"(−R: {neg_ok}, indices swapped: {swap_ok}, conjugate{'-transpose' if needs_T else ''}: {conj_ok}); the "
                 f"imported H(k) is not Hermitian / differs from the source model")
    tg = norm(g.node)
    r3.check("np.vstack((Rzero, iRvec, -iRvec))" in tg and "np.unique(iRvec, axis=0)" in tg,
             "R list = unique{0, R, −R}", g, g.node, "the R-vector list is no longer closed under R → −R (index of −R may not exist)",
             stmt="iRvec closure")
    ons = [s for s in stmts(g.node) if isinstance(s, ast.Assign) and isinstance(s.targets[0], ast.Subscript)
           and norm(s.targets[0].value) == "Ham_R" and "_site_energies" in norm(s.value)]
    for s in ons:
        parts = idx_parts(s.targets[0])
        r3.check(parts[0] == "index0" and parts[1] == parts[2], "on-site energies go to the diagonal of H(R=0)", g, s,
                 f"on-site energies are stored at `{norm1(s.targets[0])}`")
    r3.check("index0 = system.rvec.iR0" in tg, "index0 is the index of R=0", g, g.node, "index0 is no longer rvec.iR0",
             stmt="index0")


from ..selftest import V  # noqa: E402

SELFTEST = [
    V("parameter shadowed by a constant (original defect)", MD, "    t2 = hop2 * np.exp(1.j * phi)\n    t2c = t2.conjugate()\n\n    my_model.set_onsite",
      "    delta = 0.2\n    t2 = hop2 * np.exp(1.j * phi)\n    t2c = t2.conjugate()\n\n    my_model.set_onsite", "fire", "R32.1"),
    V("phase parameter never used", MD,
      "    lat = [[1.0, 0.0], [0.5, np.sqrt(3.0) / 2.0]]\n    orb = [[1. / 3., 1. / 3.], [2. / 3., 2. / 3.]]\n    if version.parse(pythtb.__version__) < NEW_PYTHTB_VERSION:\n        my_model = pythtb.tb_model(2, 2, lat, orb)\n    else:\n        lattice = pythtb.Lattice(lat_vecs=lat, orb_vecs=orb, periodic_dirs=[0, 1])\n        my_model = pythtb.TBModel(lattice)\n\n    t2 = hop2 * np.exp(1.j * phi)",
      "    lat = [[1.0, 0.0], [0.5, np.sqrt(3.0) / 2.0]]\n    orb = [[1. / 3., 1. / 3.], [2. / 3., 2. / 3.]]\n    if version.parse(pythtb.__version__) < NEW_PYTHTB_VERSION:\n        my_model = pythtb.tb_model(2, 2, lat, orb)\n    else:\n        lattice = pythtb.Lattice(lat_vecs=lat, orb_vecs=orb, periodic_dirs=[0, 1])\n        my_model = pythtb.TBModel(lattice)\n\n    t2 = hop2 * np.exp(1.j * np.pi / 2)",
      "fire", "R32.1"),
    V("one next-nearest hop on the wrong sublattice in the PythTB twin", MD, "    my_model.set_hop(t2, 1, 1, [1, -1])\n", "    my_model.set_hop(t2, 0, 0, [1, -1])\n",
      "fire", "R32.2"),
    V("on-site sign flipped in the PythTB twin", MD, "    my_model.set_onsite([-delta, delta])", "    my_model.set_onsite([delta, -delta])", "fire", "R32.2"),
    V("orbital position changed in the TBmodels twin", MD, "        pos=[[1. / 3., 1. / 3.], [2. / 3., 2. / 3.]])",
      "        pos=[[1. / 3., 1. / 3.], [2. / 3., 1. / 3.]])", "fire", "R32.2"),
    V("Hermitian partner not conjugated (pythtb, nspin 1)", TP, "Ham_R[inR, j, i] += np.conjugate(amplitude)", "Ham_R[inR, j, i] += amplitude",
      "fire", "R32.3"),
    V("Hermitian partner at the same R", TP, "            inR = system.rvec.iR(-R)\n", "            inR = system.rvec.iR(R)\n", "fire", "R32.3"),
    V("spinor partner not transposed", TP, "+= np.conjugate(amplitude.T)", "+= np.conjugate(amplitude)", "fire", "R32.3"),
    V("tbmodels partner dropped", TP, "            Ham_R[inR] += np.conjugate(hops.T)\n", "", "fire", "R32.3"),
    V("neutral: np.conj spelling", TP, "Ham_R[inR, j, i] += np.conjugate(amplitude)", "Ham_R[inR, j, i] += np.conj(amplitude)", "silent"),
    V("neutral: hop order permuted in the PythTB twin", MD,
      "    my_model.set_hop(t2, 0, 0, [1, 0])\n    my_model.set_hop(t2, 1, 1, [1, -1])\n", "    my_model.set_hop(t2, 1, 1, [1, -1])\n    my_model.set_hop(t2, 0, 0, [1, 0])\n",
      "silent"),
]
