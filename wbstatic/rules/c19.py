"""C19 — Wannier90 file objects: text writers can be read back; npz persistence round-trips (structural clauses).

R19.1 `data` of a W90_file is a dict keyed by k-index: never subscripted with a tuple in the writers/comparers.
R19.2 every attribute read by a writer exists on the class.
R19.3 npz tag contract: every declared tag is a constructor parameter and an instance attribute.
R19.4 file-extension agreement between WannierData.to_npz / from_npz and the classes.
R19.5 text layout agreement writer ↔ reader (.eig/.amn/.mmn): header order, loop nest ↔ reshape, index ↔ transpose.
R19.6 equality of writable classes chains to the base comparison and adds its own dimension.
"""
from __future__ import annotations

import ast
from typing import Dict, List, Optional, Tuple

from ..index import AnalysisError, ClassInfo, call_name, dotted, norm, norm1, names_in, parent_map
from ..sem import Sem
from .attrs import class_str_attr, fold_class_list, undefined_self_attrs
from .common import calls, const_of, enclosing, enclosing_all, fctx, is_name, method_calls, pmatch, stmts

LEVEL = "other"
EXPLANATION = (
    "Class-hierarchy and AST rules over wannierberri/w90files: the container kind of `data` (dict keyed by k-index, "
    "established by W90_file.__init__) forbids tuple subscripts in writers; attribute definedness through the MRO; the "
    "npz tag lists are folded from the class bodies and compared with constructor parameters and stored attributes "
    "(from_dict calls cls(**dic), as_dict reads every tag); extensions are compared between WannierData.to_npz and "
    "from_npz; for the three text formats the writer's loop nest, written index tuple, header field order and per-line "
    "columns are composed with the reader's reshape/transpose/unpack and must give the identity. Not decided: "
    "printed-precision equality of the numbers.")

W90 = "wannierberri/w90files/"
WRITABLE = [("eig.py", "EIG"), ("amn.py", "AMN"), ("mmn.py", "MMN")]
SCOPE_METHODS = ("to_w90_file", "equals", "as_dict", "__init__")


def _subscript_chain(e: ast.AST) -> Tuple[ast.AST, List[ast.AST]]:
    """self.data[ik][ib, iw] → (self.data, [ik, ib, iw]) ; tuple subscripts flattened in order."""
    idxs: List[List[ast.AST]] = []
    while isinstance(e, ast.Subscript):
        sl = e.slice
        idxs.append(list(sl.elts) if isinstance(sl, ast.Tuple) else [sl])
        e = e.value
    flat: List[ast.AST] = []
    for grp in reversed(idxs):
        flat += grp
    return e, flat


_DICT_ITERS = {"self.data.items()": (True, False), "self.data": (False, False), "self.data.keys()": (False, False),
               "sorted(self.data.items())": (True, True), "sorted(self.data)": (False, True), "sorted(self.data.keys())": (False, True)}


def _loops(pm, n) -> List[Tuple[str, str, Optional[str]]]:
    """Enclosing loops, outer → inner, as (v, X, disorder). `for v in range(self.X)` → disorder None; a loop over the
    per-k dictionary itself → X = 'NK' and disorder = the iterable's text unless it is sorted(...)."""
    out = []
    for fl in reversed(enclosing_all(pm, n, ast.For)):
        it = fl.iter
        if isinstance(fl.target, ast.Name) and isinstance(it, ast.Call) and call_name(it) == "range" and len(it.args) == 1:
            out.append((fl.target.id, norm(it.args[0]).replace("self.", ""), None))
            continue
        t = norm(it).replace(" ", "")
        key = {k.replace(" ", ""): v for k, v in _DICT_ITERS.items()}.get(t)
        if key is not None:
            pairs, ordered = key
            tv = fl.target.elts[0] if pairs and isinstance(fl.target, ast.Tuple) and len(fl.target.elts) == 2 else fl.target
            if isinstance(tv, ast.Name):
                out.append((tv.id, "NK", None if ordered else norm1(it)))
                continue
        raise AnalysisError(f"writer loop is neither `for v in range(self.N)` nor a loop over self.data: {norm1(fl.iter)}")
    return out


def _resolve_data_ref(du, cfg, sub: ast.Subscript, at: int) -> Optional[List[str]]:
    """Index list [ik, …] if the subscript chain `sub` denotes an element of self.data (following local aliases such as
    `Ak = self.data[ik]` and `for ik, Ak in self.data.items()`), else None."""
    base, flat = _subscript_chain(sub)
    for _ in range(6):
        if isinstance(base, ast.Name):
            d = du.single_def(base.id, at)
            if d is None or d.value is None:
                return None
            if d.kind == "assign":
                base, more = _subscript_chain(d.value)
                flat = more + flat
                at = d.node
                continue
            if d.kind == "for" and d.index == 1 and norm(d.value).replace(" ", "") in ("self.data.items()", "sorted(self.data.items())") \
                    and isinstance(d.stmt.target, ast.Tuple) and isinstance(d.stmt.target.elts[0], ast.Name):
                base = ast.parse("self.data", mode="eval").body
                flat = [d.stmt.target.elts[0]] + flat
                continue
            return None
        break
    if norm(base) != "self.data":
        return None
    out = []
    for x in flat:
        if isinstance(x, ast.Name):
            d = du.single_def(x.id, at)
            if d is not None and d.kind == "assign":
                x = du.resolve_local(x, at)
        elif isinstance(x, ast.Subscript):
            # index computed through a local alias, e.g. reorder[ib] with reorder = self.bk_reorder[ik]
            b2, f2 = _subscript_chain(x)
            if isinstance(b2, ast.Name):
                b3 = du.resolve_local(b2, at)
                if b3 is not b2:
                    out.append(norm(b3) + "".join(f"[{norm(i)}]" for i in f2))
                    continue
        out.append(norm(x))
    return out


def _writer_layout(f, idx=None):
    cfg, du, pm = fctx(f)
    S = Sem(idx, f) if idx is not None else None
    header_fields = None
    data_layout = None
    columns = None
    for c in method_calls(f.node, "write"):
        if not c.args:
            continue
        js = c.args[0]
        at = du.node_of_expr(c)
        if isinstance(js, ast.Call) and S is not None:
            # a line produced by a private one-expression helper: look at the helper's f-string with the arguments substituted
            js = S._inline(js, at, 6, set(), False) or js
        if not isinstance(js, ast.JoinedStr):
            continue
        fvs = [v for v in js.values if isinstance(v, ast.FormattedValue)]
        lpm = parent_map(js)
        data_subs = []
        for v in fvs:
            for s in ast.walk(v.value):
                if isinstance(s, ast.Subscript) and not (isinstance(lpm.get(s), ast.Subscript) and lpm[s].value is s):
                    flat = _resolve_data_ref(du, cfg, s, at)
                    if flat is not None:
                        data_subs.append((s, flat))
        loops = _loops(pm, c)
        if data_subs:
            idxsets = {tuple(flat) for _, flat in data_subs}
            if len(idxsets) != 1:
                raise AnalysisError(f"{f.short}: one write statement indexes self.data differently: {idxsets}")
            cols = []
            for v in fvs:
                if any(isinstance(s, ast.Subscript) for s in ast.walk(v.value)):
                    break
                nm = names_in(v.value)
                if len(nm) == 1:
                    cols.append(next(iter(nm)))
            data_layout = (loops, list(next(iter(idxsets))), c)
            columns = cols
        elif not loops and fvs and all(norm(v.value).startswith("self.") for v in fvs):
            header_fields = [norm(v.value).replace("self.", "") for v in fvs]
    if data_layout is None:
        raise AnalysisError(f"{f.short}: no write statement containing an element of self.data found")
    return header_fields, data_layout, columns


_ORDER_ISSUES: list = []
_ENUM_FORM: list = []


_ALT_LAYOUTS: list = []


def _reader_layout(f, idx=None, _alt=None):
    """(header names, reshape dims, axis permutation applied after the reshape) of a from_w90_file reader, read off the
    resolved `data=` argument of the object it returns (transpose / swapaxes / trailing column selection are composed)."""
    cfg, du, pm = fctx(f)
    S = Sem(idx, f)
    header = None
    for s in stmts(f.node):
        if isinstance(s, ast.Assign) and isinstance(s.targets[0], ast.Tuple) and isinstance(s.value, ast.Call) \
                and call_name(s.value) in ("np.array", "numpy.array") and s.value.args \
                and ".split()" in S.rnorm(s.value.args[0], cfg.node(s)):
            header = [norm(t) for t in s.targets[0].elts]
    ctor = [c for c in ast.walk(f.node) if isinstance(c, ast.Call) and any(k.arg == "data" for k in c.keywords) and
            (norm(c.func) == "cls" or (isinstance(c.func, ast.Name) and f.cls is not None and c.func.id == f.cls.name))]
    if len(ctor) != 1:
        raise AnalysisError(f"{f.short}: the constructor call with data=… was not found")
    dv = next(k.value for k in ctor[0].keywords if k.arg == "data")
    at = du.node_of_expr(ctor[0])
    def step(x_, at_):
        """one def-use step for a plain local name: (value expression, node of the definition)"""
        if isinstance(x_, ast.Name):
            d_ = du.single_def(x_.id, at_)
            if d_ is not None and d_.kind == "assign" and d_.value is not None:
                return d_.value, d_.node
        return None
    e = dv
    while isinstance(e, ast.Name) and step(e, at) is not None:
        e, at = step(e, at)
    if isinstance(e, ast.Name) and _alt is None:
        # the data are built on several paths (e.g. a pooled and a serial conversion): every path must lay the stream out the same way
        ds_ = [d_ for d_ in du.reaching(e.id, at) if d_.kind == "assign" and d_.value is not None]
        if len(ds_) > 1:
            outs_ = [_reader_layout(f, idx, _alt=(d_.value, d_.node)) for d_ in ds_]
            for o_, d_ in zip(outs_[1:], ds_[1:]):
                _ALT_LAYOUTS.append((o_, d_.stmt))
            return outs_[0]
    if _alt is not None:
        e, at = _alt
    # [block(ik).reshape(a, b) for ik in range(NK)]  ≡  stream.reshape(NK, a, b)
    if isinstance(e, ast.ListComp) and len(e.generators) == 1 and isinstance(e.generators[0].iter, ast.Call) and call_name(e.generators[0].iter) == "range" \
            and len(e.generators[0].iter.args) == 1 and ((isinstance(e.elt, ast.Call) and isinstance(e.elt.func, ast.Attribute)) or
                                                         (isinstance(e.elt, ast.Attribute) and e.elt.attr == "T")):
        nk_ = norm(e.generators[0].iter.args[0])
        x_ = e.elt
        perm_ = None
        while isinstance(x_, ast.Call) and isinstance(x_.func, ast.Attribute) and x_.func.attr in ("transpose", "copy") or \
                (isinstance(x_, ast.Attribute) and x_.attr == "T"):
            if isinstance(x_, ast.Attribute):
                perm_ = [0, 2, 1]
                x_ = x_.value
            elif x_.func.attr == "transpose" and not x_.args:
                perm_ = [0, 2, 1]
                x_ = x_.func.value
            elif x_.func.attr == "copy":
                x_ = x_.func.value
            else:
                break
        if isinstance(x_, ast.Call) and isinstance(x_.func, ast.Attribute) and x_.func.attr == "reshape":
            dargs_ = list(x_.args[0].elts) if len(x_.args) == 1 and isinstance(x_.args[0], ast.Tuple) else list(x_.args)
            return header, [nk_] + [norm(d_) for d_ in dargs_], perm_, f
    if isinstance(e, ast.DictComp):
        # {ik: arr[ik] for ik in selected}: per-k view of arr
        kv = norm(e.key)
        v = e.value
        gen0 = e.generators[0]
        if isinstance(v, ast.Subscript) and norm(v.slice) == kv:
            e = v.value
        elif isinstance(v, ast.Subscript) and isinstance(gen0.iter, ast.Call) and call_name(gen0.iter) == "enumerate" and gen0.iter.args \
                and isinstance(gen0.target, ast.Tuple) and len(gen0.target.elts) == 2 and norm(gen0.target.elts[1]) == kv \
                and norm(v.slice) == norm(gen0.target.elts[0]):
            # {ik: arr[i] for i, ik in enumerate(SEL)}: row i of arr must belong to the i-th entry of SEL.  If the rows were picked out of
            # the file by a membership filter they come in FILE order, which equals the order of SEL only when SEL is ascending.
            sel = gen0.iter.args[0]
            sel_r = S.resolve(sel, at)
            exprs_, _, _ = du.backward_slice(v.value, at)
            filt = [lc for ex in exprs_ for lc in ast.walk(ex) if isinstance(lc, (ast.ListComp, ast.GeneratorExp)) and any(g.ifs for g in lc.generators)]
            foreign = [lc for lc in filt if not any(norm(g.iter) == norm(sel) or (isinstance(g.iter, ast.Call) and call_name(g.iter) == "enumerate" and g.iter.args
                                                                                 and norm(g.iter.args[0]) == norm(sel)) for g in lc.generators)]
            alts = S.alternatives(sel, at)
            ascending = all(isinstance(a_, ast.Call) and call_name(a_) in ("np.sort", "sorted", "np.unique", "np.arange", "range", "numpy.sort", "numpy.arange") for a_ in alts)
            if foreign and not ascending:
                _ORDER_ISSUES.append((f, e, f"`{norm1(e, 90)}` pairs row i of an array whose rows were selected from the file by a filter "
                                            f"(`{norm1(foreign[0], 70)}`: file order) with the i-th entry of `{norm1(sel)}` (caller's order, not sorted): "
                                            f"for a k-point selection that is not ascending the blocks are assigned to the wrong k-points"))
            e = v.value
            _ENUM_FORM.append(True)
        else:
            raise AnalysisError(f"{f.short}: data dictionary is not {{ik: array[ik] …}}")
    perm = None
    reshape = None
    x = e
    for _ in range(8):
        if isinstance(x, ast.Call) and isinstance(x.func, ast.Attribute):
            a, args = x.func.attr, x.args
            if a == "transpose":
                targs = list(args[0].elts) if len(args) == 1 and isinstance(args[0], ast.Tuple) else list(args)
                p_ = [ast.literal_eval(t) for t in targs]
                perm = p_ if perm is None else [p_[i] for i in perm]
                x = x.func.value
                continue
            if a == "swapaxes" and len(args) == 2:
                i_, j_ = ast.literal_eval(args[0]), ast.literal_eval(args[1])
                n_ = max(i_, j_, *(perm or [0])) + 1
                p_ = list(range(max(n_, 4)))
                p_[i_], p_[j_] = p_[j_], p_[i_]
                perm = p_ if perm is None else [p_[i] for i in perm]
                x = x.func.value
                continue
            if a == "reshape":
                dargs = list(args[0].elts) if len(args) == 1 and isinstance(args[0], ast.Tuple) else list(args)
                reshape = [norm(d) for d in dargs]
                break
            if a in ("copy", "astype"):
                x = x.func.value
                continue
        if isinstance(x, ast.Subscript) and isinstance(x.slice, ast.Tuple) and all(isinstance(q, ast.Slice) and q.lower is None and q.upper is None for q in x.slice.elts[:-1]) \
                and isinstance(x.slice.elts[-1], ast.Constant):
            x = x.value   # trailing column selection [:, :, c]
            continue
        if isinstance(x, ast.Name):
            nx = step(x, at)
            if nx is None:
                break
            x, at = nx
            continue
        break
    if perm is not None and reshape is not None:
        named = [d for d in reshape if not d.isdigit()]
        perm = [p_ for p_ in perm if p_ < len(named)] if len(perm) > len(named) else perm
        if perm == list(range(len(perm))):
            perm = None
    return header, reshape, perm, f


def run(ctx) -> None:
    idx = ctx.index
    base = idx.cls(W90 + "w90file.py", "W90_file")
    savable = idx.cls(W90 + "io.py", "SavableNPZ")

    # dict-ness of W90_file.data is established by the constructor
    r1 = ctx.rule("R19.1", "W90_file.data is a dict keyed by k-index: no tuple subscripts in writers/comparers", min_instances=3)
    init = base.methods.get("__init__")
    if init is None or "isinstance(data, dict)" not in norm(init.node):
        raise AnalysisError("W90_file.__init__ no longer asserts that data is a dict: the container-kind rule has no basis")
    for c in idx.subclasses(base):
        for mname in SCOPE_METHODS:
            m = c.methods.get(mname)
            if m is None:
                continue
            hits = 0
            for n in ast.walk(m.node):
                if isinstance(n, ast.Subscript) and isinstance(n.ctx, ast.Load) and isinstance(n.value, ast.Attribute) \
                        and n.value.attr == "data" and isinstance(n.value.value, ast.Name) \
                        and n.value.value.id in ("self", "other"):
                    hits += 1
                    if isinstance(n.slice, ast.Tuple):
                        pm = fctx(m)[2]
                        r1.violation(m, enclosing(pm, n, ast.stmt),
                                     f"`{norm1(n)}` subscripts the per-k dictionary with a tuple: raises KeyError for every "
                                     f"object (data is a dict {{ik: array}}; write `…data[ik][…]`)",
                                     stmt=norm1(n))
                    else:
                        r1.ok(f"{m.short}: {norm1(n)} indexes the dict by k first")
            if mname == "to_w90_file":
                r1.instance(m.short)
    if ctx.thorough:
        for c in idx.subclasses(base):
            for mname, m in c.methods.items():
                if mname in SCOPE_METHODS:
                    continue
                for n in ast.walk(m.node):
                    if isinstance(n, ast.Subscript) and isinstance(n.value, ast.Attribute) and n.value.attr == "data" \
                            and isinstance(n.value.value, ast.Name) and n.value.value.id == "self" \
                            and isinstance(n.slice, ast.Tuple):
                        r1.observe(f"{m.short}: `{norm1(n, 60)}` tuple-subscripts the k-dictionary (method outside the "
                                   f"write/npz round trip)")

    # ---------------------------------------------------------------- R19.7
    # the readers tokenise every line with str.split(): two numeric fields written back to back fuse as soon as one of them
    # fills its width (energy ≤ −1000 eV, more than 9999 k-points …) and the file can no longer be read
    r7 = ctx.rule("R19.7", "text writers separate consecutive fields with white space", min_instances=1)
    for f_ in idx.all_functions():
        if not f_.module.relpath.startswith(W90) or f_.name != "to_w90_file":
            continue
        WS7 = Sem(idx, f_)
        for wc in method_calls(f_.node, "write"):
            roots7 = [wc]
            if wc.args:
                try:
                    roots7.append(WS7.resolve(wc.args[0], WS7.du.node_of_expr(wc)))      # line formats kept in small private helpers
                except AnalysisError:
                    pass
            seen7 = set()
            for js in [n_ for rt_ in roots7 for n_ in ast.walk(rt_) if isinstance(n_, ast.JoinedStr)]:
                if norm(js) in seen7:
                    continue
                seen7.add(norm(js))
                fvs = [v_ for v_ in js.values if isinstance(v_, ast.FormattedValue)]
                if len(fvs) < 2:
                    continue
                r7.instance(f"{f_.short}: {norm1(js, 70)}")
                fused = None
                prev_is_field = False
                for v_ in js.values:
                    if isinstance(v_, ast.FormattedValue):
                        if prev_is_field:
                            fused = v_
                        prev_is_field = True
                    elif isinstance(v_, ast.Constant) and isinstance(v_.value, str):
                        if any(ch.isspace() for ch in v_.value):
                            prev_is_field = False
                r7.check(fused is None, "every pair of consecutive fields is separated by white space", f_, wc,
                         f"`{norm1(js, 90)}` writes the field `{norm1(fused.value) if fused is not None else ''}` directly after the previous one: "
                         f"when a value fills its width the two columns fuse and the reader (which splits on white space) cannot recover them")
            for fc in [n_ for n_ in ast.walk(wc) if isinstance(n_, ast.Call) and isinstance(n_.func, ast.Attribute) and n_.func.attr == "format"
                       and isinstance(n_.func.value, ast.Constant) and isinstance(n_.func.value.value, str)]:
                import re as _re7
                r7.instance(f"{f_.short}: {norm1(fc, 70)}")
                r7.check(not _re7.search(r"\}\{", fc.func.value.value), "every pair of consecutive fields is separated by white space", f_, wc,
                         f"format string {fc.func.value.value!r} has two fields back to back")

    # ---------------------------------------------------------------- R19.2
    r2 = ctx.rule("R19.2", "attributes read by the text writers exist", min_instances=3)
    for fn, cn in WRITABLE:
        c = idx.cls(W90 + fn, cn)
        m = c.methods.get("to_w90_file")
        if m is None:
            raise AnalysisError(f"{cn}.to_w90_file vanished")
        r2.instance(m.short)
        pm = fctx(m)[2]
        und = undefined_self_attrs(idx, c, m, pm)
        if not und:
            r2.ok(f"{m.short}: every self.<attr> resolves in the class family")
        for n, why in und:
            r2.violation(m, enclosing(pm, n, ast.stmt), f"`self.{n.attr}` is read but no class in the hierarchy of {cn} "
                         f"defines it ({why}): AttributeError on every call", stmt=f"self.{n.attr}")

    # ---------------------------------------------------------------- R19.3
    r3 = ctx.rule("R19.3", "npz tag contract (tags ⊆ constructor parameters ∩ attributes)", min_instances=12)
    inherited_from_dict = savable.methods.get("from_dict")
    inherited_as_dict = savable.methods.get("as_dict")
    if inherited_from_dict is None or "cls(**dic_loc)" not in norm(inherited_from_dict.node):
        raise AnalysisError("SavableNPZ.from_dict no longer builds the object with cls(**dic_loc)")
    for c in idx.subclasses(savable, strict=True):
        if c is base:
            continue
        r3.instance(c.fq)
        tags = {}
        for kind in ("npz_tags", "npz_tags_optional", "npz_keys_dict_int", "npz_keys_dict_int_optional"):
            tags[kind] = fold_class_list(idx, c, kind) or []
        fd = idx.find_method(c, "from_dict")
        ad = idx.find_method(c, "as_dict")
        ini = idx.find_method(c, "__init__")
        params = set(ini.params[1:]) if ini is not None else set()
        has_kwargs = ini is not None and ini.node.args.kwarg is not None
        alltags = [t for k in tags.values() for t in k]
        if fd is inherited_from_dict:
            missing = [t for t in alltags if t not in params and not has_kwargs]
            r3.check(not missing, f"{c.name}: {len(alltags)} tags are constructor parameters",
                     f"{c.module.relpath}:{c.name}", c.node,
                     f"{c.name}.from_npz calls {c.name}(**dic) with key(s) {missing} that {ini.qualname if ini else '__init__'} "
                     f"does not accept: TypeError when loading a saved object", stmt=f"npz tags {missing} vs __init__")
        else:
            r3.note(f"{c.name} overrides from_dict ({fd.short if fd else None}); constructor-parameter clause not applicable")
        if ad is inherited_as_dict:
            req = tags["npz_tags"] + tags["npz_keys_dict_int"]
            missing = [t for t in req if idx.attr_defined(c, t, include_subclasses=False) is None]
            r3.check(not missing, f"{c.name}: required tags are attributes/properties", f"{c.module.relpath}:{c.name}",
                     c.node, f"{c.name}.as_dict reads attribute(s) {missing} that the class never defines: saving fails",
                     stmt=f"npz tags {missing} vs attributes")

    # ---------------------------------------------------------------- R19.4
    r4 = ctx.rule("R19.4", "npz file-name extensions agree between writer and reader", min_instances=10)
    wd = idx.module(W90 + "wandata.py")
    fc = wd.assigns.get("FILES_CLASSES")
    if not fc or not isinstance(fc[0], ast.Dict):
        raise AnalysisError("FILES_CLASSES dict literal not found in wandata.py")
    to_npz = idx.function(W90 + "wandata.py", "WannierData.to_npz")
    from_npz = idx.function(W90 + "wandata.py", "WannierData.from_npz")
    tw, tr = norm(to_npz.node), norm(from_npz.node)
    if not any(isinstance(n, ast.Attribute) and n.attr == "extension" for n in ast.walk(to_npz.node)) or \
            not any(isinstance(n, ast.Attribute) and n.attr == "extension" for n in ast.walk(from_npz.node)):
        raise AnalysisError("WannierData.to_npz/from_npz no longer build file names from `.extension`")
    exts: Dict[str, str] = {}
    for k, v in zip(fc[0].keys, fc[0].values):
        key = k.value
        c = idx.resolve_expr(wd, v)
        if not isinstance(c, ClassInfo):
            raise AnalysisError(f"FILES_CLASSES[{key!r}] does not resolve to a class")
        r4.instance(f"FILES_CLASSES[{key!r}] = {c.name}")
        ext = class_str_attr(idx, c, "extension")
        r4.check(ext is not None, f"{c.name}.extension = {ext!r}", f"{c.module.relpath}:{c.name}", c.node,
                 f"{c.name} (FILES_CLASSES[{key!r}]) defines no string `extension`: WannierData.to_npz/from_npz cannot "
                 f"name its file", stmt=f"class {c.name}: extension")
        if ext is not None:
            if ext in exts.values():
                r4.violation(f"{c.module.relpath}:{c.name}", c.node, f"extension {ext!r} is shared by two file classes: one "
                             f"npz file overwrites the other", stmt=f"duplicate extension {ext}")
            exts[key] = ext
    sym = idx.cls("wannierberri/symmetry/sawf.py", "SymmetrizerSAWF")
    sext = class_str_attr(idx, sym, "extension")
    lit = [n.value for n in ast.walk(from_npz.node) if isinstance(n, ast.Constant) and isinstance(n.value, str)
           and n.value.endswith(".npz") and n.value.startswith(".")]
    FS_ = Sem(idx, from_npz)
    for c_ in method_calls(from_npz.node, "from_npz"):
        if c_.args:
            for alt in FS_.alternatives(c_.args[0], FS_.du.node_of_expr(c_)):
                txt_ = norm(alt)
                if sext is not None and (f"'.' + '{sext}' + '.npz'" in txt_ or f"'.{sext}' + '.npz'" in txt_):
                    lit.append(f".{sext}.npz")
    r4.instance("SymmetrizerSAWF ↔ '.sawf.npz'")
    r4.check(sext is not None and f".{sext}.npz" in lit, f"symmetrizer is written as .{sext}.npz and read from {lit}",
             from_npz, from_npz.node, f"WannierData.to_npz writes the symmetrizer as '.{sext}.npz' but from_npz reads {lit}",
             stmt="symmetrizer extension")

    # to_npz(files=[…]): every requested name the container holds is written — the request may only be filtered against the container itself
    # (`if f in self._files`), not against a table of file classes that lacks the objects from_npz restores separately (symmetrizer, mmn_ud, soc, …)
    tz_ = idx.function(W90 + "wandata.py", "WannierData.to_npz")
    fp_ = next((p_ for p_ in tz_.params if p_ == "files"), None)
    if fp_ is not None:
        r4.instance(f"{tz_.short}: files= request")
        for lp_ in [x for x in ast.walk(tz_.node) if isinstance(x, ast.For) and norm(x.iter) == fp_]:
            for g_ in [x for x in ast.walk(lp_) if isinstance(x, ast.If)]:
                t_ = g_.test
                tests_ = [t_] + ([v_ for v_ in t_.values] if isinstance(t_, ast.BoolOp) else [])
                for c_ in tests_:
                    if isinstance(c_, ast.Compare) and len(c_.ops) == 1 and isinstance(c_.ops[0], (ast.NotIn, ast.In)) and norm(c_.comparators[0]) not in ("self._files", "self._files.keys()") \
                            and any(isinstance(x, (ast.Continue,)) for b_ in (g_.body if isinstance(c_.ops[0], ast.NotIn) else g_.orelse) for x in ast.walk(b_)):
                        r4.violation(tz_, g_, f"`if {norm1(g_.test)}: … continue` drops requested files that are not in `{norm1(c_.comparators[0])}`; that table has no entry for the "
                                     f"objects stored outside it (symmetrizer, mmn_ud/mmn_du, soc), so to_npz(files=[…, 'symmetrizer']) silently does not write them and the "
                                     f"loaded container differs from the saved one")

    # the `irreducible` flag of a loaded container: "some file holds fewer k-points than the grid".  It is found file by file, so inside the
    # loop over the files it may only be raised (or accumulated with `or`), never recomputed from the file at hand alone
    FN_ = Sem(idx, from_npz)
    st_irr = [s_ for s_ in stmts(from_npz.node) if isinstance(s_, ast.Assign) and norm(s_.targets[0]) == "self.irreducible"]
    if r4.expect(len(st_irr) == 1 and isinstance(st_irr[0].value, ast.Name), "from_npz: store of self.irreducible located", from_npz, from_npz.node,
                 "WannierData.from_npz: `self.irreducible = <flag>` not found"):
        flag_ = st_irr[0].value.id
        r4.instance(f"{from_npz.short}: {flag_} → self.irreducible")
        for d_ in FN_.du.reaching(flag_, FN_.cfg.node(st_irr[0])):
            if d_.kind != "assign" or d_.stmt is None:
                continue
            in_loop = [l_ for l_ in enclosing_all(FN_.pm, d_.stmt, (ast.For, ast.While))]
            if not in_loop:
                continue
            v_ = d_.value
            monotone = (isinstance(v_, ast.Constant) and v_.value is True) or \
                (isinstance(v_, ast.BoolOp) and isinstance(v_.op, ast.Or) and any(norm(x_) == flag_ for x_ in v_.values)) or \
                (isinstance(v_, ast.BinOp) and isinstance(v_.op, ast.BitOr) and flag_ in (norm(v_.left), norm(v_.right)))
            r4.check(monotone, f"`{norm1(d_.stmt)}` only raises the flag", from_npz, d_.stmt,
                     f"`{norm1(d_.stmt)}` recomputes `{flag_}` from the file inspected in this pass of the loop: the value found for an earlier file (and the "
                     f"caller's argument) is overwritten by the last file, so a container saved from irreducible k-points can come back with irreducible=False")

    # ---------------------------------------------------------------- R19.5
    r5 = ctx.rule("R19.5", "text layout: writer loop nest/index/header ↔ reader reshape/transpose/unpack", min_instances=3)
    for fn, cn in WRITABLE:
        c = idx.cls(W90 + fn, cn)
        w = c.methods["to_w90_file"]
        rd = c.methods.get("from_w90_file")
        if rd is None:
            raise AnalysisError(f"{cn}.from_w90_file vanished")
        r5.instance(f"{cn}: {w.short} ↔ {rd.short}")
        whead, (loops, index, wcall), columns = _writer_layout(w, idx)
        _ORDER_ISSUES.clear()
        _ENUM_FORM.clear()
        _ALT_LAYOUTS.clear()
        rhead, reshape, perm, _ = _reader_layout(rd, idx)
        for f_i, node_i, msg_i in _ORDER_ISSUES:
            r5.violation(f_i, node_i, f"{cn}: {msg_i}", stmt="row/k-point pairing")
        lvars = [v for v, _, _ in loops]
        lsizes = [s for _, s, _ in loops]
        for v, sz, dis in loops:
            r5.check(dis is None, f"{cn}: loop over {sz} runs in ascending index order", w, wcall,
                     f"{cn}: the blocks are written in the iteration order of `{dis}` (dictionary insertion order), but the "
                     f"reader numbers them 0..{sz}-1 by position in the file: an object whose keys were not inserted in "
                     f"ascending order is read back permuted")
        if rhead is not None or whead is not None:
            r5.check(whead == rhead, f"{cn}: header fields {whead} are unpacked in the same order", w, wcall,
                     f"{cn}: header written as {whead} but read as {rhead}")
        if reshape is None:
            raise AnalysisError(f"{rd.short}: reshape of the data block not found")
        named = [d for d in reshape if not d.isdigit()]
        if _ENUM_FORM and named and named[0].startswith("len(") and lsizes:
            named[0] = lsizes[0]      # only the selected k-blocks were converted: len(selection) blocks, each laid out like one of the NK
        r5.check(named == lsizes, f"{cn}: loop nest {lsizes} (outer→inner) equals the reader's reshape {reshape}", w, wcall,
                 f"{cn}: values are written in loop order {list(zip(lvars, lsizes))} but the reader reshapes the stream as "
                 f"{reshape}: elements land at the wrong indices")
        p = perm if perm is not None else list(range(len(named)))
        p = [x for x in p if x < len(lvars)]
        got = [lvars[x] for x in p]
        r5.check(got == index, f"{cn}: reader axes after transpose {got} equal the written index {index}", w, wcall,
                 f"{cn}: the element written at loop position {lvars} is data[{', '.join(index)}], but the reader's "
                 f"reshape+transpose{tuple(perm) if perm else ''} stores it at [{', '.join(got)}]")
        for (h2_, rs2_, pm2_, _f2), st2_ in list(_ALT_LAYOUTS):
            if rs2_ is None:
                r5.expect(False, "", rd, st2_, f"{cn}: a second construction of the data (`{norm1(st2_, 70)}`) has no recognisable reshape")
                continue
            nm2_ = [d for d in rs2_ if not d.isdigit()]
            p2_ = pm2_ if pm2_ is not None else list(range(len(nm2_)))
            p2_ = [x for x in p2_ if x < len(lvars)]
            eff2_ = [nm2_[x] for x in p2_] if len(nm2_) == len(lvars) else nm2_
            g2_ = [lvars[x] for x in p2_]
            r5.check(nm2_ == lsizes and g2_ == index, f"{cn}: alternative construction `{norm1(st2_, 60)}` lays the stream out like the writer", rd, st2_,
                     f"{cn}: on the path `{norm1(st2_, 80)}` the stream written in loop order {list(zip(lvars, lsizes))} is reshaped as {rs2_}"
                     f"{' and permuted ' + str(tuple(pm2_)) if pm2_ else ''}: the element data[{', '.join(index)}] is read back at another index than on the other path")
    # EIG columns: col c ↔ size name
    eigc = idx.cls(W90 + "eig.py", "EIG")
    rd = eigc.methods["from_w90_file"]
    _, (loops, index, wcall), columns = _writer_layout(eigc.methods["to_w90_file"], idx)
    size_of = {v: sz for v, sz, _ in loops}
    colmap = {}
    for s in stmts(rd.node):
        if isinstance(s, ast.Assign) and isinstance(s.targets[0], ast.Name) and ".max()" in norm(s.value):
            for n in ast.walk(s.value):
                if isinstance(n, ast.Subscript) and isinstance(n.slice, ast.Tuple) and len(n.slice.elts) == 2 \
                        and isinstance(n.slice.elts[1], ast.Constant):
                    colmap[n.slice.elts[1].value] = s.targets[0].id
    ok = bool(colmap) and all(ci < len(columns) and size_of.get(columns[ci]) == nm for ci, nm in colmap.items())
    r5.check(ok, f"EIG: column→dimension map {colmap} matches written columns {columns}", eigc.methods["to_w90_file"],
             wcall, f"EIG: reader takes {colmap} from the columns but the writer's columns are {columns} with sizes {size_of}")

    # ---------------------------------------------------------------- R19.6
    r6 = ctx.rule("R19.6", "equals(): base comparison + the subclass's own dimension", min_instances=3)
    beq = base.methods.get("equals")
    if beq is None:
        raise AnalysisError("W90_file.equals vanished")
    r6.instance(beq.short)
    ES = Sem(idx, beq)
    oth = beq.params[1]

    def false_return_under(cmp_pred) -> bool:
        """an `if <cond>: return False, …` whose (resolved) condition satisfies cmp_pred"""
        for n in ast.walk(beq.node):
            if isinstance(n, ast.If) and n.body and isinstance(n.body[-1], ast.Return) and n.body[-1].value is not None:
                rv = n.body[-1].value
                first = rv.elts[0] if isinstance(rv, ast.Tuple) and rv.elts else rv
                if const_of(first) is False and cmp_pred(ES.resolve(n.test, ES.cfg.node(n))):
                    return True
        return False

    def differs(a_txt, b_txt):
        def pred(t):
            for c_ in ast.walk(t):
                if isinstance(c_, ast.Compare) and len(c_.ops) == 1 and isinstance(c_.ops[0], ast.NotEq):
                    l_, r_ = norm(c_.left), norm(c_.comparators[0])
                    if (l_ in a_txt and r_ in b_txt) or (l_ in b_txt and r_ in a_txt):
                        return True
            return False
        return pred
    for dim in ("NK", "NB"):
        r6.check(false_return_under(differs((f"self.{dim}",), (f"{oth}.{dim}",))), f"W90_file.equals compares {dim}", beq, beq.node,
                 f"W90_file.equals no longer returns False when self.{dim} != {oth}.{dim}: objects differing there compare equal", stmt=f"self.{dim} != other.{dim}")
    ks_s = ("set(self.data.keys())", "set(self.data)", "self.data.keys()", "sorted(self.data)", "sorted(self.data.keys())")
    ks_o = tuple(x.replace("self.", f"{oth}.") for x in ks_s)
    r6.check(false_return_under(differs(ks_s, ks_o)), "W90_file.equals compares the sets of stored k-points", beq, beq.node,
             "W90_file.equals no longer returns False when the two objects store different sets of k-points", stmt="set(self.data.keys())")

    def data_differs(t):
        for c_ in ast.walk(t):
            if isinstance(c_, ast.Call) and call_name(c_) in ("np.allclose", "numpy.allclose") and len(c_.args) >= 2:
                a_, b_ = norm(c_.args[0]), norm(c_.args[1])
                m1 = pmatch(c_.args[0], "self.data[K_]", {"K_"})
                m2 = pmatch(c_.args[1], f"{oth}.data[K_]", {"K_"})
                m3 = pmatch(c_.args[1], "self.data[K_]", {"K_"})
                m4 = pmatch(c_.args[0], f"{oth}.data[K_]", {"K_"})
                for x, y in ((m1, m2), (m3, m4)):
                    if x and y and x[0][1]["K_"] == y[0][1]["K_"]:
                        return True
        return False
    neg_allclose = false_return_under(lambda t: isinstance(t, ast.UnaryOp) and isinstance(t.op, ast.Not) and data_differs(t.operand))
    r6.check(neg_allclose, "W90_file.equals compares the data of every stored k-point (np.allclose)", beq, beq.node,
             "W90_file.equals no longer returns False when the data at some k-point differ", stmt="np.allclose(self.data[i], other.data[i]")
    for fn, cn, dim in (("amn.py", "AMN", "NW"), ("mmn.py", "MMN", "NNB")):
        c = idx.cls(W90 + fn, cn)
        m = c.methods.get("equals")
        r6.instance(f"{cn}.equals")
        if m is None:
            r6.violation(f"{W90 + fn}:{cn}", c.node, f"{cn} has no equals(): {dim} is never compared", stmt=f"{cn}.equals")
            continue
        t = norm(m.node)
        MS_ = Sem(idx, m)
        sup = [c_ for c_ in ast.walk(m.node) if isinstance(c_, ast.Call) and norm(c_.func) == "super().equals"]
        chained = False
        for n in ast.walk(m.node):
            if isinstance(n, ast.If) and n.body and isinstance(n.body[-1], ast.Return) and sup:
                tt = MS_.rnorm(n.test, MS_.cfg.node(n))
                rv_ = MS_.rnorm(n.body[-1].value, MS_.cfg.node(n.body[-1])) if n.body[-1].value is not None else ""
                if tt in (f"not {norm(sup[0])}[0]",) and norm(sup[0]) in rv_:
                    chained = True
        r6.check(chained and f"self.{dim} != {m.params[1]}.{dim}" in t,
                 f"{cn}.equals chains to the base and compares {dim}", m, m.node,
                 f"{cn}.equals does not (chain to W90_file.equals and compare {dim})", stmt=f"{cn}.equals")


from ..selftest import V  # noqa: E402

EIGF, AMNF, MMNF = W90 + "eig.py", W90 + "amn.py", W90 + "mmn.py"
SELFTEST = [
    V("to_npz drops requested names missing from the class table (seeded C19-m8)", W90 + "wandata.py",
      "        if files is None:\n            files = self._files.keys()\n        for f in files:\n            if f in self._files:",
      "        if files is None:\n            files = self._files.keys()\n        for f in files:\n            if f.lower() not in FILES_CLASSES:\n                continue\n            if f in self._files:", "fire", "R19.4"),
    V("irreducible flag recomputed per file (seeded C19-m6)", W90 + "wandata.py",
      "            if nkeys < NK:\n", "            irreducible = nkeys < NK\n            if nkeys < NK:\n", "fire", "R19.4"),
    V("EIG writer uses the Fortran layout without separators (seeded C19-m4)", W90 + "eig.py", 'file.write(f" {ib + 1:4d} {ik + 1:4d} {self.data[ik][ib]:17.12f}\\n")',
      'file.write(f"{ib + 1:5d}{ik + 1:5d}{self.data[ik][ib]:18.12f}\\n")', "fire", "R19.7"),
    V("EIG writer tuple-subscripts the dict (original defect)", EIGF, "{self.data[ik][ib]:17.12f}", "{self.data[ik, ib]:17.12f}",
      "fire", "R19.1"),
    V("AMN writer tuple-subscripts the dict (original defect)", AMNF,
      "{self.data[ik][ib, iw].real:17.12f} {self.data[ik][ib, iw].imag:17.12f}",
      "{self.data[ik, ib, iw].real:17.12f} {self.data[ik, ib, iw].imag:17.12f}", "fire", "R19.1"),
    V("AMN writer reads an attribute nobody defines", AMNF, "f\"  {self.NB:3d} {self.NK:3d} {self.NW:3d}  \\n\"",
      "f\"  {self.NB:3d} {self.NK:3d} {self.num_wannier:3d}  \\n\"", "fire", "R19.2"),
    V("new npz tag without constructor parameter", AMNF,
      "npz_tags_optional = [\"positions\", \"orbitals\", \"radial_nodes_list\", \"basis_list\", \"spread_list\", \"spinor\"]",
      "npz_tags_optional = [\"positions\", \"orbitals\", \"radial_nodes_list\", \"basis_list\", \"spread_list\", \"spinor\", \"NW\"]",
      "fire", "R19.3"),
    V("npz key renamed on one side only", W90 + "soc.py", "npz_keys_dict_int = [\"data\", \"overlap\"]",
      "npz_keys_dict_int = [\"data\", \"overlaps\"]", "fire", "R19.3"),
    V("extension removed from a file class", W90 + "spn.py", "    extension = \"spn\"\n", "    ext = \"spn\"\n", "fire", "R19.4"),
    V("symmetrizer extension changed on the writer side", "wannierberri/symmetry/sawf.py", "    extension = \"sawf\"\n",
      "    extension = \"symmetrizer\"\n", "fire", "R19.4"),
    V("AMN header order NB NW NK", AMNF, "f\"  {self.NB:3d} {self.NK:3d} {self.NW:3d}  \\n\"",
      "f\"  {self.NB:3d} {self.NW:3d} {self.NK:3d}  \\n\"", "fire", "R19.5"),
    V("AMN loops swapped (band outer, wannier inner)", AMNF,
      "            for iw in range(self.NW):\n                for ib in range(self.NB):\n",
      "            for ib in range(self.NB):\n                for iw in range(self.NW):\n", "fire", "R19.5"),
    V("EIG loops swapped", EIGF, "        for ik in range(self.NK):\n            for ib in range(self.NB):\n",
      "        for ib in range(self.NB):\n            for ik in range(self.NK):\n", "fire", "R19.5"),
    V("EIG columns swapped", EIGF, "f\" {ib + 1:4d} {ik + 1:4d} ", "f\" {ik + 1:4d} {ib + 1:4d} ", "fire", "R19.5"),
    V("MMN element written untransposed", MMNF,
      "f\"{self.data[ik][ib, n, m].real} {self.data[ik][ib, n, m].imag}\\n\"",
      "f\"{self.data[ik][ib, m, n].real} {self.data[ik][ib, m, n].imag}\\n\"", "fire", "R19.5"),
    V("AMN reader transposes differently", AMNF, ".reshape((NK, NW, NB)).transpose(0, 2, 1)", ".reshape((NK, NB, NW))", "fire", "R19.5"),
    V("AMN.equals forgets the base comparison", AMNF,
      "        iseq, message = super().equals(other, tolerance)\n        if not iseq:\n            return iseq, message\n        if self.NW != other.NW:",
      "        if self.NW != other.NW:", "fire", "R19.6"),
    V("seeded C19-m1: MMN neighbour index routed through bk_reorder", MMNF,
      "                for m in range(self.NB):\n                    for n in range(self.NB):\n                        f_mmn_out.write(f\"{self.data[ik][ib, n, m].real} {self.data[ik][ib, n, m].imag}\\n\")",
      "                Mkb = self.data[ik][self.bk_reorder[ik][ib]]\n                for m in range(self.NB):\n                    for n in range(self.NB):\n                        f_mmn_out.write(f\"{Mkb[n, m].real} {Mkb[n, m].imag}\\n\")",
      "fire", "R19.5"),
    V("seeded C19-m2: AMN writer walks the dictionary in insertion order", AMNF,
      "        for ik in range(self.NK):\n            for iw in range(self.NW):", "        for ik, Ak in self.data.items():\n            for iw in range(self.NW):", "fire", "R19.5"),
    V("neutral: AMN writer walks the dictionary in sorted order with a block alias", AMNF,
      "        for ik in range(self.NK):\n            for iw in range(self.NW):\n                for ib in range(self.NB):\n                    f_amn_out.write(f\"{ib + 1:4d} {iw + 1:4d} {ik + 1:4d} {self.data[ik][ib, iw].real:17.12f} {self.data[ik][ib, iw].imag:17.12f}\\n\")",
      "        for ik, Ak in sorted(self.data.items()):\n            for iw in range(self.NW):\n                for ib in range(self.NB):\n                    f_amn_out.write(f\"{ib + 1:4d} {iw + 1:4d} {ik + 1:4d} {Ak[ib, iw].real:17.12f} {Ak[ib, iw].imag:17.12f}\\n\")",
      "silent"),
    V("neutral: MMN writer with a local alias for the (k,b) block", MMNF,
      "                for m in range(self.NB):\n                    for n in range(self.NB):\n                        f_mmn_out.write(f\"{self.data[ik][ib, n, m].real} {self.data[ik][ib, n, m].imag}\\n\")",
      "                Mkb = self.data[ik][ib]\n                for m in range(self.NB):\n                    for n in range(self.NB):\n                        f_mmn_out.write(f\"{Mkb[n, m].real} {Mkb[n, m].imag}\\n\")",
      "silent"),
    V("neutral: EIG writer, wider number format", EIGF,
      "            for ib in range(self.NB):\n                file.write(f\" {ib + 1:4d} {ik + 1:4d} {self.data[ik][ib]:17.12f}\\n\")",
      "            for ib in range(self.NB):\n                file.write(f\" {ib + 1:4d} {ik + 1:4d} {self.data[ik][ib]:18.12f}\\n\")",
      "silent"),
    V("neutral: AMN reader with tuple-form transpose", AMNF, ".transpose(0, 2, 1)", ".transpose((0, 2, 1))", "silent"),
]
