"""Memoisation-key completeness (shared by C13 / C14).

A method that stores a computed value in a cache of the object under a key, and hands the cached value out when the key is already
present, returns the value of the *first* call for every later call with the same key.  Every parameter the value depends on must
therefore flow into the key (or into the subscripts that select the cache).  Decided by def-use slices inside the method; arguments
that a same-class callee never reads are not counted as dependencies.
"""
from __future__ import annotations

import ast
from typing import Dict, List, Optional, Set, Tuple

from ..index import AnalysisError, FunctionInfo, call_name, norm, norm1
from ..sem import Sem
from .common import enclosing_all, stmts

MUTATORS = ("append", "extend", "insert", "update", "add", "setdefault")


def memo_sites(f: FunctionInfo) -> List[Tuple[ast.If, ast.Assign, ast.AST, ast.AST]]:
    """(guard, store, cache expression, key expression) for `if K not in C: … C[K] = V …`"""
    out = []
    for n in ast.walk(f.node):
        if isinstance(n, ast.If) and isinstance(n.test, ast.Compare) and len(n.test.ops) == 1 and isinstance(n.test.ops[0], ast.NotIn):
            K, C = n.test.left, n.test.comparators[0]
            root = C
            while isinstance(root, (ast.Subscript, ast.Attribute)):
                root = root.value
            if not (isinstance(root, ast.Name) and root.id in ("self", "cls")):
                continue
            for st in ast.walk(n):
                if isinstance(st, ast.Assign) and len(st.targets) == 1 and isinstance(st.targets[0], ast.Subscript) \
                        and norm(st.targets[0].value) == norm(C) and norm(st.targets[0].slice) == norm(K):
                    out.append((n, st, C, K))
        # early-return form:  if K in C: return C[K]   …compute…   C[K] = V
        if isinstance(n, ast.If) and isinstance(n.test, ast.Compare) and len(n.test.ops) == 1 and isinstance(n.test.ops[0], ast.In) and not n.orelse:
            K, C = n.test.left, n.test.comparators[0]
            root = C
            while isinstance(root, (ast.Subscript, ast.Attribute)):
                root = root.value
            if not (isinstance(root, ast.Name) and root.id in ("self", "cls")):
                continue
            if not any(isinstance(r, ast.Return) and r.value is not None and norm(r.value) == f"{norm(C)}[{norm(K)}]" for b in n.body for r in ast.walk(b)):
                continue
            for st in ast.walk(f.node):
                if isinstance(st, ast.Assign) and len(st.targets) == 1 and isinstance(st.targets[0], ast.Subscript) and st.lineno > n.lineno \
                        and norm(st.targets[0].value) == norm(C) and norm(st.targets[0].slice) == norm(K):
                    out.append((n, st, C, K))
    return out


def _unused_callee_params(idx, f: FunctionInfo, c: ast.Call) -> Set[int]:
    """ids of the argument expressions of `self.m(...)` that are bound to a parameter the (resolved, same-class) callee never reads"""
    if not (isinstance(c.func, ast.Attribute) and isinstance(c.func.value, ast.Name) and c.func.value.id in ("self", "cls") and f.cls is not None):
        return set()
    g = idx.find_method(f.cls, c.func.attr)
    if g is None or g.node.args.vararg is not None or g.node.args.kwarg is not None:
        return set()
    params = [p for p in g.params if p not in ("self", "cls")]
    read = {n.id for n in ast.walk(g.node) if isinstance(n, ast.Name) and isinstance(n.ctx, ast.Load)}
    dead = set()
    for p, a in zip(params, c.args):
        if p not in read and not isinstance(a, ast.Starred):
            dead.add(id(a))
    for k in c.keywords:
        if k.arg is not None and k.arg in params and k.arg not in read:
            dead.add(id(k.value))
    return dead


def value_dependencies(idx, f: FunctionInfo, S: Sem, guard: ast.If, store: ast.Assign) -> Set[str]:
    """parameters of f that the stored value may depend on"""
    du, cfg = S.du, S.cfg
    params = set(f.params) - {"self", "cls"}
    dead_args: Set[int] = set()
    for c in ast.walk(f.node):
        if isinstance(c, ast.Call):
            dead_args |= _unused_callee_params(idx, f, c)
    deps: Set[str] = set()
    seen_expr: Set[int] = set()
    work: List[Tuple[ast.AST, int]] = [(store.value, cfg.node(store))]
    if isinstance(guard.test.ops[0], ast.NotIn):
        body_nodes = [x for b in guard.body for x in ast.walk(b)]
    else:
        # early-return form: the memoised computation is everything after the guard
        body_nodes = [x for b in f.node.body for x in ast.walk(b) if getattr(x, "lineno", 0) > guard.lineno and not any(x is y for y in ast.walk(guard))]
    while work:
        e, at = work.pop()
        if id(e) in seen_expr:
            continue
        seen_expr.add(id(e))

        def live_names(x: ast.AST):
            if id(x) in dead_args:
                return
            if isinstance(x, ast.Name) and isinstance(x.ctx, ast.Load):
                yield x
            for ch in ast.iter_child_nodes(x):
                if isinstance(ch, (ast.FunctionDef, ast.Lambda)):
                    continue
                yield from live_names(ch)
        for nm in live_names(e):
            try:
                ds = du.reaching(nm.id, at)
            except AnalysisError:
                ds = []
            for d in ds:
                if d.kind == "param":
                    if d.name in params:
                        deps.add(d.name)
                elif d.value is not None and d.kind != "def":
                    work.append((d.value, d.node))
                    # control dependence: the tests guarding this definition inside the memo body
                    if d.stmt is not None:
                        for g_ in enclosing_all(S.pm, d.stmt, (ast.If, ast.While)):
                            if g_ is guard:
                                break
                            if any(g_ is x for x in body_nodes):
                                work.append((g_.test, cfg.node(g_)))
                    if d.kind == "aug":
                        for d2 in du.reaching(d.name, d.node):
                            if d2.kind == "param" and d2.name in params:
                                deps.add(d2.name)
                            elif d2.value is not None:
                                work.append((d2.value, d2.node))
            # in-place construction of a local container inside the memo body
            for x in body_nodes:
                if isinstance(x, ast.Call) and isinstance(x.func, ast.Attribute) and x.func.attr in MUTATORS and isinstance(x.func.value, ast.Name) \
                        and x.func.value.id == nm.id:
                    st = next((p_ for p_ in [x] + enclosing_all(S.pm, x, ast.stmt) if isinstance(p_, ast.stmt)), None)
                    at2 = cfg.node(st) if st is not None else at
                    for a in list(x.args) + [k.value for k in x.keywords]:
                        work.append((a, at2))
                    if st is not None:
                        for g_ in enclosing_all(S.pm, st, (ast.If, ast.While, ast.For)):
                            if g_ is guard:
                                break
                            work.append((g_.test if isinstance(g_, (ast.If, ast.While)) else g_.iter, cfg.node(g_)))
                elif isinstance(x, ast.Assign) and any(isinstance(t, ast.Subscript) and isinstance(t.value, ast.Name) and t.value.id == nm.id for t in x.targets):
                    work.append((x.value, cfg.node(x)))
    return deps


def key_dependencies(f: FunctionInfo, S: Sem, guard: ast.If, C: ast.AST, K: ast.AST) -> Set[str]:
    params = set(f.params) - {"self", "cls"}
    at = S.cfg.node(guard)
    deps: Set[str] = set()
    roots = [K]
    x = C
    while isinstance(x, (ast.Subscript, ast.Attribute)):
        if isinstance(x, ast.Subscript):
            roots.append(x.slice)
        x = x.value
    for r in roots:
        _, ps, _ = S.du.backward_slice(r, at)
        deps |= set(ps) & params
    return deps


def check_memo_keys(rule, idx, f: FunctionInfo) -> int:
    sites = memo_sites(f)
    if not sites:
        return 0
    S = Sem(idx, f)
    for guard, store, C, K in sites:
        vd = value_dependencies(idx, f, S, guard, store)
        kd = key_dependencies(f, S, guard, C, K)
        missing = sorted(vd - kd)
        rule.instance(f"{f.short}: {norm1(C, 50)}[{norm1(K, 40)}] ← value depends on {sorted(vd)}, key on {sorted(kd)}")
        rule.check(not missing, f"{f.qualname}: every parameter the cached value depends on is part of the key", f, store,
                   f"{f.qualname} caches its result in `{norm1(C, 60)}` under `{norm1(K, 60)}`, but the value also depends on the parameter(s) {missing}: a later call "
                   f"with the same key and a different {missing[0] if missing else ''} gets the value computed for the first call",
                   stmt=f"memo {norm1(C, 40)}")
    return len(sites)


INPLACE_METHODS = ("fill", "sort", "resize", "put", "itemset", "partition", "setfield", "clip_", "append", "extend", "update", "clear", "pop", "insert")


def cache_providers(cls) -> Dict[str, FunctionInfo]:
    """methods that hand out an object they keep on self: `return self.C[K]` of a memo site, or `return self.X` where self.X is assigned under a
    guard that tests self.X (`if self.X is None:` / `if getattr(self, 'X', None) is None:` / `if not hasattr(self, 'X')`)"""
    out: Dict[str, FunctionInfo] = {}
    for m in cls.methods.values():
        rets = [r for r in ast.walk(m.node) if isinstance(r, ast.Return) and r.value is not None]
        ss = memo_sites(m)
        if ss and any(any(norm(r.value) == f"{norm(C)}[{norm(K)}]" for (_, _, C, K) in ss) for r in rets):
            out[m.name] = m
            continue
        for r in rets:
            v = r.value
            if isinstance(v, ast.Attribute) and isinstance(v.value, ast.Name) and v.value.id == "self":
                x = v.attr
                for g in ast.walk(m.node):
                    if isinstance(g, ast.If) and (f"self.{x}" in norm(g.test) or f"'{x}'" in norm(g.test)) and \
                            any(isinstance(st, ast.Assign) and any(norm(t) == f"self.{x}" for t in st.targets) for b in g.body for st in ast.walk(b)):
                        out[m.name] = m
    return out


def check_memo_results_not_mutated(rule, idx, cls) -> int:
    """The object a memoised provider returns IS the cache entry.  A caller that changes it in place (`w += …`, `w[...] = …`, `w.fill(…)`)
    changes what every later call with the same key gets.  The result of such a call is followed through tuple unpacking, subscripts and
    iteration over `.items()` / `.values()`; an in-place update of anything reached is reported."""
    providers = cache_providers(cls)
    n = 0
    if not providers:
        return 0

    def is_provider_call(v):
        return isinstance(v, ast.Call) and isinstance(v.func, ast.Attribute) and isinstance(v.func.value, ast.Name) and v.func.value.id in ("self", "cls") \
            and v.func.attr in providers
    for f in cls.methods.values():
        if f.name in providers:
            continue
        S = None
        # names that (may) refer to the cached object or to a part of it
        tainted: Dict[str, str] = {}
        changed = True
        while changed:
            changed = False
            for st in ast.walk(f.node):
                src = None
                tg = None
                if isinstance(st, ast.Assign) and len(st.targets) == 1:
                    tg, src = st.targets[0], st.value
                elif isinstance(st, (ast.For, ast.comprehension)):
                    tg, src = st.target, st.iter
                if src is None:
                    continue
                base = src
                while True:
                    if isinstance(base, ast.Subscript):
                        base = base.value
                    elif isinstance(base, ast.Call) and isinstance(base.func, ast.Attribute) and base.func.attr in ("items", "values") and not base.args:
                        base = base.func.value
                    elif isinstance(base, ast.Call) and call_name(base) in ("enumerate", "zip", "list", "tuple", "iter", "reversed") and base.args:
                        base = base.args[0]
                    else:
                        break
                prov = base.func.attr if is_provider_call(base) else tainted.get(base.id) if isinstance(base, ast.Name) else None
                if prov is None:
                    continue
                for nm in ast.walk(tg):
                    if isinstance(nm, ast.Name) and nm.id not in tainted:
                        tainted[nm.id] = prov
                        changed = True
        if not tainted:
            continue
        for st in ast.walk(f.node):
            tgt = None
            if isinstance(st, ast.AugAssign):
                t = st.target
                while isinstance(t, ast.Subscript):
                    t = t.value
                tgt = t if isinstance(t, ast.Name) else None
            elif isinstance(st, ast.Assign) and isinstance(st.targets[0], ast.Subscript):
                t = st.targets[0]
                while isinstance(t, ast.Subscript):
                    t = t.value
                tgt = t if isinstance(t, ast.Name) else None
            elif isinstance(st, ast.Expr) and isinstance(st.value, ast.Call) and isinstance(st.value.func, ast.Attribute) and st.value.func.attr in INPLACE_METHODS \
                    and isinstance(st.value.func.value, ast.Name):
                tgt = st.value.func.value
            if tgt is None or tgt.id not in tainted:
                continue
            # the name must still refer to the cached object here (not re-bound to a fresh array in between)
            S = S or Sem(idx, f)
            try:
                ds = S.du.reaching(tgt.id, S.cfg.node(st)) if not isinstance(st, ast.AugAssign) or not isinstance(st.target, ast.Name) else \
                    [d for d in S.du.reaching(tgt.id, S.cfg.node(st))]
            except AnalysisError:
                ds = []
            fresh = ds and all(d.kind == "assign" and isinstance(d.value, ast.Call) and (call_name(d.value) in ("np.copy", "np.array", "np.zeros", "np.zeros_like", "copy.deepcopy", "copy.copy")
                                                                                        or (isinstance(d.value.func, ast.Attribute) and d.value.func.attr == "copy")) for d in ds)
            if fresh:
                continue
            n += 1
            rule.violation(f, st, f"`{norm1(st)}` changes in place an object handed out by the caching method `{tainted[tgt.id]}` — that object is the cache entry itself "
                           f"(or part of it), so every later call starts from the modified value and earlier results that alias it change too")
    return n
