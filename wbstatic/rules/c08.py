"""C08 — declared time-reversal / inversion parities match the parity of the expression the code evaluates.

A type system for discrete symmetries (engine: wbstatic.grading).
R08.1 every Formula_ln class: (a) homogeneity — all terms added into one accumulator have the same grade;
      (b) every *consumed* declaration (a calculator's Formula, a FormulaProduct/FormulaSum factor) equals the inferred grade.
R08.2 Data_K.covariant / get_transform_TR / get_transform_Inv / V_covariant: the declared transform of a covariant matrix
      uses the derivative order actually applied, and the consumed table rows agree with the base grades.
R08.3 real-valued dynamic formulas (SHC, shift current, JDOS) and the spin-velocity matrices (array code).
R08.4 every FormulaSum literal adds terms of one grade (static version of its run-time assert).
"""
from __future__ import annotations

import ast
from typing import Dict, List, Optional, Set, Tuple

from ..grading import BASE, DER, TOP, Z, ClassResult, GradeEngine, base_grade, mul, show, val
from ..index import AnalysisError, ClassInfo, call_name, norm, norm1
from .common import calls, enclosing, enclosing_all, fctx, in_body, stmts

LEVEL = "other"
EXPLANATION = (
    "Abstract interpretation of the formula classes over the grade lattice {Z, (sTR, sInv) ∈ {±1}², ⊤}: leaves are the "
    "covariant matrices (12-row base table — the only physics put in by hand — times (−,−) per k-derivative), grades "
    "multiply under einsum/products, are preserved by +, conj, transposes, slicing and Hermitisation, and sTR flips under an "
    "imaginary literal or .imag. Obligations: homogeneity of every accumulated sum (a term of the wrong grade is a wrong "
    "formula whatever is declared) and equality of every consumed declaration with the inferred grade — for every model "
    "and k-point, including tensor components that vanish in every test system. Formulas whose transform permutes axes "
    "(optical conductivity, injection current, SDCT) are listed as declared-only and not decided; grade-neutral errors "
    "(wrong real coefficients) are not decided.")

FRM = "wannierberri/formula/"
DK = "wannierberri/data_K/data_K.py"
ST = "wannierberri/calculators/static.py"
TB = "wannierberri/calculators/tabulate.py"
DY = "wannierberri/calculators/dynamic.py"


def _roots(idx) -> Dict[str, List[str]]:
    """Formula classes consumed by calculators: {class name: [who consumes it]}."""
    out: Dict[str, List[str]] = {}
    for rel in (ST, DY):
        m = idx.module(rel)
        for c in m.classes.values():
            for f in c.methods.values():
                for s in ast.walk(f.node):
                    if isinstance(s, ast.Assign) and norm(s.targets[0]) == "self.Formula" and not isinstance(s.value, ast.Constant):
                        t = idx.resolve_expr(m, s.value)
                        if isinstance(t, ClassInfo):
                            out.setdefault(t.fq, []).append(f"{rel}:{c.name}")
                        elif isinstance(s.value, ast.Attribute):
                            out.setdefault("?" + norm(s.value), []).append(f"{rel}:{c.name}")
    m = idx.module(TB)
    for c in m.classes.values():
        ini = c.methods.get("__init__")
        if ini is None:
            continue
        for s in ast.walk(ini.node):
            if isinstance(s, ast.Call) and norm(s.func) == "super().__init__" and s.args:
                t = idx.resolve_expr(m, s.args[0])
                if isinstance(t, ClassInfo):
                    out.setdefault(t.fq, []).append(f"{TB}:{c.name}")
                elif isinstance(s.args[0], ast.Attribute):
                    out.setdefault("?" + norm(s.args[0]), []).append(f"{TB}:{c.name}")
    return out


def _factor_classes(idx, c: ClassInfo) -> Tuple[List[ClassInfo], List[ast.Call]]:
    """Formula classes / covariant(...) calls used as factors in FormulaProduct / FormulaSum / DeltaProduct lists of c.__init__."""
    ini = c.methods.get("__init__")
    cls_out: List[ClassInfo] = []
    cov_out: List[ast.Call] = []
    if ini is None:
        return cls_out, cov_out
    lists = []
    for s in ast.walk(ini.node):
        if isinstance(s, ast.Call) and (norm(s.func) == "super().__init__" or call_name(s) in ("FormulaProduct", "FormulaSum")) \
                and s.args and isinstance(s.args[0], (ast.List, ast.Tuple)):
            lists.append(s.args[0])
        if isinstance(s, ast.Call) and call_name(s) == "DeltaProduct" and len(s.args) >= 2:
            lists.append(ast.List(elts=[s.args[1]]))
    locals_: Dict[str, ast.AST] = {}
    for s in ini.node.body:
        if isinstance(s, ast.Assign) and isinstance(s.targets[0], ast.Name):
            locals_[s.targets[0].id] = s.value
    for L in lists:
        for el in L.elts:
            if isinstance(el, ast.Name) and el.id in locals_:
                el = locals_[el.id]
            if isinstance(el, ast.Call):
                if call_name(el) == "data_K.covariant":
                    cov_out.append(el)
                else:
                    t = idx.resolve_expr(c.module, el.func)
                    if isinstance(t, ClassInfo) and t.name not in ("FormulaProduct", "FormulaSum", "DeltaProduct"):
                        cls_out.append(t)
    return cls_out, cov_out


class _Raise(Exception):
    pass


class _Ret(Exception):
    def __init__(self, v):
        self.v = v


def _fold(idx, f, env: Dict[str, object], depth: int = 0):
    """Constant-fold a small pure function (if-chains on `x in <literal container>`, integer arithmetic, conditional
    expressions, calls of module-level helpers of the same kind) for concrete arguments.  Returns the returned value,
    where the two transform singletons are folded to the strings 'ident' / 'odd'; raises _Raise if the function raises."""
    m = f.module

    def ev(e):
        if isinstance(e, ast.Constant):
            return e.value
        if isinstance(e, ast.Name):
            if e.id in env:
                return env[e.id]
            if e.id == "transform_ident":
                return "ident"
            if e.id == "transform_odd":
                return "odd"
            a_ = m.assigns.get(e.id)
            if a_ and len(a_) == 1:
                return ev(a_[0])
            raise AnalysisError(f"{f.short}: cannot fold name `{e.id}`")
        if isinstance(e, (ast.List, ast.Tuple, ast.Set)):
            return [ev(x) for x in e.elts]
        if isinstance(e, ast.BinOp):
            l_, r_ = ev(e.left), ev(e.right)
            if isinstance(e.op, ast.Add):
                return l_ + r_
            if isinstance(e.op, ast.Sub):
                return l_ - r_
            if isinstance(e.op, ast.Mod):
                return l_ % r_
            if isinstance(e.op, ast.Mult):
                return l_ * r_
        if isinstance(e, ast.UnaryOp) and isinstance(e.op, ast.Not):
            return not ev(e.operand)
        if isinstance(e, ast.BoolOp):
            vals = [ev(v) for v in e.values]
            return all(vals) if isinstance(e.op, ast.And) else any(vals)
        if isinstance(e, ast.IfExp):
            return ev(e.body) if ev(e.test) else ev(e.orelse)
        if isinstance(e, ast.Compare) and len(e.ops) == 1:
            l_, r_ = ev(e.left), ev(e.comparators[0])
            op = e.ops[0]
            return {ast.In: lambda: l_ in r_, ast.NotIn: lambda: l_ not in r_, ast.Eq: lambda: l_ == r_, ast.NotEq: lambda: l_ != r_,
                    ast.Is: lambda: l_ is r_, ast.IsNot: lambda: l_ is not r_, ast.Lt: lambda: l_ < r_, ast.Gt: lambda: l_ > r_}[type(op)]()
        if isinstance(e, ast.Call) and isinstance(e.func, ast.Name) and e.func.id in m.functions and depth < 3:
            g = m.functions[e.func.id]
            params = g.params
            sub = {p_: ev(a_) for p_, a_ in zip(params, e.args)}
            sub.update({k.arg: ev(k.value) for k in e.keywords})
            return _fold(idx, g, sub, depth + 1)
        raise AnalysisError(f"{f.short}: expression outside the foldable subset: {norm1(e)}")

    def run_block(body):
        for s_ in body:
            if isinstance(s_, ast.Expr) and isinstance(s_.value, ast.Constant):
                continue
            if isinstance(s_, ast.Assign) and len(s_.targets) == 1 and isinstance(s_.targets[0], ast.Name):
                env[s_.targets[0].id] = ev(s_.value)
            elif isinstance(s_, ast.If):
                run_block(s_.body if ev(s_.test) else s_.orelse)
            elif isinstance(s_, ast.Return):
                raise _Ret(ev(s_.value) if s_.value is not None else None)
            elif isinstance(s_, ast.Raise):
                raise _Raise()
            elif isinstance(s_, ast.Pass):
                continue
            else:
                raise AnalysisError(f"{f.short}: statement outside the foldable subset: {norm1(s_)}")
    try:
        run_block(f.node.body)
    except _Ret as r_:
        return r_.v
    return None


def _parse_table(f, idx=None) -> Dict[str, Optional[int]]:
    """get_transform_TR / Inv: name → p (0 / 1) or None (no transform declared), by constant-folding the function for
    every quantity name that occurs in it (or in the module-level tuples it consults) and der = 0, 1."""
    names = set()
    srcs = [f.node] + [v[0] for k, v in f.module.assigns.items() if len(v) == 1 and any(isinstance(n, ast.Name) and n.id == k for n in ast.walk(f.node))]
    for src in srcs:
        for n in ast.walk(src):
            if isinstance(n, (ast.List, ast.Tuple, ast.Set)) and n.elts and all(isinstance(x, ast.Constant) and isinstance(x.value, str) for x in n.elts):
                names |= {x.value for x in n.elts}
    table: Dict[str, Optional[int]] = {}
    pn, dn = f.params[0], f.params[1]
    for nm in sorted(names):
        try:
            r0 = _fold(idx, f, {pn: nm, dn: 0})
            r1 = _fold(idx, f, {pn: nm, dn: 1})
        except _Raise:
            continue
        if r0 is None and r1 is None:
            table[nm] = None
        elif (r0, r1) == ("ident", "odd"):
            table[nm] = 0
        elif (r0, r1) == ("odd", "ident"):
            table[nm] = 1
        else:
            raise AnalysisError(f"{f.short}: `{nm}` folds to {r0!r} (der=0) / {r1!r} (der=1): not a parity that flips with each derivative")
    return table


def run(ctx) -> None:
    idx = ctx.index
    ge = GradeEngine(idx)
    ctx.assume("base parities of the covariant matrices (wbstatic.grading.BASE): " +
               ", ".join(f"{k}{show(v)}" for k, v in BASE.items()) + "; each k-derivative multiplies by (−,−)")
    ctx.assume("declared transforms are compared as signs (transform_ident = +1, transform_odd = −1); the complex conjugation "
               "of time reversal is irrelevant for the real traces the calculators take")

    roots = _roots(idx)
    # ---------------------------------------------------------------- consumed closure
    consumed: Dict[str, List[str]] = {}
    cov_consumed: List[Tuple[ast.Call, str]] = []
    work = []
    for fq, who in roots.items():
        if fq.startswith("?"):
            continue
        consumed[fq] = who
        work.append(fq)
    by_fq = {c.fq: c for c in idx.all_classes()}
    while work:
        fq = work.pop()
        c = by_fq[fq]
        for k in idx.mro(c):
            fc, cov = _factor_classes(idx, k)
            for t in fc:
                if t.fq not in consumed:
                    consumed[t.fq] = [f"factor of {c.name}"]
                    work.append(t.fq)
            for call in cov:
                cov_consumed.append((call, c.name))

    # ---------------------------------------------------------------- R08.1
    r1 = ctx.rule("R08.1", "formula classes: homogeneous sums; consumed declarations = inferred grade", min_instances=40)
    n_terms = 0
    inferred_consumed = 0
    declared_only: List[str] = []
    mods = [FRM + "elementary.py", FRM + "basic.py", FRM + "covariant.py"]
    for rel in mods:
        m = idx.module(rel)
        for c in m.classes.values():
            if c.name in ("FormulaAntiSymmetric", "FormulaSymmetric"):
                continue  # generic wrappers: graded per concrete subclass
            res = ge.class_result(c)
            r1.instance(f"{c.fq} → nn {show(res.nn)} ln {show(res.ln)}")
            n_terms += res.terms
            for cf in res.conflicts:
                f = next((mm for mm in c.methods.values() if mm.short == cf.where), None) or \
                    next((mm for k in idx.mro(c) for mm in k.methods.values() if mm.short == cf.where), None)
                r1.violation(f or cf.where, cf.node, f"a term of grade {show(cf.term)} is added to an expression of grade "
                             f"{show(cf.acc)} in {c.name}: the sum mixes quantities of different time-reversal/inversion parity, "
                             f"so the formula is wrong whatever transform is declared", stmt=cf.text[:150])
            if not res.conflicts:
                r1.ok(f"{c.name}: {res.terms} added terms, all of one grade")
            g = val(res)
            tr, inv = res.declared or (None, None)
            if c.fq in consumed:
                if isinstance(tr, str) or isinstance(inv, str):
                    # FormulaProduct / FormulaSum / DeltaProduct: declaration is computed from the factors' declarations
                    continue
                if tr is None and inv is None:
                    continue  # copies a covariant matrix: decided under R08.2
                if g in (TOP, Z):
                    declared_only.append(c.name)
                    continue
                inferred_consumed += 1
                ok = (tr, inv) == g
                r1.check(ok, f"{c.name}: declared ({tr:+d},{inv:+d}) = inferred {show(g)}  [{consumed[c.fq][0]}]",
                         f"{c.module.relpath}:{c.name}", res.declared_node or c.node,
                         f"{c.name} declares (TR, inversion) = ({'even' if tr == 1 else 'odd'}, {'even' if inv == 1 else 'odd'}) but "
                         f"the expression it evaluates has parity {show(g)} (TR, inversion): symmetrisation / irreducible-wedge "
                         f"runs use the wrong sign for its images (consumed by {consumed[c.fq][0]})",
                         stmt=f"{c.name}: declared ({tr},{inv}) vs inferred {show(g)}")
            else:
                if tr in (1, -1) and inv in (1, -1) and g not in (TOP, Z) and (tr, inv) != g:
                    r1.observe(f"{c.name} declares ({tr:+d},{inv:+d}) but evaluates {show(g)}; the declaration is never consumed "
                               f"(not a calculator Formula nor a product/sum factor)")
    # a declaration holds for the object however it was configured: it is assigned on every path of the constructor, and a calculator and the
    # Formula class it names never declare different transforms (the calculator's wins at run time, the formula's is what audits / other callers read)
    def _decls(init_fn):
        out_ = {}
        for st_ in ast.walk(init_fn.node):
            if isinstance(st_, ast.Assign) and len(st_.targets) == 1 and isinstance(st_.targets[0], ast.Attribute) and norm(st_.targets[0].value) == "self" \
                    and st_.targets[0].attr in ("transformTR", "transformInv"):
                out_.setdefault(st_.targets[0].attr, []).append(st_)
        return out_
    for rel in mods + ["wannierberri/calculators/dynamic.py", "wannierberri/calculators/static.py", "wannierberri/calculators/tabulate.py"]:
        m = idx.module(rel)
        for c in m.classes.values():
            ini = c.methods.get("__init__")
            if ini is None:
                continue
            dd_ = _decls(ini)
            for attr_, sts_ in dd_.items():
                top_ = [x_ for x_ in sts_ if x_ in ini.node.body]
                both_ = any(isinstance(i_, ast.If) and any(x_ in ast.walk(ast.Module(body=i_.body, type_ignores=[])) for x_ in sts_)
                            and any(x_ in ast.walk(ast.Module(body=i_.orelse, type_ignores=[])) for x_ in sts_) for i_ in ini.node.body)
                r1.check(bool(top_) or both_, f"{c.name}.{attr_} is declared on every path of the constructor", ini, sts_[0],
                         f"{c.name} declares `{attr_}` only under a condition: for the other configuration (e.g. external_terms=False) the object carries no declared "
                         f"parity at all and its results are symmetrised / mapped to images without any sign", stmt=f"{c.name}.{attr_} conditional")
            fs_ = [st_ for st_ in ast.walk(ini.node) if isinstance(st_, ast.Assign) and len(st_.targets) == 1 and norm(st_.targets[0]) == "self.Formula"
                   and isinstance(st_.value, ast.Name)]
            if fs_ and dd_:
                fc_ = idx.resolve_name(m, fs_[0].value.id)
                fini_ = fc_.methods.get("__init__") if fc_ is not None and hasattr(fc_, "methods") else None
                fd_ = _decls(fini_) if fini_ is not None else {}
                for attr_ in ("transformTR", "transformInv"):
                    if attr_ in dd_ and attr_ in fd_:
                        a_, b_ = norm(dd_[attr_][-1].value), norm(fd_[attr_][-1].value)
                        r1.check(a_ == b_, f"{c.name} and its Formula {fc_.name} declare the same {attr_}", fini_, fd_[attr_][-1],
                                 f"{fc_.name} declares {attr_} = {b_} while the calculator {c.name} that uses it declares {a_}: one of the two is not the parity of "
                                 f"the integrand (the two declaration sites contradict each other)", stmt=f"{fc_.name}.{attr_} vs {c.name}")
    r1.note(f"einsum/sum terms visited: {n_terms}; consumed declarations compared: {inferred_consumed}; declared-only "
            f"(not inferable): {declared_only}")
    ctx.extra["terms_visited"] = n_terms
    if inferred_consumed < 12 and not ctx.findings():
        raise AnalysisError(f"R08.1: only {inferred_consumed} consumed declarations could be compared (expected ≥ 12; 18 on the tree this was written for)")
    for fq, who in roots.items():
        if fq.startswith("?"):
            r1.observe(f"{who[0]} refers to `{fq[1:]}`, which does not exist in the package")

    # ---------------------------------------------------------------- R08.2
    r2 = ctx.rule("R08.2", "covariant(): declared transform uses the applied derivative order; consumed table rows", min_instances=6)
    tabs = {"TR": _parse_table(idx.function(DK, "get_transform_TR"), idx), "Inv": _parse_table(idx.function(DK, "get_transform_Inv"), idx)}
    for kind, fn in (("TR", "get_transform_TR"), ("Inv", "get_transform_Inv")):
        f = idx.function(DK, fn)
        t = norm(f.node).replace(" ", "")
        r2.instance(f"{f.short}: {len(tabs[kind])} names")
        okpar = bool(tabs[kind])
        for nm_, p_ in tabs[kind].items():
            if p_ is None:
                continue
            for d_ in range(4):
                try:
                    okpar = okpar and _fold(idx, f, {f.params[0]: nm_, f.params[1]: d_}) == ("odd" if (p_ + d_) % 2 == 1 else "ident")
                except (_Raise, AnalysisError):
                    okpar = False
        r2.check(okpar,
                 f"{fn}: parity rule (p + der) mod 2", f, f.node, f"{fn} no longer returns odd iff (p + der) is odd", stmt="parity rule")

    def table_sign(kind: str, name: str, der: int) -> Optional[int]:
        p = tabs[kind].get(name, "missing")
        if p == "missing":
            raise AnalysisError(f"name {name!r} missing from the {kind} table")
        if p is None:
            return None
        return -1 if (p + der) % 2 == 1 else 1

    # names whose Matrix_ln declaration is consumed
    consumed_names: Dict[str, Set[str]] = {}
    for call, who in cov_consumed:
        nm = call.args[0].value if call.args and isinstance(call.args[0], ast.Constant) else None
        if nm:
            consumed_names.setdefault(nm, set()).add(who)
    for c in idx.module(FRM + "covariant.py").classes.values():
        res = ge.class_result(c)
        cc = res.env.get("__copy_call__")
        if cc is not None and c.fq in consumed and isinstance(cc, ast.Call) and cc.args and isinstance(cc.args[0], ast.Constant):
            consumed_names.setdefault(cc.args[0].value, set()).add(c.name)
    for nm in sorted(consumed_names):
        r2.instance(f"table row {nm!r} (consumed by {sorted(consumed_names[nm])[:3]})")
        for kind, k in (("TR", 0), ("Inv", 1)):
            s0 = table_sign(kind, nm, 0)
            r2.check(s0 == BASE[nm][k], f"{kind} parity of {nm}: table {s0:+d} = base {BASE[nm][k]:+d}" if s0 else f"{nm} {kind}",
                     idx.function(DK, "get_transform_" + kind), idx.function(DK, "get_transform_" + kind).node,
                     f"get_transform_{kind} declares `{nm}` {'even' if s0 == 1 else 'odd' if s0 == -1 else 'untransformed'} before "
                     f"derivatives, but {nm}(−k) = {'+' if BASE[nm][k] == 1 else '−'}{nm}(k){'*' if kind == 'TR' else ''}: every "
                     f"formula built on covariant('{nm}') is symmetrised with the wrong sign", stmt=f"{kind} table row {nm}")
    for nm, p in tabs["TR"].items():
        if nm not in consumed_names and p is not None and nm in BASE and (1 if p == 0 else -1) != BASE[nm][0]:
            r2.observe(f"TR table row {nm!r} declares {'even' if p == 0 else 'odd'}, base grade is {show(BASE[nm])}; no result consumes "
                       f"the declaration of covariant('{nm}') directly")
    cov = idx.function(DK, "Data_K.covariant")
    cpm = fctx(cov)[2]
    ncalls = 0
    for c in ast.walk(cov.node):
        if isinstance(c, ast.Call) and call_name(c) in ("get_transform_TR", "get_transform_Inv"):
            ncalls += 1
            branch = None
            for g in enclosing_all(cpm, c, ast.If):
                t = norm(g.test).replace(" ", "")
                if t in ("gender==0", "gender==1") and in_body(g.body, c):
                    branch = t
                    break
            want = "commader" if branch == "gender==0" else "gender" if branch == "gender==1" else None
            got = norm(c.args[1]) if len(c.args) > 1 else ([norm(k.value) for k in c.keywords if k.arg == "der"] or ["<default 0>"])[0]
            r2.instance(f"{cov.short}: {norm1(c)} in branch {branch}")
            r2.check(want is not None and got == want and norm(c.args[0]) == "name",
                     f"{call_name(c)}(name, {got}) in the `{branch}` branch", cov, enclosing(cpm, c, ast.stmt),
                     f"in the `{branch}` branch of Data_K.covariant the declared transform is `{norm1(c)}`, but the matrix built there "
                     f"carries `{want}` k-derivative(s): the declared {'time-reversal' if 'TR' in call_name(c) else 'inversion'} parity "
                     f"of every such matrix (e.g. generalised derivatives of SS, CC, OO) is wrong by one derivative order",
                     stmt=norm1(c))
    if ncalls < 4:
        raise AnalysisError("Data_K.covariant: expected four get_transform_* calls")
    ml = [c for c in ast.walk(cov.node) if isinstance(c, ast.Call) and norm(c.func) == "formula.Matrix_ln"]
    r2.check(len(ml) == 1 and norm(ml[0].args[0]).replace(" ", "") == "self.Xbar(name,commader)", "gender 0: matrix = Xbar(name, commader)", cov,
             ml[0] if ml else cov.node, "the gender==0 branch no longer wraps Xbar(name, commader)", stmt="Matrix_ln(Xbar)")
    gd = [c for c in ast.walk(cov.node) if isinstance(c, ast.Call) and norm(c.func) == "formula.Matrix_GenDer_ln"]
    r2.check(len(gd) == 1 and [norm(a).replace(" ", "") for a in gd[0].args[:3]] ==
             ["self.covariant(name)", "self.covariant(name,commader=1)", "self.Dcov"],
             "gender 1: generalised derivative of (X, ∂X, D)", cov, gd[0] if gd else cov.node,
             "the gender==1 branch no longer builds Matrix_GenDer_ln(X, X comma-derivative, Dcov)", stmt="Matrix_GenDer_ln args")
    vc = idx.function(DK, "Data_K.V_covariant")
    r2.instance(vc.short)
    sup = [c for c in ast.walk(vc.node) if isinstance(c, ast.Call) and norm(c.func) == "super().__init__"]
    if len(sup) != 1:
        raise AnalysisError("Data_K.V_covariant: inner class V.__init__ → super().__init__(…) not found")
    decl = {}
    for k in sup[0].keywords:
        if k.arg in ("transformTR", "transformInv"):
            kind = "TR" if k.arg == "transformTR" else "Inv"
            v = k.value
            if isinstance(v, ast.Call) and call_name(v) in ("get_transform_TR", "get_transform_Inv"):
                nm = v.args[0].value if isinstance(v.args[0], ast.Constant) else None
                der = v.args[1].value if len(v.args) > 1 and isinstance(v.args[1], ast.Constant) else \
                    next((kk.value.value for kk in v.keywords if kk.arg == "der" and isinstance(kk.value, ast.Constant)), 0)
                decl[kind] = table_sign("TR" if "TR" in call_name(v) else "Inv", nm, der) if nm else "?"
            else:
                decl[kind] = GradeEngine._decl_sign(v)
    rv = [s for s in stmts(vc.node) if isinstance(s, ast.Return)]
    src = rv[0].value.args[0] if rv and isinstance(rv[0].value, ast.Call) and rv[0].value.args else None
    gv = ge.leaf(ast.parse(norm(src).replace("self.", "data_K."), mode="eval").body, vc.module, {}, {}) if src is not None else TOP
    r2.check((decl.get("TR"), decl.get("Inv")) == gv, f"V_covariant declares {decl} = grade {show(gv)} of {norm1(src) if src else '?'}",
             vc, sup[0], f"the covariant band velocity is declared (TR, inversion) = ({decl.get('TR')}, {decl.get('Inv')}) but "
             f"`{norm1(src) if src is not None else '?'}` has parity {show(gv)}: v(−k) = −v(k) under both operations; tabulated "
             f"velocities get the wrong sign at symmetry-generated k-points", stmt=f"V_covariant declared {decl}")

    # ---------------------------------------------------------------- R08.3
    r3 = ctx.rule("R08.3", "dynamic formulas and spin-velocity matrices (array code)", min_instances=4)
    dm = idx.module(DY)
    for cname, attr in (("Formula_SHC", "imAB"), ("ShiftCurrentFormula", "Imn")):
        c = dm.classes.get(cname)
        if c is None:
            raise AnalysisError(f"{DY}:{cname} vanished")
        res = ge.array_attr_grade(c, attr)
        r3.instance(f"{c.fq}: self.{attr} → {show(res.nn)}")
        for cf in res.conflicts:
            r3.violation(c.methods["__init__"], cf.node, f"{cname}: a term of grade {show(cf.term)} is added to an expression of grade "
                         f"{show(cf.acc)}", stmt=cf.text[:150])
        tr, inv = res.declared
        if res.nn in (TOP, Z):
            raise AnalysisError(f"{cname}: grade of self.{attr} not inferable ({res.unknown[:3]})")
        r3.check((tr, inv) == res.nn, f"{cname}: declared ({tr},{inv}) = inferred {show(res.nn)}", f"{DY}:{cname}", res.declared_node or c.node,
                 f"{cname} declares (TR, inversion) = ({tr}, {inv}) but its matrix-element tensor has parity {show(res.nn)}",
                 stmt=f"{cname}: declared ({tr},{inv}) vs inferred {show(res.nn)}")
    ji = dm.classes.get("Formula_dyn_ident")
    r3.instance(f"{ji.fq}")
    tr, inv, node = ge.declared(ji)
    r3.check((tr, inv) == (1, 1), "JDOS integrand (a count) is even/even", f"{DY}:Formula_dyn_ident", node or ji.node,
             f"Formula_dyn_ident declares ({tr},{inv}) for a band-pair count", stmt="Formula_dyn_ident")
    sv = idx.cls(FRM + "covariant.py", "SpinVelocity")
    rs = ge.class_result(sv)
    for k, g in rs.env.items():
        if k.startswith("method:"):
            r3.instance(f"SpinVelocity.{k[7:]} → {show(g)}")
            r3.check(g == (rs.declared[0], rs.declared[1]), f"SpinVelocity.{k[7:]}: {show(g)} = declared", f"{FRM}covariant.py:SpinVelocity.{k[7:]}",
                     sv.methods[k[7:]].node, f"SpinVelocity.{k[7:]} builds a matrix of parity {show(g)} but the class declares "
                     f"({rs.declared[0]}, {rs.declared[1]})", stmt=f"SpinVelocity.{k[7:]} {show(g)}")
    for cname in ("Formula_OptCond", "InjectionCurrentFormula"):
        r3.note(f"{cname}: transform permutes tensor axes — declared-only, not decided")

    # ---------------------------------------------------------------- R08.4
    r4 = ctx.rule("R08.4", "FormulaSum literals add terms of one grade", min_instances=4)
    seen = set()
    n_terms = n_known = 0
    for node, gs in ge.sum_literals:
        if id(node) in seen:
            continue
        seen.add(id(node))
        r4.instance(f"FormulaSum at line {getattr(node, 'lineno', '?')}: {[show(g) for g in gs]}")
        known = [g for g in gs if g not in (TOP,)]
        n_terms += len(gs)
        n_known += len(known)
        if len(known) != len(gs):
            r4.note(f"FormulaSum at line {getattr(node, 'lineno', '?')}: {len(gs) - len(known)} term(s) of undetermined grade (not decided)")
        r4.check(len(set(known)) <= 1, f"terms {[show(g) for g in gs]}", FRM + "covariant.py", node,
                 f"a FormulaSum adds terms of parities {[show(g) for g in gs]}: the sum has no definite symmetry (its run-time assert "
                 f"only fires when the calculator is used)", stmt=f"FormulaSum terms {[show(g) for g in gs]}")
    r4.expect(n_terms == 0 or 2 * n_known >= n_terms, f"grades of FormulaSum terms inferred ({n_known}/{n_terms})", FRM + "covariant.py", None,
              f"R08.4: the grade of only {n_known} of {n_terms} FormulaSum terms could be inferred")


from ..selftest import V  # noqa: E402

COV = FRM + "covariant.py"
BAS = FRM + "basic.py"
SELFTEST = [
    V("Der2Omega declares its parities only with external terms (seeded C08-m3)", FRM + "covariant.py",
      "            self.ddO = Der2O(data_K)\n        self.ndim = 3\n        self.transformTR = transform_odd\n        self.transformInv = transform_ident\n",
      "            self.ddO = Der2O(data_K)\n            self.transformTR = transform_odd\n            self.transformInv = transform_ident\n        self.ndim = 3\n", "fire", "R08.1"),
    V("Omega declared TR-even", COV,
      "        self.ndim = 1\n        self.transformTR = transform_odd\n        self.transformInv = transform_ident\n\n    def nn(self, ik, inn, out):\n        summ = np.zeros((len(inn), len(inn), 3), dtype=complex)\n\n        if self.internal_terms:\n            summ += -1j * cached_einsum(\n                \"mlc,lnc->mnc\",\n                self.D.nl(ik, inn, out)[:, :, alpha_A],\n                self.D.ln(ik, inn, out)[:, :, beta_A])",
      "        self.ndim = 1\n        self.transformTR = transform_ident\n        self.transformInv = transform_ident\n\n    def nn(self, ik, inn, out):\n        summ = np.zeros((len(inn), len(inn), 3), dtype=complex)\n\n        if self.internal_terms:\n            summ += -1j * cached_einsum(\n                \"mlc,lnc->mnc\",\n                self.D.nl(ik, inn, out)[:, :, alpha_A],\n                self.D.ln(ik, inn, out)[:, :, beta_A])",
      "fire", "R08.1"),
    V("Der3E declared inversion-even", COV, "        self.ndim = 3\n        self.transformTR = transform_odd\n        self.transformInv = transform_odd\n\n    def nn(self, ik, inn, out):\n        summ = np.zeros((len(inn), len(inn), 3, 3, 3), dtype=complex)\n        summ += 1 * self.dW.nn",
      "        self.ndim = 3\n        self.transformTR = transform_odd\n        self.transformInv = transform_ident\n\n    def nn(self, ik, inn, out):\n        summ = np.zeros((len(inn), len(inn), 3, 3, 3), dtype=complex)\n        summ += 1 * self.dW.nn",
      "fire", "R08.1"),
    V("Omega: external D·A term loses its factor structure (1j inserted)", COV,
      "            summ += -1 * cached_einsum(\n                \"mlc,lnc->mnc\",\n                self.D.nl(ik, inn, out)[:, :, alpha_A],\n                self.A.ln(ik, inn, out)[:, :, beta_A])",
      "            summ += -1j * cached_einsum(\n                \"mlc,lnc->mnc\",\n                self.D.nl(ik, inn, out)[:, :, alpha_A],\n                self.A.ln(ik, inn, out)[:, :, beta_A])",
      "fire", "R08.1"),
    V("DerOmega uses A instead of its generalised derivative", COV,
      "                    self.D.nl(ik, inn, out)[:, :, a],\n                    self.dA.ln(ik, inn, out)[:, :, b, :])\n                summ += -1 * s * cached_einsum(\n                    \"mlcd,lnc->mncd\",",
      "                    self.D.nl(ik, inn, out)[:, :, a],\n                    self.A.ln(ik, inn, out)[:, :, b, None])\n                summ += -1 * s * cached_einsum(\n                    \"mlcd,lnc->mncd\",",
      "fire", "R08.1"),
    V("Morb_H built on OO instead of CC", COV, "            self.C = data_K.covariant('CC')\n        self.D = data_K.Dcov\n        self.E = data_K.E_K\n        self.ndim = 1",
      "            self.C = data_K.covariant('BB')\n        self.D = data_K.Dcov\n        self.E = data_K.E_K\n        self.ndim = 1", "fire", "R08.1"),
    V("tildeFc_d declared like tildeFc", BAS, "        super().__init__(tildeFab_d, data_K, **parameters)\n        self.transformTR = transform_ident\n        self.transformInv = transform_odd",
      "        super().__init__(tildeFab_d, data_K, **parameters)\n        self.transformTR = transform_odd\n        self.transformInv = transform_ident", "fire", "R08.1"),
    V("velocity declared through the table with der=0 (seeded C08-m1)", DK,
      "super().__init__(matrix, transformTR=transform_odd, transformInv=transform_odd)",
      "super().__init__(matrix, transformTR=get_transform_TR('Ham'), transformInv=transform_odd)", "fire", "R08.2"),
    V("generalised derivative: inversion parity from commader (seeded C08-m2)", DK, "transformInv=get_transform_Inv(name, gender)",
      "transformInv=get_transform_Inv(name, commader)", "fire", "R08.2"),
    V("SS moved to the TR-even row", DK,
      "    if name in ['Ham']:  # even before derivative\n        p = 0\n    elif name in ['CC', 'FF', 'OO', 'GG', 'SS', 'rotAA', 'rotAAab', 'CCab_antisym']:  # odd before derivative",
      "    if name in ['Ham', 'SS']:  # even before derivative\n        p = 0\n    elif name in ['CC', 'FF', 'OO', 'GG', 'rotAA', 'rotAAab', 'CCab_antisym']:  # odd before derivative",
      "fire", "R08.2"),
    V("shift current declared inversion-even", DY, "        self.Imn = Imn\n        self.ndim = 3\n        self.transformTR = transform_ident\n        self.transformInv = transform_odd",
      "        self.Imn = Imn\n        self.ndim = 3\n        self.transformTR = transform_ident\n        self.transformInv = transform_ident", "fire", "R08.3"),
    V("SHC: real part taken instead of imaginary", DY, "self.imAB = np.imag(A[:, :, :, :, None, :] * B.swapaxes(1, 2)[:, :, :, None, :, None])",
      "self.imAB = np.real(A[:, :, :, :, None, :] * B.swapaxes(1, 2)[:, :, :, None, :, None])", "fire", "R08.3"),
    V("NLDrude spin: second term built with DerSpin instead of Der2Spin", COV,
      "term2 = FormulaProduct([Der2Spin(data_K), data_K.covariant('Ham', commader=1)], name='Der2SpinVel')",
      "term2 = FormulaProduct([DerSpin(data_K), data_K.covariant('Ham', commader=1)], name='Der2SpinVel')", "fire", "R08.4"),
    V("neutral: real prefactor changed in a term", COV, "summ += 0.5 * self.O.nn(ik, inn, out)", "summ += (1. / 2) * self.O.nn(ik, inn, out)", "silent"),
    V("neutral: Hermitisation written with explicit transpose", COV,
      "        summ += summ.swapaxes(0, 1).conj()\n        return summ\n\n    def ln(self, ik, inn, out):\n        raise NotImplementedError()\n\n\n########################\n#   derivative of      #\n#   Berry curvature    #",
      "        summ = summ + summ.transpose(1, 0, 2).conj()\n        return summ\n\n    def ln(self, ik, inn, out):\n        raise NotImplementedError()\n\n\n########################\n#   derivative of      #\n#   Berry curvature    #",
      "silent"),
]
