"""C26 — system interpolation reproduces its endpoints (structural clauses).

R26.1 every interpolated quantity is the affine form x0 + alpha (x1 − x0), over every common matrix key.
R26.2 a write of the Wannier centres is followed, on every path to the return, by invalidation of the cached reduced
      centres and a refresh of the R-vector shifts built from the new centres.
R26.3 re-embedding onto the union R-set maps every system through its own index map; spin channels are paired.
"""
from __future__ import annotations

import ast
from typing import Dict, List, Optional

from ..algebra import Rat, to_rat
from ..index import AnalysisError, call_name, dotted, norm, norm1, names_in
from ..sem import Sem, bind_target, inline_private_helpers, list_elements
from .common import const_of, calls, enclosing, enclosing_all, fctx, in_body, is_name, method_calls, stmts, store_targets
from .spin import chain_parts, channel_of_name

LEVEL = "other"
EXPLANATION = (
    "The interpolation expressions are normalised as exact polynomials in (x0, x1, alpha) and compared with "
    "x0 + alpha·(x1 − x0) (so at alpha = 0 / 1 they are x0 / x1 identically). A CFG must-pass rule decides that every "
    "store to `wannier_centers_cart` of the interpolated system is followed on all paths to the return by "
    "clear_cached_wcc() and by a rebuild of `rvec` from the new `wannier_centers_red` (the shift-dependent factors "
    "R + τ_j − τ_i otherwise stay those of system0: energies agree, Berry curvature does not). Re-embedding and spin "
    "channel pairing are decided by def-use/positional pairing. Not decided: equality of evaluated band quantities.")

IP = "wannierberri/system/interpolate.py"


def _sysnum(e: ast.AST) -> Optional[str]:
    """'0' / '1' if the expression reads from self.system0 / self.system1 (or system0 / system1 parameters)."""
    p = chain_parts(e)
    for x in p[:2]:
        if x in ("system0", "system1"):
            return x[-1]
    return None


def _affine_ok(expr: ast.AST, alpha: str) -> Optional[str]:
    """None if expr ≡ X0 + alpha (X1 − X0) with X0/X1 the same attribute of system0/system1; else a message."""
    leaves: Dict[str, str] = {}

    def env(x):
        if isinstance(x, ast.Name) and x.id == alpha:
            return Rat.sym("alpha")
        if isinstance(x, (ast.Attribute, ast.Subscript)):
            k = _sysnum(x)
            if k is not None:
                what = norm(x).replace("self.", "").replace("system" + k, "system#")
                leaves[k] = what
                return Rat.sym("X" + k)
        return None
    try:
        r = to_rat(expr, env)
    except AnalysisError as e:
        return str(e)
    want = Rat.sym("X0") + Rat.sym("alpha") * (Rat.sym("X1") - Rat.sym("X0"))
    if set(leaves) != {"0", "1"}:
        return f"mixes {sorted(leaves.items())} instead of the same quantity of system0 and system1"
    if leaves["0"] != leaves["1"]:
        return f"mixes different quantities: {leaves['0']} of system0 with {leaves['1']} of system1"
    if not r.equals(want):
        return f"normal form {r} is not x0 + alpha·(x1 − x0)"
    return None


def check_centre_refresh(rule, f, objname: Optional[str] = None) -> int:
    """Every `<obj>.wannier_centers_cart = …` in f must be followed by clear_cached_wcc + rvec refresh on `<obj>`."""
    cfg, du, pm = fctx(f)
    n = 0
    for s in stmts(f.node):
        for t in store_targets(s):
            base = t.value if isinstance(t, ast.Subscript) else t
            if isinstance(base, ast.Attribute) and base.attr == "wannier_centers_cart" and isinstance(base.value, ast.Name):
                obj = base.value.id
                if objname is not None and obj != objname:
                    continue
                n += 1
                rule.instance(f"{f.short}: {norm1(s, 90)}")
                snode = cfg.node(s)
                clears = [cfg.node(enclosing(pm, c, ast.stmt)) for c in method_calls(f.node, "clear_cached_wcc")
                          if is_name(c.func.value, obj)]
                swc = [cfg.node(enclosing(pm, c, ast.stmt)) for c in method_calls(f.node, "set_wannier_centers")
                       if is_name(c.func.value, obj)]
                refresh = []
                for s2 in stmts(f.node):
                    for t2 in store_targets(s2):
                        if isinstance(t2, ast.Attribute) and t2.attr == "rvec" and is_name(t2.value, obj):
                            v = s2.value if isinstance(s2, ast.Assign) else None
                            if isinstance(v, ast.Call) and call_name(v).endswith("Rvectors"):
                                kw = {k.arg: norm(k.value) for k in v.keywords}
                                if kw.get("shifts_left_red") == f"{obj}.wannier_centers_red":
                                    refresh.append(cfg.node(s2))
                        if isinstance(t2, ast.Attribute) and t2.attr in ("shifts_left_red", "shifts_right_red") \
                                and norm(t2.value) == f"{obj}.rvec":
                            refresh.append(cfg.node(s2))
                for c in method_calls(f.node, "reorder") + method_calls(f.node, "double_spin"):
                    if norm(c.func.value) == f"{obj}.rvec":
                        refresh.append(cfg.node(enclosing(pm, c, ast.stmt)))
                ok1 = cfg.must_pass(snode, clears + swc) and snode not in clears
                p1 = cfg.path_avoiding(snode, cfg.exit, clears + swc)
                rule.check(ok1, f"{obj}: cached reduced centres invalidated after the write", f, s,
                           f"`{obj}.wannier_centers_cart` is rewritten but `{obj}.clear_cached_wcc()` does not follow on every "
                           f"path to the return: `wannier_centers_red` (a cached property) keeps the old centres",
                           path=cfg.describe_path(p1 or []))
                ok2 = cfg.must_pass(snode, refresh)
                p2 = cfg.path_avoiding(snode, cfg.exit, refresh)
                rule.check(ok2, f"{obj}: rvec shifts rebuilt from the new centres", f, s,
                           f"`{obj}.wannier_centers_cart` is rewritten but `{obj}.rvec` is not rebuilt from the new "
                           f"`{obj}.wannier_centers_red` on every path to the return: the system keeps the Wannier-centre "
                           f"shifts (R + τj − τi phase/derivative factors) of the object it was copied from",
                           path=cfg.describe_path(p2 or []))
                if ok1 and ok2 and refresh:
                    # the refresh must come after the invalidation (it reads wannier_centers_red)
                    okorder = all(any(cfg.dominates(c, r) for c in clears + swc) for r in refresh
                                  if cfg.reachable(snode, [r]))
                    rule.check(okorder, f"{obj}: invalidation precedes the rebuild", f, s,
                               f"`{obj}.rvec` is rebuilt from `wannier_centers_red` before the cache is cleared: it is "
                               f"built from the stale centres")
    return n


def run(ctx) -> None:
    idx = ctx.index
    cls = idx.cls(IP, "SystemInterpolator")
    soc = idx.cls(IP, "SystemInterpolatorSOC")
    f = cls.methods.get("interpolate")
    if f is None:
        raise AnalysisError("SystemInterpolator.interpolate vanished")
    cfg, du, pm = fctx(f)
    alpha = f.node.args.args[1].arg

    # ---------------------------------------------------------------- R26.1
    r1 = ctx.rule("R26.1", "interpolated quantities are x0 + alpha·(x1 − x0) over every common key", min_instances=2)
    FS = Sem(idx, f)
    n_aff = 0
    rets0 = [s_ for s_ in stmts(f.node) if isinstance(s_, ast.Return)]
    newname0 = rets0[0].value.id if rets0 and isinstance(rets0[0].value, ast.Name) else None
    mixes = []       # (report node, target node, value expr, evaluation node, loop description)
    for s_ in stmts(f.node):
        if isinstance(s_, ast.Assign) and isinstance(s_.targets[0], (ast.Attribute, ast.Subscript)) and norm(s_.targets[0]).startswith(f"{newname0}."):
            v_ = FS.resolve(s_.value, cfg.node(s_))
            if alpha in names_in(v_):
                mixes.append((s_, s_.targets[0], v_, enclosing(pm, s_, ast.For)))
    for c_ in method_calls(f.node, "update"):
        if norm(c_.func.value) == f"{newname0}._XX_R" and c_.args and isinstance(c_.args[0], ast.DictComp) and len(c_.args[0].generators) == 1:
            dc = c_.args[0]
            tv = FS.comp_element(dc, du.node_of_expr(c_))
            if isinstance(tv, ast.Tuple):
                tgt = ast.Subscript(value=c_.func.value, slice=tv.elts[0], ctx=ast.Store())
                mixes.append((enclosing(pm, c_, ast.stmt), tgt, tv.elts[1], dc.generators[0]))
    for st_, tg, v_, lp_ in mixes:
        n_aff += 1
        r1.instance(f"{f.short}: {norm1(st_, 100)}")
        msg = _affine_ok(v_, alpha)
        r1.check(msg is None, f"`{norm1(tg)}` is affine in alpha with endpoints system0/system1", f, st_,
                 f"`{norm1(v_, 140)}` is not the linear mix of system0 and system1: {msg}; the endpoints alpha=0/1 do not "
                 f"reproduce the input systems")
        if lp_ is not None:
            it = norm(lp_.iter)
            common_attr = False
            if isinstance(lp_.iter, ast.Attribute) and isinstance(lp_.iter.value, ast.Name) and lp_.iter.value.id == "self":
                # an attribute that __init__ sets to the keys present in both systems
                ini0 = cls.methods["__init__"]
                IS0 = Sem(idx, ini0)
                for a_ in stmts(ini0.node):
                    if isinstance(a_, ast.Assign) and len(a_.targets) == 1 and norm(a_.targets[0]) == it:
                        src_ = IS0.rnorm(a_.value, IS0.cfg.node(a_))
                        common_attr = "self.system0._XX_R" in src_ and "self.system1._XX_R" in src_ and ("intersection" in src_ or " & " in src_)
            r1.check(common_attr or it in ("self.system0._XX_R", "self.system0._XX_R.keys()", "self.system1._XX_R", "self.system1._XX_R.keys()", "self.system0._XX_R.items()",
                                           "self.system1._XX_R.items()"),
                     "the loop runs over every (common) matrix key", f, lp_ if isinstance(lp_, ast.For) else st_,
                     f"matrices are interpolated over `{it}`, not over every key of the (equalised) _XX_R dictionaries")
            key = lp_.target.id if isinstance(lp_.target, ast.Name) else (norm(lp_.target.elts[0]) if isinstance(lp_.target, ast.Tuple) else None)
            r1.check(isinstance(tg, ast.Subscript) and norm(tg.value).endswith("._XX_R") and norm(tg.slice) == key,
                     "result stored under the same key", f, st_, f"interpolated matrix stored to `{norm1(tg)}`")
    if n_aff < 2:
        raise AnalysisError("interpolate(): expected the centre mix and the matrix mix")
    init = cls.methods["__init__"]
    init_eq = inline_private_helpers(idx, init)
    IS = Sem(idx, init_eq)
    dels = [s_ for s_ in ast.walk(init_eq.node) if (isinstance(s_, ast.Delete) and isinstance(s_.targets[0], ast.Subscript) and norm(s_.targets[0].value).endswith("._XX_R")) or
            (isinstance(s_, ast.Expr) and isinstance(s_.value, ast.Call) and isinstance(s_.value.func, ast.Attribute) and s_.value.func.attr == "pop"
             and norm(s_.value.func.value).endswith("._XX_R"))]
    okeq = False
    for d_ in dels:
        lp_ = enclosing(IS.pm, d_, ast.For)
        if lp_ is None:
            continue
        src = IS.rnorm(lp_.iter, IS.cfg.node(lp_))
        if "self.system0._XX_R" in src and "self.system1._XX_R" in src and (("intersection" in src and ("union" in src or " - " in src)) or "symmetric_difference" in src or " ^ " in src):
            okeq = True
    r1.check(okeq, "__init__ equalises the key sets of both systems", init, dels[0] if dels else init.node,
             "__init__ no longer removes matrices present in only one system", stmt="key equalisation")
    rets = [s for s in stmts(f.node) if isinstance(s, ast.Return)]
    newname = rets[0].value.id if rets and isinstance(rets[0].value, ast.Name) else None
    if newname is None:
        raise AnalysisError("interpolate(): return value is not a plain name")
    d = du.single_def(newname, cfg.node(rets[0]))
    r1.check(d is not None and isinstance(d.value, ast.Call) and call_name(d.value) == "copy.deepcopy"
             and _sysnum(d.value.args[0]) in ("0", "1"), "the result starts as a deep copy of an endpoint system", f,
             d.stmt if d else f.node, "the interpolated system is not built from a deep copy (it would alias the inputs)")

    # ---------------------------------------------------------------- R26.2
    r2 = ctx.rule("R26.2", "centre write ⇒ cached centres invalidated and rvec shifts rebuilt")
    n = check_centre_refresh(r2, f, newname)
    if n == 0:
        raise AnalysisError("interpolate(): no store to <new>.wannier_centers_cart found")
    if ctx.thorough:
        for g in idx.all_functions():
            if g is f or g.module.relpath.startswith("wannierberri/w90files"):
                continue
            if "wannier_centers_cart" not in norm(g.node):
                continue
            gcfg, gdu, gpm = fctx(g)
            for s in stmts(g.node):
                for t in store_targets(s):
                    base = t.value if isinstance(t, ast.Subscript) else t
                    if isinstance(base, ast.Attribute) and base.attr == "wannier_centers_cart" and isinstance(base.value, ast.Name):
                        obj = base.value.id
                        txt = norm(g.node)
                        has_clear = f"{obj}.clear_cached_wcc()" in txt
                        has_ref = f"shifts_left_red={obj}.wannier_centers_red" in txt or f"{obj}.rvec.reorder(" in txt or \
                            f"{obj}.rvec.double_spin(" in txt or f"{obj}.rvec = None" in txt
                        r2.observe(f"{g.short}: `{norm1(s, 70)}` — clear_cached_wcc: {has_clear}, rvec refresh/fresh: {has_ref}")

    # ---------------------------------------------------------------- R26.3
    r3 = ctx.rule("R26.3", "re-embedding uses each system's own index map; spin channels paired", min_instances=2)
    # every matrix of the interpolated system is the affine mix: nothing in interpolate() may afterwards re-derive matrices from one end point's
    # settings (set_soc_axis rebuilds Ham_SOC and SS from the axis / scale stored on the object, which is system0's copy)
    for cls_i in ("SystemInterpolator", "SystemInterpolatorSOC"):
        fi_ = idx.cls(IP, cls_i).methods.get("interpolate")
        if fi_ is None:
            continue
        for c_ in ast.walk(fi_.node):
            if isinstance(c_, ast.Call) and isinstance(c_.func, ast.Attribute) and c_.func.attr in ("set_soc_axis", "set_soc_R", "set_spin_pairs", "set_spin_interlaced"):
                r3.violation(fi_, c_, f"`{norm1(c_, 80)}` in {cls_i}.interpolate re-derives matrices of the new system from settings stored on it (a copy of system0's): "
                             f"the linearly mixed Ham_SOC / SS are overwritten, so interpolate(1) no longer reproduces system1 when the two systems were set up with "
                             f"different axes or scales")
    init_i = inline_private_helpers(idx, init)
    IS2 = Sem(idx, init_i)
    icfg, idu, ipm = IS2.cfg, IS2.du, IS2.pm
    # the embedding store  NEW[MAP] = OLD  (NEW a zero array indexed by the union R-set)
    emb = []
    for s_ in ast.walk(init_i.node):
        if isinstance(s_, ast.Assign) and isinstance(s_.targets[0], ast.Subscript) and isinstance(s_.targets[0].slice, ast.Name) and not isinstance(s_.value, ast.Call):
            tgv = IS2.rnorm(s_.targets[0].value, icfg.node(s_))
            if "np.zeros(" in tgv or norm(s_.targets[0].value).endswith("]") and "np.zeros(" in IS2.rnorm(s_.targets[0].value, icfg.node(s_)):
                emb.append(s_)
    if len(emb) != 1:
        emb2 = [s_ for s_ in ast.walk(init_i.node) if isinstance(s_, ast.Assign) and isinstance(s_.targets[0], ast.Subscript) and isinstance(s_.targets[0].slice, ast.Name)
                and enclosing(ipm, s_, ast.For) is not None and "_XX_R" in IS2.rnorm(s_.value, icfg.node(s_)) and not isinstance(s_.value, ast.Call)]
        emb = emb2 if len(emb2) == 1 else emb
    if len(emb) != 1:
        r3.expect(False, "embedding store located", init, init.node, "SystemInterpolator.__init__: the store `new_matrix[index map] = old matrix` was not found")
    else:
        es = emb[0]
        r3.instance(f"{init.short}: {norm1(es, 90)}")
        outer = None
        for l_ in enclosing_all(ipm, es, ast.For):
            outer = l_
        els = list_elements(IS2, outer.iter, icfg.node(outer)) if outer is not None else None
        if els is None or len(els) != 2:
            r3.expect(False, "loop over the two systems enumerated", init, outer or es, "SystemInterpolator.__init__: the loop over (system, index map) pairs could not be enumerated")
        else:
            okpair = True
            seen_sys = []
            for el in els:
                env = bind_target(outer.target, el, {})
                if env is None:
                    okpair = False
                    break

                def ev(expr, env=env):
                    """value of a loop-body expression in this iteration (locals of the body substituted, literal lists indexed)"""
                    x = expr
                    for _ in range(6):
                        if isinstance(x, ast.Name) and x.id in env:
                            x = env[x.id]
                            continue
                        if isinstance(x, ast.Name):
                            dd = idu.single_def(x.id, icfg.node(es))
                            if dd is not None and dd.kind == "assign" and in_body(outer.body, dd.stmt):
                                x = IS2._subst(dd.value, env)
                                continue
                        if isinstance(x, ast.Subscript) and isinstance(x.slice, ast.Constant) and isinstance(x.slice.value, int) and isinstance(x.value, ast.Name):
                            le = list_elements(IS2, x.value, icfg.node(outer))
                            if le is not None and x.slice.value < len(le):
                                x = le[x.slice.value]
                                continue
                        break
                    return x
                mp = ev(es.targets[0].slice)
                old = ev(es.value)
                # provenance of the map: the list it enumerates (MAP = [index[R] for R in <R list of one system>])
                mpv = mp
                for _ in range(4):
                    if isinstance(mpv, ast.Name):
                        dd = idu.single_def(mpv.id, icfg.node(outer))
                        if dd is None or dd.kind != "assign":
                            break
                        mpv = dd.value
                    else:
                        break
                if isinstance(mpv, (ast.ListComp, ast.GeneratorExp)) and len(mpv.generators) == 1:
                    mtxt = IS2.rnorm(IS2._subst(mpv.generators[0].iter, env), icfg.node(outer))
                else:
                    mtxt = IS2.rnorm(mpv, icfg.node(outer)) if not any(isinstance(n, ast.Name) and n.id in env for n in ast.walk(mpv)) else norm(mpv)
                tnames = {n.id for n in ast.walk(outer.target) if isinstance(n, ast.Name)}
                saved_keep = IS2.keep_names
                IS2.keep_names = IS2.keep_names | tnames
                try:
                    otxt = norm(IS2._subst(IS2.resolve(old, icfg.node(es)), env)) if isinstance(old, (ast.Name, ast.Subscript, ast.Attribute)) else norm(old)
                finally:
                    IS2.keep_names = saved_keep
                k_old = "0" if "system0" in otxt and "system1" not in otxt else "1" if "system1" in otxt and "system0" not in otxt else None
                k_map = "0" if "system0" in mtxt and "system1" not in mtxt else "1" if "system1" in mtxt and "system0" not in mtxt else None
                seen_sys.append(k_old)
                if k_old is None or k_map is None or k_old != k_map:
                    okpair = False
            r3.check(okpair and sorted(x for x in seen_sys if x) == ["0", "1"], "system k is re-embedded with the index map built from its own R list", init, es,
                     "a system's matrices are re-embedded with the index map of the other system's R-vectors: blocks land on the "
                     "wrong R")
        rv = [s_ for s_ in ast.walk(init_i.node) if isinstance(s_, ast.Assign) and isinstance(s_.targets[0], ast.Attribute) and s_.targets[0].attr == "rvec"
              and isinstance(s_.value, ast.Call) and call_name(s_.value).endswith("Rvectors")]
        okrv = False
        if len(rv) == 1:
            obj = norm(rv[0].targets[0].value)
            IS2.keep_names = IS2.keep_names | {obj}
            kw = {k.arg: IS2.rnorm(k.value, icfg.node(rv[0])) for k in rv[0].value.keywords}
            okrv = kw.get("shifts_left_red") == f"{obj}.rvec.shifts_left_red" and kw.get("shifts_right_red", f"{obj}.rvec.shifts_right_red") in (f"{obj}.rvec.shifts_right_red", "None") \
                and "set(" in kw.get("iRvec", "") and "union" in kw.get("iRvec", "")
        r3.check(okrv, "each system keeps its own shifts on the union R-set", init,
                 rv[0] if rv else init.node, "the union-R Rvectors object does not keep the system's own shifts")
    # SOC: channel pairing
    si = soc.methods.get("__init__")
    sf = soc.methods.get("interpolate")
    if si is None or sf is None:
        raise AnalysisError("SystemInterpolatorSOC methods vanished")
    for s in stmts(si.node):
        if isinstance(s, ast.Assign) and isinstance(s.value, ast.Call) and call_name(s.value) == "SystemInterpolator":
            r3.instance(f"{si.short}: {norm1(s, 100)}")
            tch = channel_of_name(s.targets[0].attr) if isinstance(s.targets[0], ast.Attribute) else None
            a0, a1 = s.value.args[0], s.value.args[1]
            ch = [channel_of_name(chain_parts(a)[-1]) for a in (a0, a1)]
            sy = [_sysnum(a) for a in (a0, a1)]
            r3.check(ch == [tch, tch] and sy == ["0", "1"], f"{tch}-interpolator mixes system0.{tch} with system1.{tch}", si, s,
                     f"the `{tch}` interpolator is built from {norm1(a0)} and {norm1(a1)}")
    for s in stmts(sf.node):
        if isinstance(s, ast.Assign) and isinstance(s.targets[0], ast.Attribute) and s.targets[0].attr in ("system_up", "system_down") \
                and isinstance(s.value, ast.Call):
            r3.instance(f"{sf.short}: {norm1(s, 100)}")
            tch = channel_of_name(s.targets[0].attr)
            sch = channel_of_name(chain_parts(s.value.func)[1]) if len(chain_parts(s.value.func)) > 1 else None
            r3.check(tch == sch and s.value.args and is_name(s.value.args[0], sf.node.args.args[1].arg),
                     f"system_{tch} comes from the {tch} interpolator at the same alpha", sf, s,
                     f"`{norm1(s.targets[0])}` is produced by `{norm1(s.value)}`")
    # the number of spin channels of the interpolated system follows what was interpolated: a separately interpolated down channel ⇒ nspin 2,
    # down aliased to up ⇒ nspin 1 (the object is a deep copy of system0 and would otherwise keep system0's nspin)
    SFS = Sem(idx, sf)
    downs = [s_ for s_ in stmts(sf.node) if isinstance(s_, ast.Assign) and isinstance(s_.targets[0], ast.Attribute) and s_.targets[0].attr == "system_down"]
    nsp = [s_ for s_ in stmts(sf.node) if isinstance(s_, ast.Assign) and isinstance(s_.targets[0], ast.Attribute) and s_.targets[0].attr == "nspin"]
    r3.expect(bool(downs), "system_down assignments located", sf, sf.node, "SystemInterpolatorSOC.interpolate: no assignment to <new>.system_down found")
    for d_ in downs:
        cds_d = sorted((t_, p_) for t_, p_, _ in SFS.conditions(d_, resolve=False))
        want = 1 if (isinstance(d_.value, ast.Attribute) and d_.value.attr == "system_up") else 2
        same = [n_ for n_ in nsp if sorted((t_, p_) for t_, p_, _ in SFS.conditions(n_, resolve=False)) == cds_d and norm(n_.targets[0].value) == norm(d_.targets[0].value)]
        r3.check(len(same) == 1 and const_of(same[0].value) == want, f"nspin = {want} where `{norm1(d_, 60)}`", sf, d_,
                 f"`{norm1(d_, 70)}` is not accompanied by `{norm1(d_.targets[0].value)}.nspin = {want}`: the interpolated system keeps the nspin of the "
                 f"deep-copied system0, so with nspin (1, 2) endpoints the down channel is interpolated but ignored (or the reverse)", stmt=f"nspin {want}")
    r3.check("super().interpolate(" in norm(sf.node), "SOC interpolate extends the base interpolate (same centre/matrix rules)",
             sf, sf.node, "SystemInterpolatorSOC.interpolate no longer calls the base implementation", stmt="super().interpolate")


from ..selftest import V  # noqa: E402

_FIX = ("        new_system.clear_cached_wcc()\n"
        "        new_system.rvec = Rvectors(lattice=new_system.real_lattice, iRvec=new_system.rvec.iRvec,\n"
        "                                   shifts_left_red=new_system.wannier_centers_red)\n"
        "        new_system.clear_cached_R()\n")
SELFTEST = [
    V("nspin of the interpolated SOC system not updated (seeded C26-m4)", IP, "            new_system.nspin = 2\n", "", "fire", "R26.3"),
    V("centres written, nothing refreshed (original defect)", IP, _FIX, "", "fire", "R26.2"),
    V("cache cleared but rvec not rebuilt", IP, _FIX, "        new_system.clear_cached_wcc()\n", "fire", "R26.2"),
    V("rvec rebuilt before the cache is cleared", IP, _FIX,
      "        new_system.rvec = Rvectors(lattice=new_system.real_lattice, iRvec=new_system.rvec.iRvec,\n"
      "                                   shifts_left_red=new_system.wannier_centers_red)\n"
      "        new_system.clear_cached_wcc()\n", "fire", "R26.2"),
    V("refresh only when alpha > 0", IP, _FIX,
      "        if alpha > 0:\n            new_system.clear_cached_wcc()\n"
      "            new_system.rvec = Rvectors(lattice=new_system.real_lattice, iRvec=new_system.rvec.iRvec,\n"
      "                                       shifts_left_red=new_system.wannier_centers_red)\n", "fire", "R26.2"),
    V("weights do not sum to one", IP, "(1 - alpha) * self.system0._XX_R[key] + alpha * self.system1._XX_R[key]",
      "(1 - alpha) * self.system0._XX_R[key] + (1 + alpha) * self.system1._XX_R[key]", "fire", "R26.1"),
    V("centres mixed with swapped endpoints", IP,
      "(1 - alpha) * self.system0.wannier_centers_cart + alpha * self.system1.wannier_centers_cart",
      "alpha * self.system0.wannier_centers_cart + (1 - alpha) * self.system1.wannier_centers_cart", "fire", "R26.1"),
    V("matrix of system0 mixed with itself", IP, "(1 - alpha) * self.system0._XX_R[key] + alpha * self.system1._XX_R[key]",
      "(1 - alpha) * self.system0._XX_R[key] + alpha * self.system0._XX_R[key]", "fire", "R26.1"),
    V("index maps crossed", IP, "zip([self.system0, self.system1], [iRvec_map_0, iRvec_map_1])",
      "zip([self.system0, self.system1], [iRvec_map_1, iRvec_map_0])", "fire", "R26.3"),
    V("down interpolator fed with an up system", IP,
      "self.interpolator_down = SystemInterpolator(system0.system_down, system1.system_down, use_pointgroup)",
      "self.interpolator_down = SystemInterpolator(system0.system_down, system1.system_up, use_pointgroup)", "fire", "R26.3"),
    V("neutral: x0 + alpha (x1 - x0) spelling", IP, "(1 - alpha) * self.system0._XX_R[key] + alpha * self.system1._XX_R[key]",
      "self.system0._XX_R[key] + alpha * (self.system1._XX_R[key] - self.system0._XX_R[key])", "silent"),
    V("neutral: pointgroup set before the refresh", IP,
      _FIX + "        for key in self.system0._XX_R:",
      "        new_system.set_pointgroup(pointgroup=self.pointgroup)\n" + _FIX + "        for key in self.system0._XX_R:", "silent"),
]
