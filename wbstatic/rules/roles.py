"""Axis-role typing of array expressions (a small dimensional analysis for numpy code).

Every array axis may carry a *role* (e.g. 'lat': index of a lattice vector / mesh direction, 'cart': Cartesian component).  Roles of a few
named arrays are given; the roles of an expression follow numpy's rules: `X[:, None]` / `X[None, :]` insert a broadcast axis, element-wise
operators align trailing axes (a named role meets the same role, a broadcast axis or an unknown axis — never a different role), `.dot` /
`@` contract the last axis of the left with the first axis of the right operand (same role), `.T` reverses.  A mismatch is reported with the
offending sub-expression.  Nothing is evaluated."""
from __future__ import annotations

import ast
from typing import Callable, List, Optional, Tuple

from ..index import call_name, norm, norm1

Role = Optional[str]            # None = unknown axis, '1' = broadcast axis, '*' = any number of unknown leading axes


class RoleMismatch(Exception):
    def __init__(self, node: ast.AST, why: str):
        super().__init__(why)
        self.node, self.why = node, why


def roles_of(e: ast.AST, base: Callable[[ast.AST], Optional[Tuple[Role, ...]]]) -> Optional[Tuple[Role, ...]]:
    """Role tuple of expression e (None if nothing is known).  Raises RoleMismatch."""
    b = base(e)
    if b is not None:
        return b
    if isinstance(e, ast.Attribute) and e.attr == "T":
        r = roles_of(e.value, base)
        return None if r is None else tuple(reversed(r))
    if isinstance(e, ast.Subscript):
        r = roles_of(e.value, base)
        if r is None:
            return None
        sl = e.slice.elts if isinstance(e.slice, ast.Tuple) else [e.slice]
        out: List[Role] = []
        src = [x for x in r if x != "*"]
        lead = ["*"] if r and r[0] == "*" else []
        k = 0
        # only plain `:` and None are understood; anything else (an index, a mask) drops/changes an axis we do not track
        if not all((isinstance(x, ast.Slice) and x.lower is None and x.upper is None and x.step is None) or
                   (isinstance(x, ast.Constant) and x.value is None) or norm(x) == "np.newaxis" for x in sl):
            return None
        n_slices = sum(1 for x in sl if isinstance(x, ast.Slice))
        if lead and n_slices > len(src):
            return None
        if not lead and n_slices > len(src):
            return None
        # with unknown leading axes the subscripts address from the left, which we cannot align: give up unless no '*'
        if lead:
            return None
        for x in sl:
            if isinstance(x, ast.Slice):
                out.append(src[k])
                k += 1
            else:
                out.append("1")
        out += src[k:]
        return tuple(out)
    if isinstance(e, ast.BinOp) and isinstance(e.op, ast.MatMult):
        return _contract(e, e.left, e.right, base)
    if isinstance(e, ast.Call) and isinstance(e.func, ast.Attribute) and e.func.attr == "dot" and len(e.args) == 1 and call_name(e) not in ("np.dot", "numpy.dot"):
        return _contract(e, e.func.value, e.args[0], base)
    if isinstance(e, ast.Call) and call_name(e) in ("np.dot", "numpy.dot", "np.matmul") and len(e.args) == 2:
        return _contract(e, e.args[0], e.args[1], base)
    if isinstance(e, ast.BinOp) and isinstance(e.op, (ast.Add, ast.Sub, ast.Mult, ast.Div, ast.FloorDiv, ast.Mod)):
        l, r = roles_of(e.left, base), roles_of(e.right, base)
        if l is None:
            return r if r is None or isinstance(e.left, ast.Constant) else None
        if r is None:
            return l if isinstance(e.right, ast.Constant) else None
        out = []
        li, ri = list(l), list(r)
        while li or ri:
            a = li.pop() if li else "1"
            b_ = ri.pop() if ri else "1"
            if a == "*" or b_ == "*":
                out.append("*")
                li, ri = [], []
                break
            if a in (None, "1"):
                out.append(b_ if a == "1" else (b_ if b_ not in ("1",) else None))
            elif b_ in (None, "1"):
                out.append(a)
            elif a == b_:
                out.append(a)
            else:
                raise RoleMismatch(e, f"`{norm1(e, 80)}` combines an axis running over `{a}` with an axis running over `{b_}` element by element")
        return tuple(reversed(out))
    if isinstance(e, ast.Call) and call_name(e) in ("np.array", "np.asarray", "np.copy", "np.round", "np.rint") and e.args:
        return roles_of(e.args[0], base)
    if isinstance(e, ast.Call) and isinstance(e.func, ast.Attribute) and e.func.attr in ("copy", "astype", "round") and call_name(e) not in ("np.copy", "np.round"):
        return roles_of(e.func.value, base)
    return None


def _contract(node: ast.AST, a: ast.AST, b: ast.AST, base) -> Optional[Tuple[Role, ...]]:
    l, r = roles_of(a, base), roles_of(b, base)
    if l is None or r is None:
        return None
    la, rf = l[-1], (r[0] if len(r) == 1 else r[-2] if len(r) >= 2 and r[0] != "*" else None)
    if la not in (None, "1", "*") and rf not in (None, "1", "*") and la != rf:
        raise RoleMismatch(node, f"`{norm1(node, 80)}` contracts an axis running over `{la}` with an axis running over `{rf}`")
    return tuple(l[:-1]) + (tuple(r[1:]) if len(r) == 1 else tuple(x for i, x in enumerate(r) if i != len(r) - 2))
