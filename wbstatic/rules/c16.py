"""C16 — result objects behave as vectors and survive saving (structural clauses).

R16.1 save/load key agreement: every key read by from_npz is written by as_dict (or read under a guard); a Transform is
      serialised with exactly its constructor parameters.
R16.2 field propagation: every constructor call inside the arithmetic / transform methods passes each carried field from self.
R16.3 element-wise data arithmetic; VoidResult is neutral; ResultDict acts key-wise.
R16.4 symmetry transformation is pure: the in-place Transform objects are only ever applied to a fresh copy of the data.
"""
from __future__ import annotations

import ast
from typing import Dict, List, Optional, Set

from ..index import AnalysisError, call_name, norm, norm1
from .attrs import fold_class_list
from ..sem import desugar_shallow_copy, Sem, built_container, inline_private_helpers
from .common import calls, enclosing, enclosing_all, fctx, in_body, is_name, method_calls, pmatch, stmts

LEVEL = "other"
EXPLANATION = (
    "Writer/reader key sets are extracted from as_dict / from_npz (subscripts on the loaded object, transform_from_dict "
    "keys, the Energies_{i} pattern) and compared; Transform.as_dict's key list is folded (also through a class-level "
    "tuple) and compared with Transform.__init__'s parameters. Every `self.__class__(…)`/`KBandResult(…)` call inside "
    "__add__/__mul__/mul_array/transform must pass the carried fields from self. The data expression of each arithmetic "
    "method is matched against the element-wise form. For transform purity, reaching definitions decide that the array "
    "handed to the in-place Transform objects (and returned) always stems from a copying call, never from the operand "
    "itself. Does not decide numerical linearity; K__Result.__add__ concatenates k-points by design.")

ER = "wannierberri/result/energyresult.py"
KB = "wannierberri/result/kbandresult.py"
RD = "wannierberri/result/resultdict.py"
RS = "wannierberri/result/result.py"
PS = "wannierberri/symmetry/point_symmetry.py"

COPYING = ("np.copy", "numpy.copy", "np.array", "numpy.array", "copy.deepcopy", "deepcopy")


def _ctor_calls(f) -> List[ast.Call]:
    out = []
    for c in ast.walk(f.node):
        if isinstance(c, ast.Call) and (norm(c.func) == "self.__class__" or (isinstance(c.func, ast.Name) and c.func.id in
                                                                              ("KBandResult", "EnergyResult", "K__Result", "TABresult", "ResultDict"))):
            out.append(c)
    return out


def _dict_normal(S: Sem, e: ast.AST, at: int):
    """(key text, value text, iterated source text, [filter texts]) of a dict built by a comprehension or by `d = {}` + a loop that
    stores `d[k] = v`; loop variables are expressed through the iterated container (v ↦ source[k])."""
    if isinstance(e, ast.Name):
        b = built_container(S, e.id, at)
        if b is not None and isinstance(b.node, ast.DictComp):
            ds = S.du.reaching(e.id, at)
            return _dict_normal(S, b.node, ds[0].node if ds else at)
        if b is None or b.kind != "dict" or len(b.loops) != 1:
            ds = S.du.reaching(e.id, at)
            if len(ds) == 1 and isinstance(ds[0].value, ast.DictComp):
                return _dict_normal(S, ds[0].value, ds[0].node)
            return None
        tgt, it = b.loops[0]
        st_at = S.cfg.node(b.node)
        key = S.rnorm(b.key, st_at)
        val = S.rnorm(b.value, st_at)
        src = norm(it.func.value) if isinstance(it, ast.Call) and isinstance(it.func, ast.Attribute) and it.func.attr in ("items", "keys") else norm(it)
        return key, val, src, [S.rnorm(c_, st_at) for c_ in b.conds]
    if isinstance(e, ast.DictComp) and len(e.generators) == 1:
        ge = e.generators[0]
        tv = S.comp_element(e, at)
        if not isinstance(tv, ast.Tuple):
            return None
        it = ge.iter
        if isinstance(it, ast.Name):
            alts_ = S.alternatives(it, at)  # `keys = self.results.keys()` kept in a local; an optional `keys=` argument with a None default
            flt_ = [a_ for a_ in alts_ if isinstance(a_, (ast.ListComp, ast.GeneratorExp))]
            it = flt_[0] if flt_ else alts_[0]
        pre_conds = []
        if isinstance(it, (ast.ListComp, ast.GeneratorExp)) and len(it.generators) == 1 and isinstance(it.elt, ast.Name) and isinstance(it.generators[0].target, ast.Name) \
                and it.elt.id == it.generators[0].target.id and isinstance(ge.target, ast.Name):
            # keys pre-selected by a filter:  common = [k for k in A if c(k)] ; {k: … for k in common}
            pre_conds = [norm(S._subst(c_, {it.elt.id: ast.Name(id=ge.target.id, ctx=ast.Load())})) for c_ in it.generators[0].ifs]
            it = it.generators[0].iter
        src = norm(it.func.value) if isinstance(it, ast.Call) and isinstance(it.func, ast.Attribute) and it.func.attr in ("items", "keys") else norm(it)
        bound = {n.id for n in ast.walk(ge.target) if isinstance(n, ast.Name)}
        conds = list(pre_conds)
        for c_ in ge.ifs:
            sub = {}
            if isinstance(it, ast.Call) and isinstance(it.func, ast.Attribute) and it.func.attr == "items" and isinstance(ge.target, ast.Tuple) and len(ge.target.elts) == 2 \
                    and isinstance(ge.target.elts[1], ast.Name):
                sub[ge.target.elts[1].id] = ast.Subscript(value=it.func.value, slice=ge.target.elts[0], ctx=ast.Load())
            conds.append(norm(S._subst(c_, sub)))
        return norm(tv.elts[0]), norm(tv.elts[1]), src, conds
    return None


def _broadcast_shape_rule(r3, MS, m, oth: str) -> None:
    """mul_array(other, axes): `other` is reshaped to the rank of the data with the size of its i-th axis at position axes[i] and 1 elsewhere.
    Decided for the two constructions in use: a comprehension over range(data.ndim) testing `j in axes`, or a list of ones filled by stores."""
    axp = next((p_ for p_ in m.params if p_ == "axes"), None)
    rs = [c for c in ast.walk(m.node) if isinstance(c, ast.Call) and isinstance(c.func, ast.Attribute) and c.func.attr == "reshape" and norm(c.func.value) == oth and c.args]
    if axp is None or len(rs) != 1:
        r3.expect(False, "", m, m.node, "EnergyResult.mul_array: the `axes` parameter / the single `other.reshape(shape)` was not found")
        return
    arg = rs[0].args[0]
    at = MS.du.node_of_expr(rs[0])
    shp = MS.resolve(arg, at)
    while isinstance(shp, ast.Call) and call_name(shp) in ("tuple", "list") and len(shp.args) == 1:
        shp = shp.args[0]
    ok = None
    why = ""
    if isinstance(shp, (ast.GeneratorExp, ast.ListComp)) and len(shp.generators) == 1 and isinstance(shp.generators[0].target, ast.Name):
        j = shp.generators[0].target.id
        it = norm(shp.generators[0].iter).replace(" ", "")
        e = shp.elt
        ok = it in ("range(self.data.ndim)", "range(len(self.data.shape))") and isinstance(e, ast.IfExp) and norm(e.test) == f"{j} in {axp}" \
            and norm(e.body) == f"self.data.shape[{j}]" and norm(e.orelse) == "1"
        why = f"`{norm1(shp, 90)}` is not (data.shape[j] if j in {axp} else 1) for j in range(data.ndim)"
    if ok is None and isinstance(arg, ast.Call) and call_name(arg) in ("tuple", "list") and len(arg.args) == 1 and isinstance(arg.args[0], ast.Name):
        arg = arg.args[0]
    if ok is None and isinstance(arg, ast.Name):
        ds = [d for d in MS.du.reaching(arg.id, at) if d.kind == "assign"]
        ones = len(ds) == 1 and ds[0].value is not None and norm(ds[0].value).replace(" ", "") in ("[1]*self.data.ndim", "[1]*len(self.data.shape)", "[1]*self.data.ndim")
        stores = [st for st in ast.walk(m.node) if isinstance(st, ast.Assign) and isinstance(st.targets[0], ast.Subscript) and norm(st.targets[0].value) == arg.id]
        if ones and stores:
            ok = True
            for st in stores:
                lp = next((l for l in enclosing_all(MS.pm, st, ast.For)), None)
                iv = None
                if lp is not None and isinstance(lp.iter, ast.Call) and call_name(lp.iter) == "enumerate" and isinstance(lp.target, ast.Tuple) and len(lp.target.elts) == 2 \
                        and MS.rnorm(lp.iter.args[0], MS.cfg.node(lp)) in ("self.data.shape", "np.shape(self.data)"):
                    # one pass over the axes of the data: axis j keeps its size iff j is one of the chosen axes
                    iv, dv = norm(lp.target.elts[0]), norm(lp.target.elts[1])
                    pos, val = norm(st.targets[0].slice), norm(st.value)
                    guarded = any(isinstance(g_, ast.If) and norm(g_.test) == f"{iv} in {axp}" and any(st is x for b_ in g_.body for x in ast.walk(b_))
                                  for g_ in enclosing_all(MS.pm, st, ast.If))
                    if not (pos == iv and val in (dv, f"self.data.shape[{iv}]") and guarded):
                        ok = False
                        why = f"`{norm1(st)}` does not keep the size of data axis {iv} exactly when {iv} is one of `{axp}`"
                elif lp is not None and isinstance(lp.iter, ast.Call) and call_name(lp.iter) == "enumerate" and isinstance(lp.target, ast.Tuple) and len(lp.target.elts) == 2 \
                        and norm(lp.iter.args[0]) in (f"{oth}.shape", f"np.shape({oth})"):
                    iv, dv = norm(lp.target.elts[0]), norm(lp.target.elts[1])
                    pos, val = norm(st.targets[0].slice), norm(st.value)
                    good = pos == f"{axp}[{iv}]" and val in (dv, f"self.data.shape[{axp}[{iv}]]", f"{oth}.shape[{iv}]")
                    if not good:
                        ok = False
                        why = (f"`{norm1(st)}` puts the size of axis {iv} of `{oth}` at position `{pos}` of the broadcast shape; it belongs at position {axp}[{iv}] "
                               f"(the data axis it multiplies): for axes that are not the leading ones the array scales the wrong axis of the data")
                else:
                    ok = None
    if ok is None:
        r3.expect(False, "", m, rs[0], f"EnergyResult.mul_array: the broadcast shape `{norm1(arg)}` is built in a form the rule does not follow")
    else:
        r3.check(ok, "mul_array: the i-th axis of the array is placed on data axis axes[i] (1 elsewhere)", m, rs[0], why, stmt="mul_array broadcast shape")


def run(ctx) -> None:
    idx = ctx.index

    # ---------------------------------------------------------------- R16.1
    r1 = ctx.rule("R16.1", "save/load key agreement", min_instances=3)
    for rel, cn in ((ER, "EnergyResult"), (KB, "K__Result")):
        c = idx.cls(rel, cn)
        wd, rd = c.methods.get("as_dict"), c.methods.get("from_npz")
        if wd is None or rd is None:
            raise AnalysisError(f"{cn}.as_dict/from_npz vanished")
        r1.instance(f"{cn}: as_dict ↔ from_npz")
        written: Set[str] = set()
        for d in ast.walk(wd.node):
            if isinstance(d, ast.Call) and call_name(d) == "dict":
                written |= {k.arg for k in d.keywords if k.arg}
            if isinstance(d, ast.Dict):
                written |= {k.value for k in d.keys if isinstance(k, ast.Constant) and isinstance(k.value, str)}
            if isinstance(d, ast.DictComp) and isinstance(d.key, ast.JoinedStr):
                written.add("Energies_{}")
            if isinstance(d, ast.Assign) and isinstance(d.targets[0], ast.Subscript):
                if isinstance(d.targets[0].slice, ast.JoinedStr):
                    written.add("Energies_{}")
                elif isinstance(d.targets[0].slice, ast.Constant) and isinstance(d.targets[0].slice.value, str):
                    written.add(d.targets[0].slice.value)
        rpm = fctx(rd)[2]
        for n in ast.walk(rd.node):
            key = None
            if isinstance(n, ast.Subscript) and norm(n.value) == "res":
                if isinstance(n.slice, ast.Constant):
                    key = n.slice.value
                elif isinstance(n.slice, ast.JoinedStr):
                    key = "Energies_{}"
            if isinstance(n, ast.Call) and call_name(n) == "transform_from_dict" and len(n.args) == 2 and isinstance(n.args[1], ast.Constant):
                key = n.args[1].value
            if key is None:
                continue
            guarded = False
            x = n
            while x in rpm:
                x = rpm[x]
                if isinstance(x, ast.Try) and any(h.type is not None and "KeyError" in norm(h.type) for h in x.handlers):
                    guarded = True
                if isinstance(x, ast.If) and f"'{key}' in res" in norm(x.test):
                    guarded = True
                if isinstance(x, ast.BoolOp) and f"'{key}' in res" in norm(x.values[0]):
                    guarded = True
                if isinstance(x, ast.IfExp) and f"'{key}' in res" in norm(x.test) and any(n is y for y in ast.walk(x.body)):
                    guarded = True
            r1.check(key in written or guarded, f"{cn}: key {key!r} read ← written{' (guarded)' if guarded else ''}", rd, n,
                     f"{cn}.from_npz reads the key {key!r} which {cn}.as_dict never writes (written: {sorted(written)}): a saved "
                     f"result cannot be loaded back", stmt=f"key {key}")
        if cn == "EnergyResult":
            need = {"Energies_{}", "data", "rank", "transformTR", "transformInv", "comment", "E_titles"}
            r1.check(need <= written, "energies, data, rank, transformations and comment are all written", wd, wd.node,
                     f"EnergyResult.as_dict no longer writes {sorted(need - written)}", stmt=f"missing {sorted(need - written)}")
            RS_ = Sem(idx, rd)
            RS_.keep_names = {"res"}
            ctor = [c_ for c_ in ast.walk(rd.node) if isinstance(c_, ast.Call) and norm(c_.func) in ("cls", "EnergyResult") and any(k.arg == "data" for k in c_.keywords)]
            if len(ctor) != 1:
                raise AnalysisError("EnergyResult.from_npz: constructor call not found")
            at_c = RS_.du.node_of_expr(ctor[0])
            kwv = {k.arg: k.value for k in ctor[0].keywords}
            import re as _re

            def got(fld):
                v = kwv.get(fld)
                if v is None:
                    return set()
                out_ = {norm(x) for x in RS_.alternatives(v, at_c)}
                el_ = RS_.element(v, at_c) if fld == "Energies" else None
                if el_ is not None:
                    out_.add(_re.sub(r"IT\d+_\d+", "I", norm(el_)))
                return out_
            wants = {"Energies": lambda g_: any(_re.fullmatch(r"res\[f'Energies_\{\w+\}'\]", x) for x in g_),
                     "data": lambda g_: "res['data']" in g_, "rank": lambda g_: "res['rank']" in g_,
                     "transformTR": lambda g_: "transform_from_dict(res, 'transformTR')" in g_,
                     "transformInv": lambda g_: "transform_from_dict(res, 'transformInv')" in g_,
                     "comment": lambda g_: any("res['comment']" in x for x in g_)}
            for fld, pred in wants.items():
                r1.check(pred(got(fld)), f"loaded {fld} is passed to the constructor", rd, ctor[0],
                         f"EnergyResult.from_npz does not restore `{fld}` from the file", stmt=f"restore {fld}")
    # Transform
    tc = idx.cls(PS, "Transform")
    tw, ti = tc.methods.get("as_dict"), tc.methods.get("__init__")
    r1.instance("Transform: as_dict ↔ Transform(**d)")
    keys: Optional[List[str]] = None
    for n in ast.walk(tw.node):
        if isinstance(n, ast.DictComp):
            it = n.generators[0].iter
            if isinstance(it, (ast.List, ast.Tuple)):
                keys = [e.value for e in it.elts]
            elif isinstance(it, ast.Attribute) and norm(it.value) in ("self", "self.__class__"):
                keys = fold_class_list(idx, tc, it.attr)
        if isinstance(n, ast.Call) and call_name(n) == "dict":
            keys = [k.arg for k in n.keywords]
    if keys is None:
        raise AnalysisError("Transform.as_dict: key list not recognised")
    params = ti.params[1:]
    r1.check(set(keys) == set(params), f"Transform is serialised with exactly its parameters {sorted(params)}", tw, tw.node,
             f"Transform.as_dict writes {sorted(keys)} but a Transform is defined by {sorted(params)}: "
             f"{sorted(set(params) - set(keys))} are lost on save (a loaded result transforms differently under TR/inversion); "
             f"{sorted(set(keys) - set(params))} cannot be passed to Transform(**d)", stmt=f"as_dict keys {sorted(keys)}")
    tfd = idx.function(PS, "transform_from_dict")
    r1.check("Transform(**d)" in norm(tfd.node), "transform_from_dict rebuilds Transform(**d)", tfd, tfd.node,
             "transform_from_dict no longer rebuilds the Transform from the saved dictionary", stmt="Transform(**d)")

    # save → from_npz: the loader counts the energy arrays by enumerating the stored `E_titles`, the writer stores one array per element of
    # self.Energies: they agree only if __init__ makes len(self.E_titles) == N_energies on every path (truncate AND pad)
    er_c = idx.cls(ER, "EnergyResult")
    rdn = er_c.methods.get("from_npz")
    ini_e = er_c.methods.get("__init__")
    counts_by_titles = any(isinstance(lc, (ast.ListComp, ast.GeneratorExp)) and any("E_titles" in norm(g_.iter) for g_ in lc.generators)
                           and "Energies_" in norm(lc.elt) for lc in ast.walk(rdn.node))
    if counts_by_titles:
        from ..algebra import Rat, to_rat
        IS_ = Sem(idx, ini_e)
        IS_.inline_helpers = False
        tstores = [s_ for s_ in stmts(ini_e.node) if isinstance(s_, ast.Assign) and len(s_.targets) == 1 and norm(s_.targets[0]) == "self.E_titles"]
        r1.expect(bool(tstores), "E_titles store located", ini_e, ini_e.node, "EnergyResult.__init__: no assignment to self.E_titles found")
        tparam = next((p_ for p_ in ini_e.params if p_ == "E_titles"), "E_titles")

        def lenv(x):
            t_ = norm(x).replace(" ", "").replace(f"len(list({tparam}))", f"len({tparam})").replace(f"len(tuple({tparam}))", f"len({tparam})")
            if t_ in ("self.N_energies", "len(Energies)", "len(self.Energies)"):
                return Rat.sym("N")
            if t_ == f"len({tparam})":
                return Rat.sym("L")
            return None

        NL = Rat.sym("N") - Rat.sym("L")

        def sign_of(d_, case_):
            """sign (+1 / 0 / −1, with 0 meaning ≤ 0 or ≥ 0 is enough: both operands equal) of a difference under N ≤ L ('le') or N > L ('gt')"""
            if d_.d.as_const() is not None and d_.as_poly().as_const() is not None:
                c_ = d_.as_poly().as_const()
                return (c_ > 0) - (c_ < 0)
            if d_.equals(NL):
                return +1 if case_ == "gt" else -1      # N − L ≤ 0: picking the other operand is right (at equality both agree)
            if d_.equals(Rat.const(0) - NL):
                return -1 if case_ == "gt" else +1
            return None

        def count_of(k_, at_, case_):
            """an integer count as a Rat; min / max of two counts is decided by the case"""
            k_ = IS_.resolve(k_, at_) if isinstance(k_, ast.Name) else k_
            if isinstance(k_, ast.Call) and call_name(k_) in ("max", "min") and len(k_.args) == 2 and not k_.keywords:
                a_, b_ = count_of(k_.args[0], at_, case_), count_of(k_.args[1], at_, case_)
                if a_ is None or b_ is None:
                    return None
                sg = sign_of(a_ - b_, case_)
                if sg is None:
                    return None
                big, small = (a_, b_) if sg >= 0 else (b_, a_)
                return big if call_name(k_) == "max" else small
            try:
                return to_rat(k_, lenv)
            except AnalysisError:
                return None

        def abs_len(e_, at_, case_):
            """length of a list expression as a Rat in N (number of energy axes) and L (number of titles given) under the case
            N ≤ L ('le') / N > L ('gt'); None if unknown"""
            if isinstance(e_, ast.Name):
                return Rat.sym("L") if e_.id == tparam else None
            if isinstance(e_, ast.Call) and call_name(e_) in ("list", "tuple") and e_.args:
                return abs_len(e_.args[0], at_, case_)
            if isinstance(e_, ast.List):
                return Rat.const(len(e_.elts))
            if isinstance(e_, ast.BinOp) and isinstance(e_.op, ast.Add):
                a_, b_ = abs_len(e_.left, at_, case_), abs_len(e_.right, at_, case_)
                return None if a_ is None or b_ is None else a_ + b_
            if isinstance(e_, ast.BinOp) and isinstance(e_.op, ast.Mult):
                for l_, k_ in ((e_.left, e_.right), (e_.right, e_.left)):
                    ll = abs_len(l_, at_, case_) if isinstance(l_, (ast.List, ast.Call)) or (isinstance(l_, ast.Name) and l_.id == tparam) else None
                    if ll is not None:
                        kk = count_of(k_, at_, case_)
                        if kk is None:
                            return None
                        # a negative count gives an empty list
                        sg = sign_of(kk, case_)
                        if sg is None:
                            return None
                        return ll * kk if sg >= 0 else Rat.const(0)
            if isinstance(e_, ast.Subscript) and isinstance(e_.slice, ast.Slice) and e_.slice.lower is None and e_.slice.step is None and e_.slice.upper is not None:
                base_ = abs_len(e_.value, at_, case_)
                up_ = count_of(e_.slice.upper, at_, case_)
                if base_ is None or up_ is None:
                    return None
                sg = sign_of(base_ - up_, case_)
                if sg is None:
                    return None
                return up_ if sg >= 0 else base_
            return None
        for s_ in tstores:
            cds = []
            for t_, p_, n_ in IS_.conditions(s_, resolve=False):
                tt = t_.replace(" ", "").replace("self.N_energies", "N").replace(f"len({tparam})", "L")
                cds.append((tt, p_))
            le_ = any(c_ in cds for c_ in (("N<=L", True), ("L>=N", True), ("N>L", False), ("L<N", False)))
            gt_ = any(c_ in cds for c_ in (("N<=L", False), ("L>=N", False), ("N>L", True), ("L<N", True)))
            cases_ = ["le"] if le_ else ["gt"] if gt_ else ["le", "gt"]
            lens_ = [abs_len(s_.value, IS_.cfg.node(s_), c_) for c_ in cases_]
            ln_ = None if any(l_ is None for l_ in lens_) else next((l_ for l_ in lens_ if not l_.equals(Rat.sym("N"))), lens_[0])
            r1.instance(f"{ini_e.short}: {norm1(s_, 70)}")
            if ln_ is None:
                r1.expect(False, "", ini_e, s_, f"EnergyResult.__init__: cannot determine the length of `{norm1(s_.value, 70)}`")
            else:
                r1.check(ln_.equals(Rat.sym("N")), "len(self.E_titles) == N_energies on this path", ini_e, s_,
                         f"`{norm1(s_, 80)}` leaves self.E_titles with {ln_} entries (N = number of energy axes, L = number of titles given) instead of N: as_dict "
                         f"stores one energy array per axis but from_npz loads one per stored title, so a saved result with fewer titles than energy axes "
                         f"comes back with missing energy axes")

    # ---------------------------------------------------------------- R16.2
    r2 = ctx.rule("R16.2", "arithmetic / transform keep every carried field", min_instances=8)
    carried = {"EnergyResult": ["Energies", "smoothers", "transformTR", "transformInv", "rank", "E_titles", "save_mode"],
               "K__Result": ["transformTR", "transformInv", "rank", "other_properties"]}
    for rel, cn, meths in ((ER, "EnergyResult", ["__add__", "__mul__", "mul_array", "transform"]),
                           (KB, "K__Result", ["__add__", "__mul__", "mul_array", "transform", "to_grid", "to_path"])):
        c = idx.cls(rel, cn)
        for mname in meths:
            m = c.methods.get(mname)
            if m is None:
                raise AnalysisError(f"{cn}.{mname} vanished")
            m = desugar_shallow_copy(idx, inline_private_helpers(idx, m))
            MS = Sem(idx, m)
            for cc in _ctor_calls(m):
                r2.instance(f"{cn}.{mname}: {norm1(cc.func)}(…)")
                at_cc = MS.du.node_of_expr(cc)
                kw = {}
                for k in cc.keywords:
                    if k.arg:
                        alts = {norm(x) for x in MS.alternatives(k.value, at_cc)}
                        alts_nn = alts - {"None"}
                        kw[k.arg] = sorted(alts_nn) if alts_nn else [norm(k.value)]
                for fld in carried[cn]:
                    vs = kw.get(fld)
                    v = None if vs is None else (vs[0] if len(vs) == 1 else " | ".join(vs))
                    ok = vs is not None and all(x == f"self.{fld}" or (fld == "save_mode" and x.startswith("self.save_mode")) for x in vs)
                    r2.check(ok, f"{cn}.{mname}: {fld}=self.{fld}", m, cc,
                             f"{cn}.{mname} builds its result with {fld}={v}: the field `{fld}` is "
                             f"{'dropped (constructor default used)' if v is None else 'not taken from the operand'}, so a+b / a*x / "
                             f"sym(a) differs from a in `{fld}`", stmt=f"{mname}: {fld}={v}")

    # ---------------------------------------------------------------- R16.3
    r3 = ctx.rule("R16.3", "element-wise data; neutral element; key-wise dictionary", min_instances=6)
    e = idx.cls(ER, "EnergyResult")
    forms = {"__add__": "self.data + OTHER.data", "__mul__": "self.data * OTHER", "mul_array": "self.data * OTHER.reshape(ANY)"}
    for mname, frag in forms.items():
        m = desugar_shallow_copy(idx, inline_private_helpers(idx, e.methods[mname]))
        MS = Sem(idx, m)
        r3.instance(f"EnergyResult.{mname}")
        okd = False
        oth = m.params[1]
        for cc in _ctor_calls(m):
            dv = next((k.value for k in cc.keywords if k.arg == "data"), None)
            if dv is not None:
                dres = MS.resolve(dv, MS.du.node_of_expr(cc))
                m_ = pmatch(dres, frag.replace("OTHER", oth))
                okd = okd or (bool(m_) and m_[0][0] is dres)
        r3.check(okd, f"EnergyResult.{mname}: data = {frag}", m, m.node,
                 f"EnergyResult.{mname} does not combine the data element-wise (`{frag}`)", stmt=frag)
        if mname == "mul_array" and okd:
            _broadcast_shape_rule(r3, MS, m, oth)
    def returns_alg(m, want, what: str) -> bool:
        """every value returned by method m equals the rational expression `want(a, b)` in (self, second parameter)"""
        from ..algebra import Rat, to_rat
        from ..sem import return_cases
        MS = Sem(idx, m)
        MS.inline_helpers = False
        p2 = m.params[1] if len(m.params) > 1 else None
        a_, b_ = Rat.sym("self"), Rat.sym(p2 or "_")

        def env(x):
            if isinstance(x, ast.Name) and x.id in ("self", p2):
                return Rat.sym(x.id)
            return None
        cases = return_cases(MS)
        if not cases:
            return False
        for v_, _cs, st_ in cases:
            try:
                r_ = to_rat(MS.resolve(v_, MS.cfg.node(st_)), env)
            except AnalysisError:
                return False
            if not r_.equals(want(a_, b_)):
                return False
        return True

    from ..algebra import Rat as _Rat
    msub, mdiv = e.methods["__sub__"], e.methods["__truediv__"]
    r3.check(returns_alg(msub, lambda a, b: a - b, "a − b"), "a − b = a + (−1)·b", msub, msub.node, "EnergyResult.__sub__ is not a + (−1)·b", stmt="__sub__")
    r3.check(returns_alg(mdiv, lambda a, b: a / b, "a / x"), "a / x = a·(1/x)", mdiv, mdiv.node, "EnergyResult.__truediv__ is not a·(1/x)", stmt="__truediv__")
    # neutral elements of +
    madd = e.methods["__add__"]
    from ..sem import return_cases, canon_cond
    AS = Sem(idx, madd)
    oth_ = madd.params[1]
    neutral: Set[str] = set()
    for v_, cs_, st_ in return_cases(AS, resolve=False):
        if isinstance(v_, ast.Name) and v_.id == "self":
            for t_, p_ in cs_:
                if not p_:
                    continue
                try:
                    ce = ast.parse(t_, mode="eval").body
                except SyntaxError:
                    continue
                for dj in (ce.values if isinstance(ce, ast.BoolOp) and isinstance(ce.op, ast.Or) else [ce]):
                    neutral.add(canon_cond(dj, True)[0].replace(" ", ""))
    want_neutral = [{f"0=={oth_}", f"{oth_}==0"}, {f"{oth_}isNone"}, {f"isinstance({oth_},VoidResult)", f"(isinstance({oth_},VoidResult))"}]
    r3.check(all(w & neutral for w in want_neutral), "0 / None / VoidResult are neutral for +",
             madd, madd.node, f"EnergyResult.__add__ no longer returns self for 0/None/VoidResult (returns self when: {sorted(neutral)})", stmt="neutral")
    k = idx.cls(KB, "K__Result")
    r3.instance("K__Result")
    import re as _re
    kmul = inline_private_helpers(idx, k.methods["__mul__"])
    KM = Sem(idx, kmul)
    okkm = False
    for cc in _ctor_calls(kmul):
        dv = next((kk.value for kk in cc.keywords if kk.arg == "data"), cc.args[0] if cc.args else None)
        if dv is not None:
            el_ = KM.element(dv, KM.du.node_of_expr(cc))
            okkm = okkm or (el_ is not None and _re.sub(r"IT\d+_\d+", "I", norm(el_)) in (f"self.data_list[I] * {kmul.params[1]}", f"{kmul.params[1]} * self.data_list[I]"))
    r3.check(okkm, "K__Result.__mul__ scales every block", kmul,
             kmul.node, "K__Result.__mul__ does not scale every data block", stmt="K mul")
    kma = inline_private_helpers(idx, k.methods["mul_array"])
    KMA = Sem(idx, kma)
    okkma = False
    what_kma = "?"
    for cc in _ctor_calls(kma):
        dv = next((kk.value for kk in cc.keywords if kk.arg == "data"), cc.args[0] if cc.args else None)
        if dv is not None:
            el_ = KMA.element(dv, KMA.du.node_of_expr(cc))
            what_kma = norm1(KMA.resolve(dv, KMA.du.node_of_expr(cc)), 80)
            if el_ is not None:
                t_ = _re.sub(r"IT\d+_\d+", "I", norm(el_))
                okkma = okkma or bool(_re.fullmatch(rf"self\.data_list\[I\] \* {kma.params[1]}\.reshape\(.*\)", t_)) or \
                    bool(_re.fullmatch(rf"{kma.params[1]}\.reshape\(.*\) \* self\.data_list\[I\]", t_))
    r3.check(okkma, "K__Result.mul_array scales every k-block", kma, kma.node,
             f"K__Result.mul_array builds its data as `{what_kma}`: not every block of data_list multiplied by the reshaped array — for a result joined from "
             f"several k-blocks the other blocks are dropped", stmt="K mul_array")
    kadd = k.methods["add"]
    KA = Sem(idx, kadd)
    ko = kadd.params[1]
    okka = False
    for st_ in stmts(kadd.node):
        if isinstance(st_, ast.Assign) and norm(st_.targets[0]) == "self.data_list":
            el_ = KA.element(st_.value, KA.cfg.node(st_))
            t_ = _re.sub(r"IT\d+_\d+", "I", norm(el_)) if el_ is not None else ""
            okka = t_ in (f"self.data_list[I] + {ko}.data_list[I]", f"{ko}.data_list[I] + self.data_list[I]")
        elif isinstance(st_, ast.AugAssign) and isinstance(st_.op, ast.Add) and isinstance(st_.target, ast.Subscript) and norm(st_.target.value) == "self.data_list":
            lp_ = enclosing(KA.pm, st_, ast.For)
            okka = lp_ is not None and norm(st_.value) == f"{ko}.data_list[{norm(st_.target.slice)}]"
    r3.check(okka, "K__Result.add is element-wise", kadd, kadd.node, "K__Result.add is not element-wise", stmt="K add")
    ksub = inline_private_helpers(idx, k.methods["__sub__"])
    KS2 = Sem(idx, ksub)
    oksub = False
    for cc in _ctor_calls(ksub):
        dv = next((kk.value for kk in cc.keywords if kk.arg == "data"), cc.args[0] if cc.args else None)
        if dv is not None:
            oksub = oksub or KS2.rnorm(dv, KS2.du.node_of_expr(cc)) == f"self.data - {ksub.params[1]}.data"
    r3.check(oksub, "K__Result.__sub__ is element-wise", ksub, ksub.node, "K__Result.__sub__ is not element-wise", stmt="K sub")
    v = idx.cls(RS, "VoidResult")
    r3.instance("VoidResult")
    okvoid = returns_alg(v.methods["__add__"], lambda a, b: b, "b") and returns_alg(v.methods["__mul__"], lambda a, b: a, "a") and \
        returns_alg(v.methods["transform"], lambda a, b: a, "a") and returns_alg(v.methods["__sub__"], lambda a, b: -b, "−b")
    r3.check(okvoid, "VoidResult: 0 + b = b, 0·x = 0, 0 − b = −b, sym(0) = 0", f"{RS}:VoidResult", v.node, "VoidResult is no longer the neutral element",
             stmt="VoidResult")
    rb = idx.cls(RS, "Result")
    r3.check(returns_alg(rb.methods["__rmul__"], lambda a, b: a * b, "a·b") and returns_alg(rb.methods["__radd__"], lambda a, b: a + b, "a+b"),
             "x·a = a·x and b + a = a + b", f"{RS}:Result", rb.node, "Result.__rmul__/__radd__ changed", stmt="r-ops")
    d = idx.cls(RD, "ResultDict")
    r3.instance("ResultDict")
    def rd_form(mname: str):
        m_ = d.methods.get(mname)
        if m_ is None:
            return None
        m_ = inline_private_helpers(idx, m_)
        S_ = Sem(idx, m_)
        for c_ in ast.walk(m_.node):
            if isinstance(c_, ast.Call) and call_name(c_) == "ResultDict" and c_.args:
                return _dict_normal(S_, c_.args[0], S_.du.node_of_expr(c_)), m_
        return None, m_
    okrd = True
    why_rd = []
    for mname, want_val, want_cond in (("__mul__", "self.results[K] * {p}", []), ("__truediv__", "self.results[K] / {p}", []),
                                       ("__add__", "self.results[K] + {p}.results[K]", ["K in {p}.results"]), ("transform", "self.results[K].transform({p})", [])):
        got = rd_form(mname)
        nf, m_ = got if got else (None, None)
        if nf is None:
            okrd = False
            why_rd.append(f"{mname}: construction not understood")
            continue
        key, val, src, conds = nf
        par = m_.params[1]
        wv = want_val.replace("K", key).format(p=par)
        wc = [c_.replace("K", key).format(p=par) for c_ in want_cond]
        if not (src == "self.results" and val == wv and sorted(conds) == sorted(wc)):
            okrd = False
            why_rd.append(f"{mname}: {{{key}: {val} for {key} in {src} if {conds}}}")
    okrd = okrd and bool(pmatch(d.methods["__sub__"].node, f"return self + -1 * {d.methods['__sub__'].params[1]}") or pmatch(d.methods["__sub__"].node, f"return self + (-1) * {d.methods['__sub__'].params[1]}"))
    r3.check(okrd, "ResultDict acts key by key", f"{RD}:ResultDict", d.node, f"ResultDict arithmetic/transform is no longer key-wise ({'; '.join(why_rd)})", stmt="ResultDict")

    # ---------------------------------------------------------------- R16.4
    r4 = ctx.rule("R16.4", "symmetry transformation never modifies its operand")
    tt = idx.function(PS, "PointSymmetry.transform_tensor")
    cfg, du, pm = fctx(tt)
    TS4 = Sem(idx, tt)
    TS4.keep_names = {"res"}
    r4.instance(tt.short)
    data_param = tt.node.args.args[1].arg
    tcall = idx.function(PS, "Transform.__call__")
    inplace = any(isinstance(s, ast.Assign) and isinstance(s.targets[0], ast.Subscript) and norm(s.targets[0].value) == tcall.node.args.args[1].arg
                  for s in ast.walk(tcall.node)) or any(isinstance(s, ast.AugAssign) for s in ast.walk(tcall.node))
    r4.note(f"Transform.__call__ works in place: {inplace}")
    sinks = [c for c in ast.walk(tt.node) if isinstance(c, ast.Call) and isinstance(c.func, ast.Name) and c.func.id in ("transformTR", "transformInv")]
    rets = [s for s in stmts(tt.node) if isinstance(s, ast.Return)]
    if len(sinks) != 2 or len(rets) != 1:
        raise AnalysisError("transform_tensor: expected transformTR(res), transformInv(res) and one return")

    VIEW_METHODS = ("transpose", "swapaxes", "reshape", "view", "squeeze", "ravel")
    VIEW_FUNCS = ("np.moveaxis", "np.transpose", "np.swapaxes", "np.asarray", "np.reshape", "np.squeeze", "np.atleast_1d", "np.ravel",
                  "numpy.moveaxis", "numpy.transpose", "numpy.swapaxes", "numpy.asarray")

    def alias(e: ast.AST, at: int, seen: Set[int]) -> Optional[str]:
        """None when the value of e is certainly a new array (not sharing memory with the operand); otherwise what it may share with"""
        if isinstance(e, ast.Call):
            cn = call_name(e)
            if cn in COPYING or (isinstance(e.func, ast.Attribute) and e.func.attr == "copy"):
                return None
            if norm(e.func) == "self.rotate":
                return None          # a matrix product: always a new array (trusted)
            if isinstance(e.func, ast.Attribute) and e.func.attr in VIEW_METHODS and cn not in VIEW_FUNCS:
                return alias(e.func.value, at, seen)
            if cn in VIEW_FUNCS and e.args:
                return alias(e.args[0], at, seen)
            return f"`{norm1(e, 60)}` (may alias the operand)"
        if isinstance(e, (ast.BinOp, ast.UnaryOp, ast.Constant)):
            return None
        if isinstance(e, ast.Attribute) and e.attr == "T":
            return alias(e.value, at, seen)
        if isinstance(e, ast.Subscript):
            return alias(e.value, at, seen)
        if isinstance(e, ast.Name):
            for df in du.reaching(e.id, at):
                if df.kind == "param":
                    return f"the operand `{e.id}` itself"
                if id(df) in seen:
                    continue
                seen.add(id(df))
                if df.value is None:
                    return f"`{df.kind}` definition of {e.id} (may alias the operand)"
                w = alias(df.value, df.node, seen)
                if w is not None:
                    return w
            return None
        return f"`{norm1(e, 60)}` (may alias the operand)"

    def fresh(name: str, at: int) -> Optional[str]:
        w = alias(ast.Name(id=name, ctx=ast.Load()), at, set())
        if w is not None and "itself" in w:
            # reached through view operations?  say so
            direct = any(df.kind == "param" for df in du.reaching(name, at))
            return w if direct else w.replace("itself", "(through a view)")
        return w
    if inplace:
        for c in sinks + [rets[0].value]:
            node = c.args[0] if isinstance(c, ast.Call) else c
            at = du.node_of_expr(node)
            why = fresh(node.id, at) if isinstance(node, ast.Name) else "a non-name expression"
            r4.check(why is None, f"`{norm1(c, 40)}` works on a fresh copy", tt, enclosing(pm, node, ast.stmt),
                     f"`{norm1(c, 50)}` receives {why}: Transform objects work in place, so for rank-0 data (no rotation applied) "
                     f"result.transform(sym) overwrites the original result — T(a)+T(b), (a+T(a))/2 and T(2a) then depend on evaluation "
                     f"order", stmt=f"{norm1(c, 50)} ← {why}")
    for rel, cn in ((ER, "EnergyResult"), (KB, "K__Result")):
        m = idx.cls(rel, cn).methods["transform"]
        r4.check("sym.transform_tensor(" in norm(m.node), f"{cn}.transform goes through transform_tensor", m, m.node,
                 f"{cn}.transform no longer uses PointSymmetry.transform_tensor", stmt="uses transform_tensor")


from ..selftest import V  # noqa: E402

SELFTEST = [
    V("mul_array places the array's i-th size at position i (seeded C16-m6)", ER,
      "        reshape = tuple((self.data.shape[i] if i in axes else 1) for i in range(self.data.ndim))\n",
      "        reshape = [1] * self.data.ndim\n        for i, d in enumerate(other.shape):\n            reshape[i] = d\n", "fire", "R16.3"),
    V("mul_array fills the broadcast shape at position axes[i]", ER,
      "        reshape = tuple((self.data.shape[i] if i in axes else 1) for i in range(self.data.ndim))\n",
      "        reshape = [1] * self.data.ndim\n        for i, d in enumerate(other.shape):\n            reshape[axes[i]] = d\n", "silent", "R16.3"),
    V("E_titles no longer padded to the number of energy axes (seeded C16-m4)", ER,
      "        if self.N_energies <= len(E_titles):\n            self.E_titles = E_titles[:self.N_energies]\n        else:\n            self.E_titles = E_titles + [\"???\"] * (self.N_energies - len(E_titles))\n",
      "        self.E_titles = E_titles[:self.N_energies]\n", "fire", "R16.1"),
    V("K__Result.mul_array scales the first k-block only (seeded C16-m3)", KB, "            data=[d * other_reshape for d in self.data_list],", "            data=self.data_list[0] * other_reshape,", "fire", "R16.3"),
    V("EnergyResult.__sub__ adds", ER, "        return self + (-1) * other\n", "        return self + other\n", "fire", "R16.3"),
    V("VoidResult.__sub__ loses the sign", RS, "        return (-1) * other\n", "        return other\n", "fire", "R16.3"),
    V("0 no longer neutral for EnergyResult.__add__", ER, "if other == 0 or other is None or (isinstance(other, VoidResult)):", "if other is None or (isinstance(other, VoidResult)):", "fire", "R16.3"),
    V("neutral: a/x written as a*(1/x) with an int literal", ER, "        return self * (1. / number)\n", "        inv = 1 / number\n        return self * inv\n", "silent"),
    V("neutral: neutral elements tested in separate guards", ER, "        if other == 0 or other is None or (isinstance(other, VoidResult)):\n            return self\n",
      "        if other is None or isinstance(other, VoidResult):\n            return self\n        if other == 0:\n            return self\n", "silent"),
    V("Transform saved without swap_axes (seeded C16-m1)", PS,
      "return {k: self.__getattribute__(k) for k in [\"conj\", \"factor\", \"transpose_axes\", \"swap_axes\"]}",
      "return {k: self.__getattribute__(k) for k in [\"conj\", \"factor\", \"transpose_axes\"]}", "fire", "R16.1"),
    V("transform works on the operand itself (seeded C16-m2)", PS, "        res = np.copy(data)\n        dim = len(res.shape)",
      "        res = np.asarray(data)\n        dim = len(res.shape)", "fire", "R16.4"),
    V("rank no longer saved", ER, "            rank=self.rank,\n            transformTR=self.transformTR.as_dict(),", "            transformTR=self.transformTR.as_dict(),",
      "fire", "R16.1"),
    V("comment not restored on load", ER, "            save_mode=save_mode,\n            comment=comment)", "            save_mode=save_mode)", "fire", "R16.1"),
    V("__mul__ drops the smoothers", ER,
      "                data=self.data * number,\n                smoothers=self.smoothers,", "                data=self.data * number,", "fire", "R16.2"),
    V("transform() forgets the rank of a K result", KB,
      "                              other_properties=self.other_properties,\n                              rank=self.rank\n                              )",
      "                              other_properties=self.other_properties\n                              )", "fire", "R16.2"),
    V("__add__ takes the TR transform from the other operand", ER,
      "            data=self.data + other.data,\n            smoothers=self.smoothers,\n            transformTR=self.transformTR,",
      "            data=self.data + other.data,\n            smoothers=self.smoothers,\n            transformTR=other.transformTR,", "fire", "R16.2"),
    V("__sub__ adds", ER, "        return self + (-1) * other", "        return self + other", "fire", "R16.3"),
    V("VoidResult.__sub__ loses the sign", RS, "        return (-1) * other", "        return other", "fire", "R16.3"),
    V("neutral: data.copy() instead of np.copy", PS, "        res = np.copy(data)\n        dim = len(res.shape)", "        res = data.copy()\n        dim = len(res.shape)",
      "silent"),
    V("neutral: Transform keys through a complete class-level tuple", PS,
      "    def as_dict(self):\n        return {k: self.__getattribute__(k) for k in [\"conj\", \"factor\", \"transpose_axes\", \"swap_axes\"]}",
      "    _keys = (\"conj\", \"factor\", \"transpose_axes\", \"swap_axes\")\n\n    def as_dict(self):\n        return {k: self.__getattribute__(k) for k in self._keys}",
      "silent"),
]
