"""C13 — Fermi-level scans: sea / surface semantics (structural + algebraic clauses).

R13.1 the fder = 1,2,3 arms of StaticCalculator.__call__ are the minimal central finite-difference stencils of the
      Fermi-sea accumulation (exact comparison with stencils computed by the checker).
R13.2 the number of extra Fermi levels equals the stencil half-width and is applied symmetrically.
R13.3 Fermi-sea accumulation: a group at energy E is added to all levels ≥ E (index ceil((E−EFmin)/dEF)), groups below
      the scan to all levels, groups above to none; sea flag, hole_like sign.
R13.4 k-resolved and unresolved paths differ only in the result index and the 1/nk normalisation.
R13.5 band groups are half-open [ib1, ib2) everywhere (selection weight, below-range count, sea completion clamp).
R13.6 non-additive formulas: value of a group = trace(0..ib2) − trace(0..ib1).
"""
from __future__ import annotations

import ast
from fractions import Fraction
from typing import Dict, List, Optional, Tuple

from ..algebra import Poly, Rat, to_rat
from ..index import AnalysisError, call_name, norm, norm1, names_in
from .common import calls, enclosing, enclosing_all, fctx, in_body, is_name, method_calls, stmts

LEVEL = "other"
EXPLANATION = (
    "The derivative arms are parsed into linear combinations of shifted slices restot[:, a:b]; slice bounds give the "
    "offsets, the expression is normalised as an exact polynomial in slice symbols and dEF, and compared with the unique "
    "minimal symmetric finite-difference stencil of order n obtained by solving the moment equations over Fraction. The "
    "extraEf table is folded from the constructor and compared with the stencil half-width. The accumulation loop, the "
    "sea flag, hole_like handling, the k-resolved path, the half-open group convention and the non-additive branch are "
    "structural rules. Decides that the fder=n calculators are by construction the n-th central differences of the sea "
    "calculator with the same formula; does not decide monotonicity/limits of CumDOS numerically.")

ST = "wannierberri/calculators/static.py"
UT = "wannierberri/utility.py"
DK = "wannierberri/data_K/data_K.py"
TET = "wannierberri/grid/tetrahedron.py"


def central_stencil(n: int) -> Dict[int, Fraction]:
    """Minimal symmetric stencil (offsets −m..m) for the n-th derivative, second-order accurate; coefficients of 1/h^n."""
    m = (n + 1) // 2
    offs = list(range(-m, m + 1))
    size = len(offs)
    # Σ_j c_j j^k = n! δ_{k,n}, k = 0..size-1
    A = [[Fraction(j) ** k for j in offs] for k in range(size)]
    b = [Fraction(0)] * size
    fact = 1
    for i in range(2, n + 1):
        fact *= i
    b[n] = Fraction(fact)
    # Gaussian elimination
    for col in range(size):
        piv = next(r for r in range(col, size) if A[r][col] != 0)
        A[col], A[piv] = A[piv], A[col]
        b[col], b[piv] = b[piv], b[col]
        pv = A[col][col]
        A[col] = [x / pv for x in A[col]]
        b[col] = b[col] / pv
        for r in range(size):
            if r != col and A[r][col] != 0:
                fct = A[r][col]
                A[r] = [x - fct * y for x, y in zip(A[r], A[col])]
                b[r] = b[r] - fct * b[col]
    return {o: c for o, c in zip(offs, b) if c != 0}


def _slice_sym(sub: ast.Subscript) -> Tuple[int, int]:
    sl = sub.slice
    if not (isinstance(sl, ast.Tuple) and len(sl.elts) == 2 and isinstance(sl.elts[1], ast.Slice) and norm(sl.elts[0]) == ":"):
        raise AnalysisError(f"stencil term is not restot[:, a:b]: {norm1(sub)}")
    s = sl.elts[1]

    def val(x, default):
        if x is None:
            return default
        return ast.literal_eval(x)
    return val(s.lower, 0), val(s.upper, 0)


def run(ctx) -> None:
    idx = ctx.index
    cls = idx.cls(ST, "StaticCalculator")
    call = cls.methods.get("__call__")
    init = cls.methods.get("__init__")
    if call is None or init is None:
        raise AnalysisError("StaticCalculator.__call__/__init__ vanished")
    cfg, du, pm = fctx(call)

    # ---------------------------------------------------------------- R13.2 (table first: needed by R13.1)
    r2 = ctx.rule("R13.2", "extra Fermi levels = stencil half-width, applied symmetrically")
    ex = [s for s in stmts(init.node) if isinstance(s, ast.Assign) and norm(s.targets[0]) == "self.extraEf"]
    if len(ex) != 1:
        raise AnalysisError("StaticCalculator.__init__: self.extraEf assignment not found")
    r2.instance(f"{init.short}: {norm1(ex[0], 110)}")
    table: Dict[int, Optional[int]] = {}
    e = ex[0].value
    while isinstance(e, ast.IfExp):
        t = e.test
        vals: List[int] = []
        if isinstance(t, ast.Compare) and norm(t.left) == "self.fder":
            if isinstance(t.ops[0], ast.Eq):
                vals = [ast.literal_eval(t.comparators[0])]
            elif isinstance(t.ops[0], ast.In):
                vals = list(ast.literal_eval(t.comparators[0]))
        if not vals:
            raise AnalysisError(f"extraEf table: cannot read test `{norm1(t)}`")
        for v in vals:
            table[v] = ast.literal_eval(e.body)
        e = e.orelse
    want = {0: 0, 1: max(central_stencil(1)), 2: max(central_stencil(2)), 3: max(central_stencil(3))}
    r2.check(table == want, f"extraEf table {table} = stencil half-widths {want}", init, ex[0],
             f"the scan is extended by {table} Fermi levels per side but the finite-difference stencils need {want}: the "
             f"derivative at the ends of the requested range uses levels that were never accumulated (or wastes levels)")
    ti = norm(init.node).replace(" ", "")
    r2.check("self.EFmin=Efermi[0]-self.extraEf*self.dEF" in ti and "self.EFmax=Efermi[-1]+self.extraEf*self.dEF" in ti and
             "self.nEF_extra=Efermi.shape[0]+2*self.extraEf" in ti and "self.dEF=Efermi[1]-Efermi[0]iflen(Efermi)>1else0.001" in ti,
             "EFmin/EFmax/nEF_extra extend the scan by extraEf·dEF on both sides", init, ex[0],
             "the extended scan range is not Efermi[0] − extraEf·dEF … Efermi[-1] + extraEf·dEF with 2·extraEf extra points",
             stmt="EFmin/EFmax/nEF_extra")

    # ---------------------------------------------------------------- R13.1
    r1 = ctx.rule("R13.1", "fder = n arms are the n-th central finite differences of the sea accumulation", min_instances=3)
    arms: Dict[int, ast.Assign] = {}
    for s in ast.walk(call.node):
        if isinstance(s, ast.If) and isinstance(s.test, ast.Compare) and norm(s.test.left) == "self.fder" \
                and isinstance(s.test.ops[0], ast.Eq) and isinstance(s.test.comparators[0], ast.Constant):
            n = s.test.comparators[0].value
            asg = [b for b in s.body if isinstance(b, ast.Assign) and is_name(b.targets[0], "restot")]
            if n >= 1 and asg:
                arms[n] = asg[0]
            elif n == 0:
                r1.check(all(isinstance(b, ast.Pass) for b in s.body), "fder=0 leaves the accumulation untouched", call, s,
                         "the fder=0 arm modifies the accumulated Fermi-sea result")
    for n in (1, 2, 3):
        if n not in arms:
            r1.violation(call, call.node, f"no finite-difference arm for fder={n}", stmt=f"fder == {n}")
            continue
        st = arms[n]
        r1.instance(f"{call.short}: fder={n}: {norm1(st, 100)}")
        syms: Dict[str, Tuple[int, int]] = {}

        def env(x):
            if isinstance(x, ast.Subscript) and norm(x.value) == "restot":
                a, b = _slice_sym(x)
                nm = f"S_{a}_{b}"
                syms[nm] = (a, b)
                return Rat.sym(nm)
            if isinstance(x, ast.Attribute) and norm(x) == "self.dEF":
                return Rat.sym("h")
            return None
        expr = to_rat(st.value, env)
        widths = {a - b for a, b in syms.values()}
        if len(widths) != 1:
            r1.violation(call, st, f"fder={n}: the slices {sorted(syms.values())} do not all have the same length: shapes "
                         f"mismatch or levels are mis-aligned")
            continue
        two_h = widths.pop()
        half = Fraction(two_h, 2)
        want_st = central_stencil(n)
        target = Rat.const(0)
        for off, c in want_st.items():
            a = int(off + half)
            b = a - two_h
            nm = f"S_{a}_{b}"
            target = target + Rat.const(c) * Rat.sym(nm)
        target = target / (Rat.sym("h") ** n)
        got = {k: v for k, v in syms.items()}
        ok = expr.equals(target) and half == table.get(n)
        r1.check(ok, f"fder={n}: stencil {dict((o, str(c)) for o, c in want_st.items())}/h^{n} with half-width {half}", call, st,
                 f"the fder={n} arm `{norm1(st.value, 120)}` (offsets {sorted(a - half for a, _ in got.values())}) is not the "
                 f"central finite difference {dict((o, str(c)) for o, c in want_st.items())}/dEF^{n} of the Fermi-sea result: the "
                 f"Fermi-surface calculator is no longer the derivative of the Fermi-sea calculator with the same formula")

    # ---------------------------------------------------------------- R13.3
    r3 = ctx.rule("R13.3", "Fermi-sea accumulation semantics", min_instances=3)
    loop_if = [s for s in ast.walk(call.node) if isinstance(s, ast.If) and norm(s.test).replace(" ", "") == "E<self.EFmin"]
    if len(loop_if) != 1:
        raise AnalysisError("StaticCalculator.__call__: `if E < self.EFmin:` accumulation ladder not found")
    li = loop_if[0]
    r3.instance(f"{call.short}: accumulation ladder")
    b0 = norm(li.body[0]).replace(" ", "") if li.body else ""
    r3.check(b0.startswith("restot[ik_to_result(ik)]+=valuesik[n][None]*weight_select_bands(n[0],n[1],self.select_bands)"),
             "groups below the scan contribute to every Fermi level", call, li.body[0] if li.body else li,
             "a band group lying below the whole Fermi-level scan is not added to all levels")
    el = li.orelse[0] if li.orelse and isinstance(li.orelse[0], ast.If) else None
    okel = el is not None and norm(el.test).replace(" ", "") == "E<=self.EFmax" and not el.orelse
    r3.check(okel, "groups above the scan contribute to no level", call, el or li,
             "band groups above EFmax are accumulated (or groups inside the scan are skipped)")
    if el is not None:
        tb = [norm(s).replace(" ", "") for s in el.body]
        r3.check(len(tb) == 2 and tb[0] == "iEf=ceil((E-self.EFmin)/self.dEF)" and
                 tb[1].startswith("restot[ik_to_result(ik),iEf:]+=valuesik[n]*weight_select_bands(n[0],n[1],self.select_bands)"),
                 "a group at energy E is added to the levels EF ≥ E: index ceil((E − EFmin)/dEF) onwards", call, el.body[0],
                 f"a group at energy E is accumulated as `{'; '.join(norm1(s, 70) for s in el.body)}`: not 'all Fermi levels at or above "
                 f"E' (occupation is counted below the band or one level late)")
    tc = norm(call.node).replace(" ", "")
    r3.instance(f"{call.short}: sea flag")
    r3.check("sea=self.fder==0" in tc, "bands below the window are completed only for the Fermi sea (fder = 0)", call, call.node,
             "the `sea` completion is not tied to fder == 0", stmt="sea=(self.fder == 0)")
    r3.instance(f"{init.short}: hole_like")
    r3.check("ifself.hole_likeandself.fder==0:self.constant_factor*=-1" in ti.replace("\n", ""),
             "hole_like flips the sign for the Fermi sea only", init, init.node, "hole_like sign handling changed", stmt="hole_like")
    r3.check("der=-1ifself.hole_likeelseself.fder" in tc, "tetrahedron: hole_like uses the anti-sea weights", call, call.node,
             "tetrahedron weights no longer use der=-1 for hole_like", stmt="der=-1")

    # ---------------------------------------------------------------- R13.4
    r4 = ctx.rule("R13.4", "k-resolved path = unresolved path up to the result index and 1/nk")
    r4.instance(call.short)
    nf = {n.name: n for n in ast.walk(call.node) if isinstance(n, ast.FunctionDef) and n.name == "ik_to_result"}
    defs = [n for n in ast.walk(call.node) if isinstance(n, ast.FunctionDef) and n.name == "ik_to_result"]
    rets = sorted(norm(s.value) for d in defs for s in ast.walk(d) if isinstance(s, ast.Return))
    r4.check(len(defs) == 2 and rets == ["0", "_ik"], "ik_to_result is the identity (resolved) or 0 (unresolved)", call,
             defs[0] if defs else call.node, f"ik_to_result returns {rets}")
    r4.check("ifnotself.k_resolved:restot/=data_K.nk" in tc.replace("\n", ""), "only the unresolved result is divided by nk", call,
             call.node, "the 1/nk normalisation is not applied exactly to the k-summed result", stmt="restot /= nk")
    r4.check("EnergyResult(self.Efermi,restot[0]," in tc and "K__Result([restot]," in tc, "result wrappers take the matching array", call,
             call.node, "result construction changed", stmt="result wrappers")
    uses = [n for n in ast.walk(call.node) if isinstance(n, ast.Subscript) and norm(n.value) == "restot" and isinstance(n.ctx, ast.Store)]
    r4.check(all("ik_to_result(ik)" in norm(u) for u in uses) and len(uses) >= 3, "every accumulation goes through ik_to_result", call,
             uses[0] if uses else call.node, "an accumulation into restot bypasses ik_to_result: resolved and summed results differ")

    # ---------------------------------------------------------------- R13.5
    r5 = ctx.rule("R13.5", "band groups are half-open [ib1, ib2) everywhere", min_instances=4)
    ws = idx.function(UT, "weight_select_bands")
    r5.instance(ws.short)
    cmps = [c for c in ast.walk(ws.node) if isinstance(c, ast.Compare) and norm(c.left) == "select_bands"
            and isinstance(c.ops[0], (ast.Lt, ast.LtE, ast.Gt, ast.GtE))]
    sig = sorted((type(c.ops[0]).__name__, norm(c.comparators[0])) for c in cmps)
    r5.check(sig == [("GtE", "ib1"), ("Lt", "ib2")], "selection weight counts bands with ib1 ≤ b < ib2", ws,
             cmps[0] if cmps else ws.node,
             f"weight_select_bands counts selected bands with {sig}: a selected band next to a group [ib1, ib2) is counted in that "
             f"group too (band-selected results are no longer additive)")
    r5.check("/ (ib2 - ib1)" in norm(ws.node), "weight = fraction of the group's bands that are selected", ws, ws.node,
             "selection weight is not normalised by the group size", stmt="/(ib2-ib1)")
    gk = idx.function(DK, "Data_K.get_bands_in_range_groups_ik")
    r5.instance(gk.short)
    clamp = [s for s in stmts(gk.node) if isinstance(s, ast.Assign) and is_name(s.targets[0], "bandmax")
             and isinstance(s.value, ast.Call) and call_name(s.value) == "min"]
    okc = len(clamp) == 1 and any(norm(a).replace(" ", "") == "bands_in_range[0][0]" for a in clamp[0].value.args)
    r5.check(okc, "bands below the scan end where the first in-range group starts", gk, clamp[0] if clamp else gk.node,
             f"the fully-occupied block [0, bandmax) is clamped with `{norm1(clamp[0].value) if clamp else '?'}` instead of the START "
             f"of the first in-range group: lower members of a multi-band group straddling the lowest Fermi level are counted twice")
    tg = norm(gk.node).replace(" ", "")
    r5.check("weights[0,bandmax]=-np.inf" in tg and "ifbandmax>0:" in tg, "the below-scan block is [0, bandmax) with energy −inf", gk,
             gk.node, "the below-scan block is no longer keyed (0, bandmax) with E = −inf", stmt="weights[(0, bandmax)]")
    r5.check("self.E_K[ik,ib1:ib2].mean()" in tg, "a group's energy is the mean over exactly its bands", gk, gk.node,
             "group energy is not the mean over [ib1, ib2)", stmt="group energy")
    gb = idx.function(TET, "get_bands_below_range")
    r5.instance(gb.short)
    tb_ = norm(gb.node).replace(" ", "")
    r5.check("np.where(Ebandmax<emin)[0]" in tb_ and "returnadd[-1]+1" in tb_ and "return0" in tb_,
             "number of bands entirely below emin = last such index + 1", gb, gb.node,
             "get_bands_below_range no longer returns (index of the last band below emin) + 1", stmt="add[-1] + 1")
    gi = idx.function(TET, "get_bands_in_range")
    r5.instance(gi.short)
    ti_ = norm(gi.node).replace(" ", "")
    r5.check("Ebandmax[ib1:ib2].max()>=emin" in ti_ and "Ebandmin[ib1:ib2].min()<=emax" in ti_,
             "a group is in range iff it overlaps [emin, emax] (whole group kept)", gi, gi.node,
             "the in-range test no longer keeps whole groups overlapping the window", stmt="in-range test")

    # ---------------------------------------------------------------- R13.6
    r6 = ctx.rule("R13.6", "non-additive formulas: group value = trace(0..ib2) − trace(0..ib1)")
    r6.instance(call.short)
    r6.check("inn=np.arange(0,n)" in tc and "out=np.arange(n,NB)" in tc and "values[ik][n]=_values[n[1]]-_values[n[0]]" in tc,
             "cumulative traces differenced at the group borders", call, call.node,
             "the non-additive branch no longer differences cumulative traces at the group borders", stmt="non-additive")
    r6.check("inn=np.arange(n[0],n[1])" in tc and "out=np.concatenate((np.arange(0,n[0]),np.arange(n[1],NB)))" in tc,
             "additive formulas: trace over the group with the complement as outer states", call, call.node,
             "the additive branch no longer traces over exactly the group", stmt="additive")


from ..selftest import V  # noqa: E402

SELFTEST = [
    V("first derivative: forward difference", ST, "restot = (restot[:, 2:] - restot[:, :-2]) / (2 * self.dEF)",
      "restot = (restot[:, 2:] - restot[:, 1:-1]) / (2 * self.dEF)", "fire", "R13.1"),
    V("second derivative: missing factor 2 on the centre", ST, "(restot[:, 2:] + restot[:, :-2] - 2 * restot[:, 1:-1]) / (self.dEF ** 2)",
      "(restot[:, 2:] + restot[:, :-2] - restot[:, 1:-1]) / (self.dEF ** 2)", "fire", "R13.1"),
    V("third derivative: wrong power of dEF", ST, "2 * self.dEF ** 3)", "2 * self.dEF ** 2)", "fire", "R13.1"),
    V("third derivative: inner pair sign", ST, "- 2 * (restot[:, 3:-1] - restot[:, 1:-3])", "+ 2 * (restot[:, 3:-1] - restot[:, 1:-3])", "fire", "R13.1"),
    V("extraEf too small for the third derivative", ST, "else 1 if self.fder in (1, 2) else 2 if self.fder == 3 else None",
      "else 1 if self.fder in (1, 2, 3) else None", "fire", "R13.2"),
    V("asymmetric extension of the scan", ST, "self.EFmax = Efermi[-1] + self.extraEf * self.dEF", "self.EFmax = Efermi[-1] + self.dEF", "fire", "R13.2"),
    V("occupation index floor instead of ceil", ST, "iEf = ceil((E - self.EFmin) / self.dEF)", "iEf = int((E - self.EFmin) / self.dEF)", "fire", "R13.3"),
    V("sea completion also for Fermi-surface calculators", ST, "sea=(self.fder == 0),", "sea=True,", "fire", "R13.3"),
    V("k-resolved result also divided by nk", ST, "        if not self.k_resolved:\n            restot /= data_K.nk\n", "        restot /= data_K.nk\n", "fire", "R13.4"),
    V("selection weight closed interval (seeded C13-m2)", UT, "(select_bands >= ib1) * (select_bands < ib2)", "(select_bands >= ib1) * (select_bands <= ib2)",
      "fire", "R13.5"),
    V("sea clamp with the group end (seeded C13-m1)", DK, "bandmax = min(bandmax, bands_in_range[0][0])", "bandmax = min(bandmax, bands_in_range[0][1])",
      "fire", "R13.5"),
    V("below-range count off by one", TET, "        return add[-1] + 1\n", "        return add[-1]\n", "fire", "R13.5"),
    V("non-additive difference reversed", ST, "values[ik][n] = _values[n[1]] - _values[n[0]]", "values[ik][n] = _values[n[0]] - _values[n[1]]", "fire", "R13.6"),
    V("neutral: first derivative written with 0.5 factor", ST, "restot = (restot[:, 2:] - restot[:, :-2]) / (2 * self.dEF)",
      "restot = 0.5 * (restot[:, 2:] - restot[:, :-2]) / self.dEF", "silent"),
    V("neutral: third derivative expanded", ST, "(restot[:, 4:] - restot[:, :-4] - 2 * (restot[:, 3:-1] - restot[:, 1:-3])) / (\n                    2 * self.dEF ** 3)",
      "(restot[:, 4:] - restot[:, :-4] - 2 * restot[:, 3:-1] + 2 * restot[:, 1:-3]) / (\n                    2 * self.dEF ** 3)", "silent"),
]
