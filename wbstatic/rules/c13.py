"""C13 — Fermi-level scans: sea / surface semantics (structural + algebraic clauses).

R13.1 the fder = 1,2,3 arms of StaticCalculator.__call__ are the minimal central finite-difference stencils of the
      Fermi-sea accumulation (exact comparison with stencils computed by the checker).
R13.2 the number of extra Fermi levels equals the stencil half-width and is applied symmetrically.
R13.3 Fermi-sea accumulation: a group at energy E is added to all levels ≥ E (index ceil((E−EFmin)/dEF)), groups below
      the scan to all levels, groups above to none; sea flag, hole_like sign.
R13.4 k-resolved and unresolved paths differ only in the result index and the 1/nk normalisation.
R13.5 band groups are half-open [ib1, ib2) everywhere (selection weight, below-range count, sea completion clamp).
R13.6 non-additive formulas: value of a group = trace(0..ib2) − trace(0..ib1).
R13.7 memoised providers (band groups, tetrahedron weights, k-space matrices): the cache key covers every parameter the value depends on.
"""
from __future__ import annotations

import ast
from fractions import Fraction
from typing import Dict, List, Optional, Tuple

from ..algebra import Poly, Rat, to_rat
from ..index import AnalysisError, call_name, norm, norm1, names_in
from ..sem import Sem, built_container, reachable_helpers
from .common import calls, const_of, enclosing, enclosing_all, fctx, in_body, is_name, kwarg, method_calls, pmatch, stmts

LEVEL = "other"
EXPLANATION = (
    "The derivative arms are parsed into linear combinations of shifted slices restot[:, a:b]; slice bounds give the "
    "offsets, the expression is normalised as an exact polynomial in slice symbols and dEF, and compared with the unique "
    "minimal symmetric finite-difference stencil of order n obtained by solving the moment equations over Fraction. The "
    "extraEf table is folded from the constructor and compared with the stencil half-width. The accumulation loop, the "
    "sea flag, hole_like handling, the k-resolved path, the half-open group convention and the non-additive branch are "
    "structural rules. Memoised providers (band groups, tetrahedron weights, k-space matrices) are checked for key completeness: every "
    "parameter the cached value depends on (def-use slice with control dependence) flows into the cache key. Decides that the fder=n calculators are by construction the n-th central differences of the sea "
    "calculator with the same formula; does not decide monotonicity/limits of CumDOS numerically.")

ST = "wannierberri/calculators/static.py"
UT = "wannierberri/utility.py"
DK = "wannierberri/data_K/data_K.py"
TET = "wannierberri/grid/tetrahedron.py"


def central_stencil(n: int) -> Dict[int, Fraction]:
    """Minimal symmetric stencil (offsets −m..m) for the n-th derivative, second-order accurate; coefficients of 1/h^n."""
    m = (n + 1) // 2
    offs = list(range(-m, m + 1))
    size = len(offs)
    # Σ_j c_j j^k = n! δ_{k,n}, k = 0..size-1
    A = [[Fraction(j) ** k for j in offs] for k in range(size)]
    b = [Fraction(0)] * size
    fact = 1
    for i in range(2, n + 1):
        fact *= i
    b[n] = Fraction(fact)
    # Gaussian elimination
    for col in range(size):
        piv = next(r for r in range(col, size) if A[r][col] != 0)
        A[col], A[piv] = A[piv], A[col]
        b[col], b[piv] = b[piv], b[col]
        pv = A[col][col]
        A[col] = [x / pv for x in A[col]]
        b[col] = b[col] / pv
        for r in range(size):
            if r != col and A[r][col] != 0:
                fct = A[r][col]
                A[r] = [x - fct * y for x, y in zip(A[r], A[col])]
                b[r] = b[r] - fct * b[col]
    return {o: c for o, c in zip(offs, b) if c != 0}


def _slice_sym(sub: ast.Subscript) -> Tuple[int, int]:
    sl = sub.slice
    if not (isinstance(sl, ast.Tuple) and len(sl.elts) == 2 and isinstance(sl.elts[1], ast.Slice) and norm(sl.elts[0]) == ":"):
        raise AnalysisError(f"stencil term is not restot[:, a:b]: {norm1(sub)}")
    s = sl.elts[1]

    def val(x, default):
        if x is None:
            return default
        return ast.literal_eval(x)
    return val(s.lower, 0), val(s.upper, 0)


def run(ctx) -> None:
    idx = ctx.index
    cls = idx.cls(ST, "StaticCalculator")
    call = cls.methods.get("__call__")
    init = cls.methods.get("__init__")
    if call is None or init is None:
        raise AnalysisError("StaticCalculator.__call__/__init__ vanished")
    cfg, du, pm = fctx(call)

    # ---------------------------------------------------------------- R13.2 (table first: needed by R13.1)
    r2 = ctx.rule("R13.2", "extra Fermi levels = stencil half-width, applied symmetrically")
    ex = [s for s in stmts(init.node) if isinstance(s, ast.Assign) and norm(s.targets[0]) == "self.extraEf"]
    if len(ex) != 1:
        raise AnalysisError("StaticCalculator.__init__: self.extraEf assignment not found")
    r2.instance(f"{init.short}: {norm1(ex[0], 110)}")
    table: Dict[int, Optional[int]] = {}
    e = ex[0].value
    while isinstance(e, ast.IfExp):
        t = e.test
        vals: List[int] = []
        if isinstance(t, ast.Compare) and norm(t.left) == "self.fder":
            if isinstance(t.ops[0], ast.Eq):
                vals = [ast.literal_eval(t.comparators[0])]
            elif isinstance(t.ops[0], ast.In):
                vals = list(ast.literal_eval(t.comparators[0]))
        if not vals:
            raise AnalysisError(f"extraEf table: cannot read test `{norm1(t)}`")
        for v in vals:
            table[v] = ast.literal_eval(e.body)
        e = e.orelse
    want = {0: 0, 1: max(central_stencil(1)), 2: max(central_stencil(2)), 3: max(central_stencil(3))}
    r2.check(table == want, f"extraEf table {table} = stencil half-widths {want}", init, ex[0],
             f"the scan is extended by {table} Fermi levels per side but the finite-difference stencils need {want}: the "
             f"derivative at the ends of the requested range uses levels that were never accumulated (or wastes levels)")
    IS_ = Sem(idx, init)
    IS_.inline_helpers = False
    efp = init.params[1]

    def attr_value(name: str) -> Optional[ast.AST]:
        st_ = [s_ for s_ in stmts(init.node) if isinstance(s_, ast.Assign) and len(s_.targets) == 1 and norm(s_.targets[0]) == f"self.{name}"]
        return IS_.resolve(st_[-1].value, IS_.cfg.node(st_[-1])) if st_ else None

    def scan_env(x):
        t_ = norm(x).replace(" ", "")
        if t_ in (f"{efp}[0]", f"self.Efermi[0]"):
            return Rat.sym("E0")
        if t_ in (f"{efp}[-1]", "self.Efermi[-1]"):
            return Rat.sym("EN")
        if t_ in (f"{efp}[1]", "self.Efermi[1]"):
            return Rat.sym("E1")
        if t_ in (f"{efp}.shape[0]", f"len({efp})", "self.Efermi.shape[0]", "len(self.Efermi)", f"{efp}.size", "self.Efermi.size"):
            return Rat.sym("N")
        if t_ == "self.extraEf":
            return Rat.sym("X")
        if t_ == "self.dEF":
            return Rat.sym("D")
        return None

    def alg(name: str, want: Rat) -> bool:
        v_ = attr_value(name)
        if v_ is None:
            return False
        try:
            return to_rat(v_, scan_env).equals(want)
        except AnalysisError:
            return False
    E0, EN, E1, N_, X_, D_ = (Rat.sym(x) for x in ("E0", "EN", "E1", "N", "X", "D"))
    dv_ = attr_value("dEF")
    okd = False
    if isinstance(dv_, ast.IfExp):
        tt = norm(dv_.test).replace(" ", "")
        many = tt in (f"len({efp})>1", f"{efp}.shape[0]>1", f"{efp}.size>1", f"len({efp})>=2", "len(self.Efermi)>1")
        one = tt in (f"len({efp})<=1", f"len({efp})<2", f"len({efp})==1")
        if many or one:
            a_, b_ = (dv_.body, dv_.orelse) if many else (dv_.orelse, dv_.body)
            try:
                okd = to_rat(a_, scan_env).equals(E1 - E0) and isinstance(b_, ast.Constant) and isinstance(b_.value, float) and b_.value > 0
            except AnalysisError:
                okd = False
    r2.check(okd and alg("EFmin", E0 - X_ * D_) and alg("EFmax", EN + X_ * D_) and alg("nEF_extra", N_ + Rat.const(2) * X_),
             "EFmin/EFmax/nEF_extra extend the scan by extraEf·dEF on both sides", init, ex[0],
             "the extended scan range is not Efermi[0] − extraEf·dEF … Efermi[-1] + extraEf·dEF with 2·extraEf extra points "
             "(dEF = Efermi[1] − Efermi[0])", stmt="EFmin/EFmax/nEF_extra")

    # ---------------------------------------------------------------- R13.1
    r1 = ctx.rule("R13.1", "fder = n arms are the n-th central finite differences of the sea accumulation", min_instances=3)
    CS = Sem(idx, call)
    arms: Dict[int, Tuple[ast.AST, ast.AST, str, str, object]] = {}    # n -> (expression, report node, array name, dEF text, function)
    for g_ in [call] + reachable_helpers(idx, call):
        GS = Sem(idx, g_)
        for s_ in ast.walk(g_.node):
            if not (isinstance(s_, ast.If) and isinstance(s_.test, ast.Compare) and len(s_.test.ops) == 1 and isinstance(s_.test.ops[0], ast.Eq)
                    and isinstance(s_.test.comparators[0], ast.Constant) and isinstance(s_.test.comparators[0].value, int)):
                continue
            if GS.rnorm(s_.test.left, GS.cfg.node(s_)) != "self.fder" and norm(s_.test.left) != "self.fder":
                continue
            n = s_.test.comparators[0].value
            val = None
            for b_ in s_.body:
                if isinstance(b_, ast.Assign) and isinstance(b_.targets[0], ast.Name):
                    val = (b_.value, b_)
                elif isinstance(b_, ast.Return) and b_.value is not None:
                    val = (b_.value, b_)
            if n == 0:
                okz = all(isinstance(b_, ast.Pass) for b_ in s_.body) or (val is not None and isinstance(val[0], ast.Name))
                r1.check(okz, "fder=0 leaves the accumulation untouched", g_, s_, "the fder=0 arm modifies the accumulated Fermi-sea result")
            elif val is not None:
                # the array the stencil acts on and the step symbol
                arrs = {norm(x.value) for x in ast.walk(val[0]) if isinstance(x, ast.Subscript) and isinstance(x.slice, ast.Tuple) and len(x.slice.elts) == 2
                        and isinstance(x.slice.elts[1], ast.Slice)}
                steps = {norm(x) for x in ast.walk(val[0]) if isinstance(x, (ast.Name, ast.Attribute)) and GS.rnorm(x, GS.cfg.node(s_)) == "self.dEF"}
                if len(arrs) == 1 and len(steps) == 1:
                    arms[n] = (val[0], val[1], next(iter(arrs)), next(iter(steps)), g_)
    for n in (1, 2, 3):
        if n not in arms:
            r1.violation(call, call.node, f"no finite-difference arm for fder={n}", stmt=f"fder == {n}")
            continue
        expr_node, st, arr, hname, g_ = arms[n]
        r1.instance(f"{g_.short}: fder={n}: {norm1(st, 100)}")
        syms: Dict[str, Tuple[int, int]] = {}

        def env(x, arr=arr, hname=hname):
            if isinstance(x, ast.Subscript) and norm(x.value) == arr:
                a, b = _slice_sym(x)
                nm = f"S_{a}_{b}"
                syms[nm] = (a, b)
                return Rat.sym(nm)
            if isinstance(x, (ast.Attribute, ast.Name)) and norm(x) == hname:
                return Rat.sym("h")
            return None
        expr = to_rat(expr_node, env)
        widths = {a - b for a, b in syms.values()}
        if len(widths) != 1:
            r1.violation(g_, st, f"fder={n}: the slices {sorted(syms.values())} do not all have the same length: shapes "
                         f"mismatch or levels are mis-aligned")
            continue
        two_h = widths.pop()
        half = Fraction(two_h, 2)
        want_st = central_stencil(n)
        target = Rat.const(0)
        for off, c in want_st.items():
            a = int(off + half)
            b = a - two_h
            nm = f"S_{a}_{b}"
            target = target + Rat.const(c) * Rat.sym(nm)
        target = target / (Rat.sym("h") ** n)
        got = {k: v for k, v in syms.items()}
        ok = expr.equals(target) and half == table.get(n)
        r1.check(ok, f"fder={n}: stencil {dict((o, str(c)) for o, c in want_st.items())}/h^{n} with half-width {half}", g_, st,
                 f"the fder={n} arm `{norm1(expr_node, 120)}` (offsets {sorted(a - half for a, _ in got.values())}) is not the "
                 f"central finite difference {dict((o, str(c)) for o, c in want_st.items())}/dEF^{n} of the Fermi-sea result: the "
                 f"Fermi-surface calculator is no longer the derivative of the Fermi-sea calculator with the same formula")

    # ---------------------------------------------------------------- R13.3
    r3 = ctx.rule("R13.3", "Fermi-sea accumulation semantics", min_instances=3)
    ladders = [s_ for s_ in ast.walk(call.node) if isinstance(s_, ast.If) and isinstance(s_.test, ast.Compare) and len(s_.test.ops) == 1
               and isinstance(s_.test.ops[0], ast.Lt) and norm(s_.test.comparators[0]) == "self.EFmin" and isinstance(s_.test.left, ast.Name)]
    # upper edge (any formulation): the Fermi index ceil((E − EFmin)/dEF) is only used for groups with E ≤ EFmax — a group above the scan must
    # not be accumulated anywhere (clamping its index into the last bin counts it as occupied at the highest level)
    ceil_sites = []
    for g_ in [call] + reachable_helpers(idx, call):
        GS_ = Sem(idx, g_)
        GS_.inline_helpers = False
        for c_ in ast.walk(g_.node):
            if isinstance(c_, ast.Call) and call_name(c_).split(".")[-1] == "ceil" and c_.args and "EFmin" in norm(c_.args[0]):
                ceil_sites.append((g_, GS_, c_))
    r3.expect(bool(ceil_sites), "Fermi index computation located", call, call.node, "StaticCalculator.__call__: `ceil((E − self.EFmin) / self.dEF)` not found")

    def efmax_guard(S_, st_) -> bool:
        for t_, p_, _n in S_.conditions(st_, resolve=False):
            tt = t_.replace(" ", "")
            if ("<=self.EFmax" in tt and p_) or (">self.EFmax" in tt and not p_) or ("self.EFmax>=" in tt and p_) or ("self.EFmax<" in tt and not p_):
                return True
        return False
    for g_, GS_, c_ in ceil_sites:
        st_ = enclosing(GS_.pm, c_, ast.stmt)
        ok_g = efmax_guard(GS_, st_)
        if not ok_g and g_ is not call:
            sites_ = [x for x in ast.walk(call.node) if isinstance(x, ast.Call) and ((isinstance(x.func, ast.Attribute) and x.func.attr == g_.name) or
                                                                                   (isinstance(x.func, ast.Name) and x.func.id == g_.name))]
            ok_g = bool(sites_) and all(efmax_guard(CS, enclosing(pm, x, ast.stmt)) for x in sites_)
        r3.instance(f"{g_.short}: {norm1(c_, 60)}")
        r3.check(ok_g, "the Fermi index of a group is used only when the group's energy is ≤ EFmax", g_, st_,
                 f"`{norm1(st_, 90)}` computes / uses the Fermi-level index of a group without the test E ≤ self.EFmax: a group whose energy lies above "
                 f"the scanned range is accumulated (into the last level) although it is empty at every level", stmt="upper edge of the scan")
    if len(ladders) != 1:
        r3.expect(False, "", call, call.node, "StaticCalculator.__call__: `if E < self.EFmin:` accumulation ladder not found (other formulations of the "
                  "Fermi-sea accumulation are only checked for the upper-edge rule)")
        ladders = []
    li = ladders[0] if ladders else None
    if li is not None:
        Ev = li.test.left.id
        r3.instance(f"{call.short}: accumulation ladder")
        lp_g = enclosing(pm, li, ast.For)
        gv = None
        if lp_g is not None and isinstance(lp_g.target, ast.Tuple) and len(lp_g.target.elts) == 2 and norm(lp_g.target.elts[1]) == Ev:
            gv = norm(lp_g.target.elts[0])

        def result_index_ok(e: ast.AST, at: int) -> bool:
            """row of the result a k-point contributes to: ik if k-resolved else 0"""
            ikv = None
            for l_ in enclosing_all(pm, li, ast.For):
                if isinstance(l_.iter, ast.Call) and call_name(l_.iter) == "enumerate" and isinstance(l_.target, ast.Tuple):
                    ikv = norm(l_.target.elts[0])
            r_ = CS.resolve(e, at)
            if isinstance(r_, ast.IfExp):
                return (norm(r_.test) == "self.k_resolved" and norm(r_.body) == ikv and const_of(r_.orelse) == 0) or \
                    (norm(r_.test) == "not self.k_resolved" and norm(r_.orelse) == ikv and const_of(r_.body) == 0)
            if isinstance(e, ast.Call) and isinstance(e.func, ast.Name) and len(e.args) == 1 and norm(e.args[0]) == ikv:
                defs_ = [n for n in ast.walk(call.node) if isinstance(n, ast.FunctionDef) and n.name == e.func.id]
                res_ = {}
                for d_ in defs_:
                    g_if = enclosing(pm, d_, ast.If)
                    if g_if is None or norm(g_if.test) != "self.k_resolved":
                        return False
                    rr = [x for x in ast.walk(d_) if isinstance(x, ast.Return)]
                    if len(rr) != 1:
                        return False
                    res_[in_body(g_if.body, d_)] = norm(rr[0].value)
                par = {True: defs_[0].args.args[0].arg if defs_ else None}
                return len(defs_) == 2 and set(res_) == {True, False} and res_[False] == "0" and \
                    res_[True] == [d_ for d_ in defs_ if in_body(enclosing(pm, d_, ast.If).body, d_)][0].args.args[0].arg
            return False

        def acc_store(st_: ast.stmt):
            """(row expr, column slice or None, value) of `restot[row(, slice)] += value`"""
            if isinstance(st_, ast.AugAssign) and isinstance(st_.op, ast.Add) and isinstance(st_.target, ast.Subscript):
                sl = st_.target.slice
                if isinstance(sl, ast.Tuple) and len(sl.elts) == 2:
                    return norm(st_.target.value), sl.elts[0], sl.elts[1], st_.value
                return norm(st_.target.value), sl, None, st_.value
            return None

        def value_ok(v: ast.AST, at: int, lead_none: bool) -> bool:
            """values_k[G](…[None]) * weight_select_bands(G[0], G[1], self.select_bands)"""
            if not (isinstance(v, ast.BinOp) and isinstance(v.op, ast.Mult)):
                return False
            for a_, w_ in ((v.left, v.right), (v.right, v.left)):
                if isinstance(w_, ast.Call) and call_name(w_) == "weight_select_bands" and len(w_.args) == 3:
                    ar = [CS.rnorm(x, at) for x in w_.args]
                    base = a_.value if (lead_none and isinstance(a_, ast.Subscript) and const_of(a_.slice) is None) else a_
                    if lead_none and base is a_:
                        return False
                    if isinstance(base, ast.Subscript) and norm(base.slice) == gv:
                        bres = CS.rnorm(base.value, at)
                        return ar[0] in (f"{gv}[0]",) and ar[1] in (f"{gv}[1]",) and ar[2] == "self.select_bands" and bres.startswith(("values[", "self._"))
            return False
        b0 = acc_store(li.body[0]) if li.body else None
        okb0 = b0 is not None and b0[2] is None and gv is not None and result_index_ok(b0[1], cfg.node(li.body[0])) and value_ok(b0[3], cfg.node(li.body[0]), True)
        r3.check(okb0, "groups below the scan contribute to every Fermi level", call, li.body[0] if li.body else li,
                 "a band group lying below the whole Fermi-level scan is not added (with its band-selection weight) to all levels")
        el = li.orelse[0] if li.orelse and isinstance(li.orelse[0], ast.If) else None
        okel = el is not None and norm(el.test).replace(" ", "") == f"{Ev}<=self.EFmax" and not el.orelse
        r3.check(okel, "groups above the scan contribute to no level", call, el or li,
                 "band groups above EFmax are accumulated (or groups inside the scan are skipped)")
        if el is not None:
            sts = [x for x in el.body if not (isinstance(x, ast.Expr) and isinstance(x.value, ast.Constant))]
            b1 = acc_store(sts[-1]) if sts else None
            oki = False
            if b1 is not None and b1[2] is not None and isinstance(b1[2], ast.Slice) and b1[2].upper is None and b1[2].step is None and b1[2].lower is not None:
                lo = CS.rnorm(b1[2].lower, cfg.node(sts[-1]))
                oki = lo in (f"ceil(({Ev} - self.EFmin) / self.dEF)", f"math.ceil(({Ev} - self.EFmin) / self.dEF)", f"int(np.ceil(({Ev} - self.EFmin) / self.dEF))") and \
                    b1[0] == (b0[0] if b0 else b1[0]) and result_index_ok(b1[1], cfg.node(sts[-1])) and value_ok(b1[3], cfg.node(sts[-1]), False)
            r3.check(oki, "a group at energy E is added to the levels EF ≥ E: index ceil((E − EFmin)/dEF) onwards", call, el.body[0],
                     f"a group at energy E is accumulated as `{'; '.join(norm1(s, 70) for s in el.body)}`: not 'all Fermi levels at or above "
                     f"E' (occupation is counted below the band or one level late)")
        r3.check(lp_g is not None and norm(lp_g.iter).startswith("sorted(") and norm(lp_g.iter).endswith(".items())"), "groups are visited in band order", call, lp_g or li,
                 "the accumulation no longer iterates sorted(weights.items())")
        tc = norm(call.node).replace(" ", "")
        r3.instance(f"{call.short}: sea flag")
        gcalls = [c_ for c_ in ast.walk(call.node) if isinstance(c_, ast.Call) and isinstance(c_.func, ast.Attribute) and c_.func.attr == "get_bands_in_range_groups"]
        seav = kwarg(gcalls[0], "sea") if len(gcalls) == 1 else None
        r3.check(seav is not None and norm(seav).replace(" ", "") in ("self.fder==0", "0==self.fder"), "bands below the window are completed only for the Fermi sea (fder = 0)", call,
                 gcalls[0] if gcalls else call.node, "the `sea` completion is not tied to fder == 0", stmt="sea=(self.fder == 0)")
        r3.instance(f"{init.short}: hole_like")
        IS = Sem(idx, init)
        hl = [s_ for s_ in stmts(init.node) if isinstance(s_, ast.AugAssign) and norm(s_.target) == "self.constant_factor" and isinstance(s_.op, ast.Mult) and const_of(s_.value) == -1]
        okhl = len(hl) == 1 and {t_ for t_, p_, _ in IS.conditions(hl[0], resolve=False) if p_} >= {"self.hole_like"} and \
            any(t_ in ("0 == self.fder", "self.fder == 0") and p_ for t_, p_, _ in IS.conditions(hl[0], resolve=False))
        r3.check(okhl, "hole_like flips the sign for the Fermi sea only", init, hl[0] if hl else init.node, "hole_like sign handling changed", stmt="hole_like")
        wcalls = [c_ for c_ in ast.walk(call.node) if isinstance(c_, ast.Call) and isinstance(c_.func, ast.Attribute) and c_.func.attr == "weights_all_band_groups"]
        derv = kwarg(wcalls[0], "der", 1) if len(wcalls) == 1 else None
        r3.check(derv is not None and bool(pmatch(derv, "-1 if self.hole_like else self.fder") or pmatch(derv, "self.fder if not self.hole_like else -1")),
                 "tetrahedron: hole_like uses the anti-sea weights", call, wcalls[0] if wcalls else call.node,
                 "tetrahedron weights no longer use der=-1 for hole_like", stmt="der=-1")

    # ---------------------------------------------------------------- R13.4
    r4 = ctx.rule("R13.4", "k-resolved path = unresolved path up to the result index and 1/nk")
    r4.instance(call.short)
    if li is None:
        r4.expect(False, "", call, call.node, "StaticCalculator.__call__: accumulation not in ladder form — the k-resolved / summed comparison is not decided")
    if li is not None:
        accs = [s_ for s_ in stmts(call.node) if isinstance(s_, ast.AugAssign) and isinstance(s_.op, ast.Add) and isinstance(s_.target, ast.Subscript)
                and b0 is not None and norm(s_.target.value) == b0[0]]
        r4.check(len(accs) >= 3 and all(result_index_ok(acc_store(s_)[1], cfg.node(s_)) for s_ in accs),
                 "every accumulation goes to row ik (k-resolved) or row 0 (summed over k)", call, accs[0] if accs else call.node,
                 "an accumulation into the result does not go to row `ik if k_resolved else 0`: resolved and summed results differ")
        nkdiv = [s_ for s_ in stmts(call.node) if isinstance(s_, ast.AugAssign) and isinstance(s_.op, ast.Div) and b0 is not None and norm(s_.target) == b0[0]
                 and CS.rnorm(s_.value, cfg.node(s_)) in ("data_K.nk",)]
        oknk = len(nkdiv) == 1 and any(t_ == "self.k_resolved" and p_ is False for t_, p_, _ in CS.conditions(nkdiv[0], resolve=False))
        r4.check(oknk, "only the unresolved result is divided by nk", call, nkdiv[0] if nkdiv else call.node,
                 "the 1/nk normalisation is not applied exactly to the k-summed result", stmt="restot /= nk")
        er = [c_ for c_ in ast.walk(call.node) if isinstance(c_, ast.Call) and call_name(c_) == "EnergyResult"]
        kr = [c_ for c_ in ast.walk(call.node) if isinstance(c_, ast.Call) and call_name(c_) == "K__Result"]
        okw = len(er) == 1 and len(kr) == 1 and b0 is not None and len(er[0].args) >= 2 and norm(er[0].args[1]) == f"{b0[0]}[0]" and norm(er[0].args[0]) == "self.Efermi" \
            and kr[0].args and norm(kr[0].args[0]) == f"[{b0[0]}]" and \
            any(t_ == "self.k_resolved" and p_ for t_, p_, _ in CS.conditions(enclosing(pm, kr[0], ast.stmt), resolve=False)) and \
            any(t_ == "self.k_resolved" and p_ is False for t_, p_, _ in CS.conditions(enclosing(pm, er[0], ast.stmt), resolve=False))
        r4.check(okw, "result wrappers take the matching array", call, er[0] if er else call.node, "result construction changed", stmt="result wrappers")

    # ---------------------------------------------------------------- R13.5
    r5 = ctx.rule("R13.5", "band groups are half-open [ib1, ib2) everywhere", min_instances=4)
    ws = idx.function(UT, "weight_select_bands")
    r5.instance(ws.short)
    cmps = [c for c in ast.walk(ws.node) if isinstance(c, ast.Compare) and norm(c.left) == "select_bands"
            and isinstance(c.ops[0], (ast.Lt, ast.LtE, ast.Gt, ast.GtE))]
    p1_, p2_ = (ws.params + ["ib1", "ib2"])[:2]
    cmps = [c for c in ast.walk(ws.node) if isinstance(c, ast.Compare) and len(c.ops) == 1 and isinstance(c.ops[0], (ast.Lt, ast.LtE, ast.Gt, ast.GtE))
            and ((norm(c.left) == ws.params[2] and norm(c.comparators[0]) in (p1_, p2_)) or (norm(c.comparators[0]) == ws.params[2] and norm(c.left) in (p1_, p2_)))] \
        if len(ws.params) >= 3 else cmps
    flip_ = {"Lt": "Gt", "LtE": "GtE", "Gt": "Lt", "GtE": "LtE"}
    sig = sorted((type(c.ops[0]).__name__, "ib1" if norm(c.comparators[0]) == p1_ else "ib2") if norm(c.left) not in (p1_, p2_) else
                 (flip_[type(c.ops[0]).__name__], "ib1" if norm(c.left) == p1_ else "ib2") for c in cmps)
    r5.check(sig == [("GtE", "ib1"), ("Lt", "ib2")], "selection weight counts bands with ib1 ≤ b < ib2", ws,
             cmps[0] if cmps else ws.node,
             f"weight_select_bands counts selected bands with {sig}: a selected band next to a group [ib1, ib2) is counted in that "
             f"group too (band-selected results are no longer additive)")
    WS_ = Sem(idx, ws)
    okn_ = False
    for r_ in [x for x in stmts(ws.node) if isinstance(x, ast.Return) and x.value is not None]:
        rv_ = WS_.resolve(r_.value, WS_.cfg.node(r_))
        if isinstance(rv_, ast.BinOp) and isinstance(rv_.op, ast.Div) and norm(rv_.right).replace(" ", "") in (f"{p2_}-{p1_}", f"({p2_}-{p1_})", f"float({p2_}-{p1_})"):
            okn_ = True
    r5.check(okn_, "weight = fraction of the group's bands that are selected", ws, ws.node,
             "selection weight is not normalised by the group size", stmt="/(ib2-ib1)")
    gk = idx.function(DK, "Data_K.get_bands_in_range_groups_ik")
    r5.instance(gk.short)
    from .groups import check_completion_blocks
    check_completion_blocks(r5, idx, gk, want=("sea",))
    from .groups import completion_blocks
    for _k, st_b, _S, _G, _alts, _ne in completion_blocks(idx, gk):
        r5.check(norm(st_b.value).replace(" ", "") in ("-np.inf", "-numpy.inf", "-float('inf')", "float('-inf')", "-math.inf"),
                 "the below-scan block carries the energy −inf (occupied for every Fermi level)", gk, st_b,
                 f"the below-scan block is stored with `{norm1(st_b.value)}` instead of E = −inf")
    GKS = Sem(idx, gk)
    okmean = False
    for dc in [n for n in ast.walk(gk.node) if isinstance(n, ast.DictComp) and len(n.generators) == 1 and isinstance(n.generators[0].target, ast.Tuple)]:
        t1, t2 = (norm(x) for x in dc.generators[0].target.elts[:2])
        at_ = GKS.cfg.node(enclosing(GKS.pm, dc, ast.stmt))
        vtxt = norm(GKS._res_comp(dc.value, at_, 8, set(), True, {t1, t2}))
        ikp_ = gk.params[1]
        okmean = okmean or (norm(dc.key) == f"({t1}, {t2})" and vtxt in (f"self.E_K[{ikp_}, {t1}:{t2}].mean()", f"self.E_K[{ikp_}][{t1}:{t2}].mean()", f"np.mean(self.E_K[{ikp_}, {t1}:{t2}])"))
    r5.check(okmean, "a group's energy is the mean over exactly its bands", gk, gk.node,
             "group energy is not the mean over [ib1, ib2)", stmt="group energy")
    gb = idx.function(TET, "get_bands_below_range")
    r5.instance(gb.short)
    BS = Sem(idx, gb)
    from ..sem import return_cases
    bcases = return_cases(BS)
    okb = len(bcases) == 2
    seen_forms = set()
    ebm, emn = (gb.params[2] if len(gb.params) > 2 else "Ebandmax"), gb.params[0]

    def positions_below(txt: str) -> bool:
        """txt is np.where(Ebandmax < emin)[0] / np.nonzero(…)[0] / np.flatnonzero(…) (either orientation of the comparison)"""
        e_ = ast.parse(txt, mode="eval").body
        if isinstance(e_, ast.Subscript) and norm(e_.slice) == "0" and isinstance(e_.value, ast.Call) and call_name(e_.value) in ("np.where", "np.nonzero"):
            e_ = e_.value
        elif not (isinstance(e_, ast.Call) and call_name(e_) == "np.flatnonzero"):
            return False
        if len(e_.args) != 1 or not (isinstance(e_.args[0], ast.Compare) and len(e_.args[0].ops) == 1):
            return False
        c_ = e_.args[0]
        l_, r_2, op_ = norm(c_.left), norm(c_.comparators[0]), type(c_.ops[0])
        return (l_, r_2, op_) == (ebm, emn, ast.Lt) or (l_, r_2, op_) == (emn, ebm, ast.Gt)

    def empty_test(t_: str, p_: bool) -> Optional[bool]:
        """True: the condition says the index list is non-empty; False: empty; None: unrelated"""
        t_ = t_.replace(" ", "")
        for pat, val in ((r"len\((\w+)\)>0", True), (r"len\((\w+)\)>=1", True), (r"0<len\((\w+)\)", True), (r"0==len\((\w+)\)", False),
                         (r"len\((\w+)\)==0", False), (r"(\w+)\.size>0", True), (r"(\w+)\.size==0", False), (r"0==(\w+)\.size", False),
                         (r"(\w+)\.size", True), (r"len\((\w+)\)", True)):
            import re
            if re.fullmatch(pat, t_):
                return val if p_ else not val
        return None

    for v0, cs_, r_ in bcases:
        v_ = BS.resolve(v0, BS.cfg.node(r_))
        if const_of(v_) == 0:
            if any(empty_test(t_, p_) is False for t_, p_ in cs_):
                seen_forms.add("zero")
            continue
        m_ = pmatch(v_, "X_[-1] + 1", {"X_"})
        if m_ and m_[0][0] is v_ and positions_below(m_[0][1]["X_"]):
            if any(empty_test(t_, p_) is True for t_, p_ in cs_):
                seen_forms.add("last+1")
    r5.check(okb and seen_forms == {"zero", "last+1"},
             "number of bands entirely below emin = last such index + 1", gb, gb.node,
             "get_bands_below_range no longer returns (index of the last band below emin) + 1", stmt="add[-1] + 1")
    gi = idx.function(TET, "get_bands_in_range")
    r5.instance(gi.short)
    from .groups import check_range_partition
    check_range_partition(r5, idx)

    # ---------------------------------------------------------------- R13.6
    r6 = ctx.rule("R13.6", "non-additive formulas: group value = trace(0..ib2) − trace(0..ib1)")
    r6.instance(call.short)
    from .groups import check_group_trace, trace_sites, classify_trace
    infos = []
    for S_, g_, c_ in trace_sites(idx, call):
        info = classify_trace(S_, c_)
        info["call"], info["sem"], info["func"] = c_, S_, g_
        infos.append(info)
    seas = [i_ for i_ in infos if i_["kind"] == "sea"]
    grps = [i_ for i_ in infos if i_["kind"] == "group"]
    # the cumulative traces are stored per border b: T[b] = trace(0..b); the group value is T[ib2] − T[ib1]
    okna = False
    if len(seas) == 1:
        sc = seas[0]["call"]
        Q = str(seas[0]["Q"])
        holder = None
        SS6 = seas[0]["sem"]
        g6 = seas[0].get("func") or call
        pm6 = SS6.pm if g6 is not call else pm
        par = pm6.get(sc)
        st_ = enclosing(pm6, sc, ast.stmt)
        if g6 is not call and isinstance(st_, ast.Assign) and isinstance(st_.targets[0], ast.Subscript) and st_.value is sc \
                and SS6.rnorm(st_.targets[0].slice, SS6.cfg.node(st_)) == Q:
            holder = norm(st_.targets[0].value)
        if g6 is call and isinstance(st_, ast.Assign) and isinstance(st_.targets[0], ast.Subscript) and st_.value is sc and CS.rnorm(st_.targets[0].slice, cfg.node(st_)) == Q:
            holder = norm(st_.targets[0].value)
        dc = enclosing(pm6, sc, ast.DictComp)
        if holder is None and dc is not None and dc.value is sc and norm(dc.key) == Q and isinstance(st_, ast.Assign) and st_.value is dc:
            holder = norm(st_.targets[0])
        if holder is not None:
            pm = pm6
            for n_ in ast.walk(g6.node):
                if isinstance(n_, ast.BinOp) and isinstance(n_.op, ast.Sub) and isinstance(n_.left, ast.Subscript) and isinstance(n_.right, ast.Subscript) \
                        and norm(n_.left.value) == holder == norm(n_.right.value):
                    hi, lo = norm(n_.left.slice), norm(n_.right.slice)
                    # (lo, hi) must be the two ends of one group: n[0], n[1] or the tuple target (ib1, ib2)
                    same = (hi.endswith("[1]") and lo.endswith("[0]") and hi[:-3] == lo[:-3])
                    x = n_
                    while x in pm and not same:
                        x = pm[x]
                        tg_ = [x.target] if isinstance(x, ast.For) else [g__.target for g__ in x.generators] if isinstance(x, (ast.DictComp, ast.ListComp, ast.GeneratorExp)) else []
                        same = any(isinstance(t_, ast.Tuple) and [norm(e_) for e_ in t_.elts] == [lo, hi] for t_ in tg_)
                    okna = okna or same
    r6.check(okna, "cumulative traces differenced at the group borders", call, seas[0]["call"] if seas else call.node,
             "the non-additive branch no longer differences cumulative traces trace(0..ib2) − trace(0..ib1) at the group borders", stmt="non-additive")
    r6.check(len(grps) == 1 and str(grps[0]["NB"]).endswith(".num_wann"),
             "additive formulas: trace over the group with the complement as outer states", call, grps[0]["call"] if grps else call.node,
             "the additive branch no longer traces over exactly the group", stmt="additive")

    # ---------------------------------------------------------------- R13.7
    # the providers of band groups / weights / k-space matrices memoise on the Data_K / TetraWeights object: a key that leaves out a
    # parameter (e.g. the sea flag) hands the surface groups to a Fermi-sea calculator that asks for the same window later
    r7 = ctx.rule("R13.7", "memoised providers: the cache key covers every parameter the cached value depends on", min_instances=3)
    from .memo import check_memo_keys
    for f_ in idx.all_functions():
        rp_ = f_.module.relpath
        if rp_.startswith("wannierberri/data_K/") or rp_.startswith("wannierberri/calculators/") or rp_ == "wannierberri/grid/tetrahedron.py":
            check_memo_keys(r7, idx, f_)


from ..selftest import V  # noqa: E402

SELFTEST = [
    V("band groups memoised without the sea flag (seeded C13-m6)", "wannierberri/data_K/data_K.py", '        res = []\n        for ik in range(self.nk):\n            res.append(self.get_bands_in_range_groups_ik(ik, emin, emax, degen_thresh, degen_Kramers, sea, Emin=Emin,\n                                                         Emax=Emax, select_bands=select_bands))\n        return res\n', "        if not hasattr(self, '_grp_cache'):\n            self._grp_cache = {}\n        key = (emin, emax, degen_thresh, degen_Kramers, None if select_bands is None else tuple(select_bands))\n        if key not in self._grp_cache:\n            res = []\n            for ik in range(self.nk):\n                res.append(self.get_bands_in_range_groups_ik(ik, emin, emax, degen_thresh, degen_Kramers, sea, Emin=Emin,\n                                                             Emax=Emax, select_bands=select_bands))\n            self._grp_cache[key] = res\n        return self._grp_cache[key]\n", "fire", "R13.7"),
    V("band groups memoised with a complete key", "wannierberri/data_K/data_K.py", '        res = []\n        for ik in range(self.nk):\n            res.append(self.get_bands_in_range_groups_ik(ik, emin, emax, degen_thresh, degen_Kramers, sea, Emin=Emin,\n                                                         Emax=Emax, select_bands=select_bands))\n        return res\n', "        if not hasattr(self, '_grp_cache'):\n            self._grp_cache = {}\n        key = (emin, emax, degen_thresh, degen_Kramers, sea, None if select_bands is None else tuple(select_bands))\n        if key not in self._grp_cache:\n            res = []\n            for ik in range(self.nk):\n                res.append(self.get_bands_in_range_groups_ik(ik, emin, emax, degen_thresh, degen_Kramers, sea, Emin=Emin,\n                                                             Emax=Emax, select_bands=select_bands))\n            self._grp_cache[key] = res\n        return self._grp_cache[key]\n", "silent", "R13.7"),
    V("groups above the scan no longer dropped (seeded C13-m3)", ST, "                    elif E <= self.EFmax:\n                        iEf = ceil((E - self.EFmin) / self.dEF)\n",
      "                    else:\n                        iEf = min(ceil((E - self.EFmin) / self.dEF), self.nEF_extra - 1)\n", "fire", "R13.3"),
    V("upper end of the scan not extended", ST, "            self.EFmax = Efermi[-1] + self.extraEf * self.dEF\n", "            self.EFmax = Efermi[-1] + self.dEF\n", "fire", "R13.2"),
    V("extra points counted once", ST, "            self.nEF_extra = Efermi.shape[0] + 2 * self.extraEf\n", "            self.nEF_extra = Efermi.shape[0] + self.extraEf\n", "fire", "R13.2"),
    V("neutral: scan extension through named temporaries", ST,
      "            self.EFmin = Efermi[0] - self.extraEf * self.dEF\n            self.EFmax = Efermi[-1] + self.extraEf * self.dEF\n            self.nEF_extra = Efermi.shape[0] + 2 * self.extraEf\n",
      "            margin = self.extraEf * self.dEF\n            self.EFmin = Efermi[0] - margin\n            self.EFmax = margin + Efermi[-1]\n            self.nEF_extra = len(Efermi) + self.extraEf + self.extraEf\n", "silent"),
    V("first derivative: forward difference", ST, "restot = (restot[:, 2:] - restot[:, :-2]) / (2 * self.dEF)",
      "restot = (restot[:, 2:] - restot[:, 1:-1]) / (2 * self.dEF)", "fire", "R13.1"),
    V("second derivative: missing factor 2 on the centre", ST, "(restot[:, 2:] + restot[:, :-2] - 2 * restot[:, 1:-1]) / (self.dEF ** 2)",
      "(restot[:, 2:] + restot[:, :-2] - restot[:, 1:-1]) / (self.dEF ** 2)", "fire", "R13.1"),
    V("third derivative: wrong power of dEF", ST, "2 * self.dEF ** 3)", "2 * self.dEF ** 2)", "fire", "R13.1"),
    V("third derivative: inner pair sign", ST, "- 2 * (restot[:, 3:-1] - restot[:, 1:-3])", "+ 2 * (restot[:, 3:-1] - restot[:, 1:-3])", "fire", "R13.1"),
    V("extraEf too small for the third derivative", ST, "else 1 if self.fder in (1, 2) else 2 if self.fder == 3 else None",
      "else 1 if self.fder in (1, 2, 3) else None", "fire", "R13.2"),
    V("asymmetric extension of the scan", ST, "self.EFmax = Efermi[-1] + self.extraEf * self.dEF", "self.EFmax = Efermi[-1] + self.dEF", "fire", "R13.2"),
    V("occupation index floor instead of ceil", ST, "iEf = ceil((E - self.EFmin) / self.dEF)", "iEf = int((E - self.EFmin) / self.dEF)", "fire", "R13.3"),
    V("sea completion also for Fermi-surface calculators", ST, "sea=(self.fder == 0),", "sea=True,", "fire", "R13.3"),
    V("k-resolved result also divided by nk", ST, "        if not self.k_resolved:\n            restot /= data_K.nk\n", "        restot /= data_K.nk\n", "fire", "R13.4"),
    V("selection weight closed interval (seeded C13-m2)", UT, "(select_bands >= ib1) * (select_bands < ib2)", "(select_bands >= ib1) * (select_bands <= ib2)",
      "fire", "R13.5"),
    V("sea clamp with the group end (seeded C13-m1)", DK, "bandmax = min(bandmax, bands_in_range[0][0])", "bandmax = min(bandmax, bands_in_range[0][1])",
      "fire", "R13.5"),
    V("below-range count off by one", TET, "        return add[-1] + 1\n", "        return add[-1]\n", "fire", "R13.5"),
    V("non-additive difference reversed", ST, "values[ik][n] = _values[n[1]] - _values[n[0]]", "values[ik][n] = _values[n[0]] - _values[n[1]]", "fire", "R13.6"),
    V("neutral: first derivative written with 0.5 factor", ST, "restot = (restot[:, 2:] - restot[:, :-2]) / (2 * self.dEF)",
      "restot = 0.5 * (restot[:, 2:] - restot[:, :-2]) / self.dEF", "silent"),
    V("neutral: third derivative expanded", ST, "(restot[:, 4:] - restot[:, :-4] - 2 * (restot[:, 3:-1] - restot[:, 1:-3])) / (\n                    2 * self.dEF ** 3)",
      "(restot[:, 4:] - restot[:, :-4] - 2 * restot[:, 3:-1] + 2 * restot[:, 1:-3]) / (\n                    2 * self.dEF ** 3)", "silent"),
]
