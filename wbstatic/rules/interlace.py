"""How an array with doubled (spin-interlaced) axes is built from the spinless one — semantic summary shared by C05 and C25.

`doubling(S, stmts_root, new_name)` looks at every store into `new_name[…]` that uses stride-2 slices, expands a surrounding
`for i in range(2)` loop, and returns the set of offset tuples written together with the value stored; `np.repeat(old, 2, axis)`
is reported as the equivalent full set.  Unrolled loops, renamed variables and np.repeat therefore all give the same summary.
"""
from __future__ import annotations

import ast
from typing import Dict, List, Optional, Set, Tuple

from ..index import call_name, norm
from ..sem import Sem
from .common import const_of, enclosing_all, kwarg
from .spin import stride2_slots


def stride_stores(S: Sem, target_text: str) -> List[Tuple[ast.stmt, Tuple[int, ...], ast.AST]]:
    """[(stmt, offsets, value)] for stores `target[…, a::2, b::2, …] = value`; a loop variable of `for v in range(2)` is expanded."""
    out = []
    for s in ast.walk(S.node):
        if not (isinstance(s, ast.Assign) and isinstance(s.targets[0], ast.Subscript) and norm(s.targets[0].value) == target_text):
            continue
        slots = stride2_slots(s.targets[0])
        if not slots:
            continue
        loopvars = {}
        for l in enclosing_all(S.pm, s, ast.For):
            if isinstance(l.target, ast.Name) and norm(l.iter) == "range(2)":
                loopvars[l.target.id] = (0, 1)
        syms = sorted({x for x in slots if isinstance(x, str)})
        if any(x not in loopvars for x in syms):
            out.append((s, tuple(-1 for _ in slots), s.value))   # offset not understood
            continue
        if not syms:
            out.append((s, tuple(int(x) for x in slots), s.value))
        elif len(syms) == 1:
            for v in loopvars[syms[0]]:
                out.append((s, tuple(v if isinstance(x, str) else int(x) for x in slots), s.value))
        else:
            out.append((s, tuple(-1 for _ in slots), s.value))
    return out


def _arange_op(S: Sem, e: ast.AST, at: int, op) -> bool:
    """e resolves to np.arange(N) <op> 2"""
    r = S.resolve(e, at) if isinstance(e, ast.Name) else e
    return isinstance(r, ast.BinOp) and isinstance(r.op, op) and const_of(r.right) == 2 and isinstance(r.left, ast.Call) and call_name(r.left) in ("np.arange", "numpy.arange") \
        and len(r.left.args) == 1


def _is_orbital_index(S: Sem, e: ast.AST, at: int) -> bool:
    return _arange_op(S, e, at, ast.FloorDiv)


def _is_broadcast_of_orbital(S: Sem, e: ast.AST, at: int, axis: int) -> bool:
    """orb[:, None] (axis 0) / orb[None, :] (axis 1)"""
    if not (isinstance(e, ast.Subscript) and isinstance(e.slice, ast.Tuple) and len(e.slice.elts) == 2 and _is_orbital_index(S, e.value, at)):
        return False
    a, b = e.slice.elts
    full = lambda x: isinstance(x, ast.Slice) and x.lower is None and x.upper is None and x.step is None
    none = lambda x: isinstance(x, ast.Constant) and x.value is None
    return (full(a) and none(b)) if axis == 0 else (none(a) and full(b))


def _is_same_spin_mask(S: Sem, e: ast.AST, at: int) -> bool:
    r = S.resolve(e, at) if isinstance(e, ast.Name) else e
    if not (isinstance(r, ast.Compare) and len(r.ops) == 1 and isinstance(r.ops[0], ast.Eq)):
        return False
    a, b = r.left, r.comparators[0]

    def spin_b(x, axis):
        if not (isinstance(x, ast.Subscript) and isinstance(x.slice, ast.Tuple) and len(x.slice.elts) == 2 and _arange_op(S, x.value, at, ast.Mod)):
            return False
        p, q = x.slice.elts
        full = lambda y: isinstance(y, ast.Slice) and y.lower is None and y.upper is None and y.step is None
        none = lambda y: isinstance(y, ast.Constant) and y.value is None
        return (full(p) and none(q)) if axis == 0 else (none(p) and full(q))
    return (spin_b(a, 0) and spin_b(b, 1)) or (spin_b(a, 1) and spin_b(b, 0))


def doubled_from(S: Sem, new_expr: ast.AST, at: int, naxes: int) -> Tuple[Optional[Set[Tuple[int, ...]]], Optional[str], str]:
    """(offset tuples written, resolved text of the spinless source, description) for the array denoted by `new_expr`.
    naxes = number of interlaced axes (1 for centres/shifts, 2 for matrices)."""
    e = new_expr
    # np.repeat(old, 2, axis=k)
    r = S.resolve(e, at) if isinstance(e, ast.Name) else e
    if isinstance(r, ast.Call) and call_name(r) in ("np.repeat", "numpy.repeat") and len(r.args) >= 2 and const_of(r.args[1]) == 2 and naxes == 1:
        ax = const_of(kwarg(r, "axis", 2), None)
        if ax == 0:
            return {(0,), (1,)}, norm(r.args[0]), "np.repeat(old, 2, axis=0)"
    # gather with the doubling index: position p of the doubled axis takes orbital p // 2  →  old[arange(2n) // 2]
    if naxes == 1 and isinstance(r, ast.Subscript) and _is_orbital_index(S, r.slice, at):
        return {(0,), (1,)}, norm(r.value), "gather old[arange(2n) // 2]"
    name = norm(e)
    st = stride_stores(S, name)
    if not st and naxes == 2 and isinstance(e, ast.Name):
        # NEW[:, same_spin] = OLD[:, orb[:, None], orb[None, :]][:, same_spin]  with same_spin = (spin[:, None] == spin[None, :]), spin = arange(2n) % 2,
        # orb = arange(2n) // 2, NEW created as zeros: element (p, q) = OLD[p//2, q//2] when p ≡ q (mod 2), zero otherwise
        for st2 in ast.walk(S.fi.node if S.fi is not None else ast.Module(body=[], type_ignores=[])):
            if isinstance(st2, ast.Assign) and isinstance(st2.targets[0], ast.Subscript) and norm(st2.targets[0].value) == name \
                    and isinstance(st2.targets[0].slice, ast.Tuple) and len(st2.targets[0].slice.elts) == 2:
                mk = st2.targets[0].slice.elts[1]
                v = st2.value
                at2 = S.cfg.node(st2)
                if _is_same_spin_mask(S, mk, at2) and isinstance(v, ast.Subscript) and isinstance(v.slice, ast.Tuple) and len(v.slice.elts) == 2 \
                        and norm(v.slice.elts[1]) == norm(mk) and isinstance(v.value, ast.Subscript) and isinstance(v.value.slice, ast.Tuple) and len(v.value.slice.elts) == 3:
                    o1, o2 = v.value.slice.elts[1], v.value.slice.elts[2]
                    if _is_broadcast_of_orbital(S, o1, at2, 0) and _is_broadcast_of_orbital(S, o2, at2, 1):
                        zd = [d_ for d_ in S.du.reaching(name, at2) if d_.kind == "assign"]
                        zeros = zd[0].value if len(zd) == 1 else None
                        if isinstance(zeros, ast.Call) and call_name(zeros) in ("np.zeros", "numpy.zeros"):
                            return {(0, 0), (1, 1)}, S.rnorm(v.value.value, at2), "masked gather OLD[p//2, q//2] for p ≡ q (mod 2)"
    if not st:
        return None, None, f"no stride-2 stores into `{name}` and no np.repeat"
    vals = {S.rnorm(v, S.cfg.node(s)) for s, _, v in st}
    offs = {o for _, o, _ in st}
    return offs, (next(iter(vals)) if len(vals) == 1 else None), f"stride-2 stores at offsets {sorted(offs)}"
