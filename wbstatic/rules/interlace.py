"""How an array with doubled (spin-interlaced) axes is built from the spinless one — semantic summary shared by C05 and C25.

`doubling(S, stmts_root, new_name)` looks at every store into `new_name[…]` that uses stride-2 slices, expands a surrounding
`for i in range(2)` loop, and returns the set of offset tuples written together with the value stored; `np.repeat(old, 2, axis)`
is reported as the equivalent full set.  Unrolled loops, renamed variables and np.repeat therefore all give the same summary.
"""
from __future__ import annotations

import ast
from typing import Dict, List, Optional, Set, Tuple

from ..index import call_name, norm
from ..sem import Sem
from .common import const_of, enclosing_all, kwarg
from .spin import stride2_slots


def stride_stores(S: Sem, target_text: str) -> List[Tuple[ast.stmt, Tuple[int, ...], ast.AST]]:
    """[(stmt, offsets, value)] for stores `target[…, a::2, b::2, …] = value`; a loop variable of `for v in range(2)` is expanded."""
    out = []
    for s in ast.walk(S.node):
        if not (isinstance(s, ast.Assign) and isinstance(s.targets[0], ast.Subscript) and norm(s.targets[0].value) == target_text):
            continue
        slots = stride2_slots(s.targets[0])
        if not slots:
            continue
        loopvars = {}
        for l in enclosing_all(S.pm, s, ast.For):
            if isinstance(l.target, ast.Name) and norm(l.iter) == "range(2)":
                loopvars[l.target.id] = (0, 1)
        syms = sorted({x for x in slots if isinstance(x, str)})
        if any(x not in loopvars for x in syms):
            out.append((s, tuple(-1 for _ in slots), s.value))   # offset not understood
            continue
        if not syms:
            out.append((s, tuple(int(x) for x in slots), s.value))
        elif len(syms) == 1:
            for v in loopvars[syms[0]]:
                out.append((s, tuple(v if isinstance(x, str) else int(x) for x in slots), s.value))
        else:
            out.append((s, tuple(-1 for _ in slots), s.value))
    return out


def doubled_from(S: Sem, new_expr: ast.AST, at: int, naxes: int) -> Tuple[Optional[Set[Tuple[int, ...]]], Optional[str], str]:
    """(offset tuples written, resolved text of the spinless source, description) for the array denoted by `new_expr`.
    naxes = number of interlaced axes (1 for centres/shifts, 2 for matrices)."""
    e = new_expr
    # np.repeat(old, 2, axis=k)
    r = S.resolve(e, at) if isinstance(e, ast.Name) else e
    if isinstance(r, ast.Call) and call_name(r) in ("np.repeat", "numpy.repeat") and len(r.args) >= 2 and const_of(r.args[1]) == 2 and naxes == 1:
        ax = const_of(kwarg(r, "axis", 2), None)
        if ax == 0:
            return {(0,), (1,)}, norm(r.args[0]), "np.repeat(old, 2, axis=0)"
    name = norm(e)
    st = stride_stores(S, name)
    if not st:
        return None, None, f"no stride-2 stores into `{name}` and no np.repeat"
    vals = {S.rnorm(v, S.cfg.node(s)) for s, _, v in st}
    offs = {o for _, o, _ in st}
    return offs, (next(iter(vals)) if len(vals) == 1 else None), f"stride-2 stores at offsets {sorted(offs)}"
