"""C29 — paths are built and tabulated faithfully (structural clauses).

R29.1 path order is restored from coordinates before run() returns (shared with C12's R12.3); evaluate_k_path goes through run().
R29.2 get_refined keeps every original point, re-keys labels/breaks at the position of the point they belong to, and inserts
      uniformly spaced points K_i + j (K_{i+1} − K_i)/factor.
R29.3 the path coordinate is a cumulative sum of non-negative increments (norms, some zeroed).
R29.4 from_nodes puts each label on its node, samples each segment uniformly excluding the end point, appends the last node.
R29.5 the K-point batches handed to run() tile the path in order; every batch carries its own points.
"""
from __future__ import annotations

import ast
from typing import Dict, List, Optional

from ..algebra import Rat, to_rat
from ..index import AnalysisError, call_name, norm, norm1
from ..sem import Sem, inline_private_helpers
from .c12 import check_reorder
from .common import Frag, calls, const_of, enclosing, fctx, in_body, is_name, kwarg, method_calls, pmatch, stmts

LEVEL = "other"
EXPLANATION = (
    "Statement-order and def-use rules on Path.from_nodes / get_refined / getKline / get_K_list and on run(): the label or "
    "break of point i is re-keyed with len(list) − 1 taken after the append of that very point and before any inserted point; "
    "inserted points are compared as exact polynomials with K_i + j (K_{i+1} − K_i)/factor; the path coordinate is a cumsum of "
    "a norm array modified only by stores of 0; batches K_list[ik:ik+k_batch] over range(0, len, k_batch) tile the path; the "
    "coordinate-based re-ordering lies on every path of run() to its return (CFG dominance). Not decided: per-point equality "
    "with single-point evaluation.")

PT = "wannierberri/grid/path.py"
EK = "wannierberri/evaluate_k.py"


def run(ctx) -> None:
    idx = ctx.index
    # ---------------------------------------------------------------- R29.1
    check_reorder(ctx, "R29.1")
    r1 = ctx.rules[-1]
    ek = idx.function(EK, "evaluate_k_path")
    r1.instance(ek.short)
    ecfg, edu, epm = fctx(ek)
    rc = [c for c in calls(ek.node, "run") if call_name(c) == "run"]
    if len(rc) != 1:
        r1.expect(False, "run() call located", ek, ek.node, "evaluate_k_path: the single call of run() was not found")
    else:
        c = rc[0]
        g = kwarg(c, "grid", 1)
        cal = kwarg(c, "calculators", 2)
        okg = g is not None and isinstance(edu.resolve_local(g, edu.node_of_expr(c)), ast.Name) and edu.resolve_local(g, edu.node_of_expr(c)).id == "path"
        tab_ok = False
        if isinstance(cal, ast.Dict):
            for v in cal.values:
                vv = edu.resolve_local(v, edu.node_of_expr(c))
                if isinstance(vv, ast.Call) and call_name(vv).endswith("TabulatorAll") and const_of(kwarg(vv, "mode"), "grid") == "path":
                    tab_ok = True
        # the caller's band selection keeps its order: nothing that sorts / de-duplicates may lie between the parameter and the tabulator
        for v in (cal.values if isinstance(cal, ast.Dict) else []):
            vv = edu.resolve_local(v, edu.node_of_expr(c))
            ib = kwarg(vv, "ibands") if isinstance(vv, ast.Call) else None
            if ib is None:
                continue
            sl_, ps_, _ = edu.backward_slice(ib, edu.node_of_expr(c))
            reord = [q_ for e_ in sl_ for q_ in ast.walk(e_) if isinstance(q_, ast.Call) and (call_name(q_) in ("np.unique", "sorted", "np.sort", "set", "frozenset", "numpy.unique", "numpy.sort")
                                                                                           or (isinstance(q_.func, ast.Attribute) and q_.func.attr == "sort"))]
            r1.check(not reord, "the requested band selection reaches the tabulator in the caller's order", ek, reord[0] if reord else c,
                     f"`{norm1(reord[0], 80) if reord else ''}` re-orders / de-duplicates the caller's `ibands` before it is handed to the tabulator: the band axis of every "
                     f"tabulated quantity comes back in ascending order instead of the requested one, so the values along the path are not the values of the requested bands")
        r1.check(okg and tab_ok, "evaluate_k_path evaluates the path through run(grid=path) with a path-mode TabulatorAll", ek, c,
                 f"`{norm1(c, 100)}`: evaluate_k_path no longer goes through run(grid=path) with a TabulatorAll in mode='path' (no re-ordering of the "
                 f"asynchronously gathered batches is applied)")

    # ---------------------------------------------------------------- R29.2
    r2 = ctx.rule("R29.2", "get_refined keeps original points and their labels/breaks; uniform insertion")
    f = inline_private_helpers(idx, idx.function(PT, "Path.get_refined"))
    S2 = Sem(idx, f)
    cfg, du, pm = S2.cfg, S2.du, S2.pm
    r2.instance(f.short)
    rt = [s_ for s_ in stmts(f.node) if isinstance(s_, ast.Return) and isinstance(s_.value, ast.Call)]
    loops = [s_ for s_ in f.node.body if isinstance(s_, ast.For)]
    if len(loops) != 1 or len(rt) != 1 or not isinstance(loops[0].target, ast.Name):
        r2.expect(False, "main loop and return located", f, f.node, "get_refined: one top-level loop and one `return Path(…)` expected")
        return
    lp = loops[0]
    i = lp.target.id
    kws = {k.arg: norm(k.value) for k in rt[0].value.keywords}
    lst, labs, brks = kws.get("k_list"), kws.get("labels"), kws.get("breaks")
    if not all(x is not None and x.isidentifier() for x in (lst, labs, brks)):
        r2.expect(False, "returned lists are local names", f, rt[0], "get_refined: `return Path(k_list=…, labels=…, breaks=…)` with local lists expected")
        return
    for nm, empty in ((lst, ("[]", "list()")), (labs, ("{}", "dict()")), (brks, ("[]", "list()"))):
        d0 = [d for ds in du.defs_at.values() for d in ds if d.name == nm]
        r2.check(len(d0) == 1 and d0[0].value is not None and norm(d0[0].value) in empty, f"`{nm}` starts empty and is never rebound", f, d0[0].stmt if d0 else f.node,
                 f"`{nm}` is rebound / does not start empty in get_refined: previously collected points, labels or breaks are lost")
    lpi = du.resolve_local(lp.iter.args[0], cfg.node(lp)) if isinstance(lp.iter, ast.Call) and call_name(lp.iter) == "range" and len(lp.iter.args) == 1 else None
    n_last = norm(lpi).replace(" ", "") if lpi is not None else None
    lasts = sorted(({norm(lp.iter.args[0])} if lpi is not None else set()) | {"len(self.K_list) - 1", "-1"})

    def own_point(block: List[ast.stmt], P_forms, what: str):
        """In `block`: the append of original point P and the re-keying of its label and break at the position that point gets."""
        def grows(s_):   # statements that append to the refined list
            return [c_ for c_ in ast.walk(s_) if isinstance(c_, ast.Call) and isinstance(c_.func, ast.Attribute) and c_.func.attr in ("append", "extend", "insert")
                    and norm(c_.func.value) == lst]
        p_app = [k for k, s_ in enumerate(block) if isinstance(s_, ast.Expr) and any(norm(s_.value).replace(" ", "") == f"{lst}.append(self.K_list[{P}])".replace(" ", "") for P in P_forms)]
        if len(p_app) != 1:
            r2.check(False, f"{what} point appended", f, block[0] if block else f.node, f"get_refined does not append the {what} original point K_list[{P_forms[0]}] exactly once")
            return None
        pa = p_app[0]

        def key_index(key: ast.AST, p_use: int):
            """index denoted by `key` relative to the list length L0 at block start: (offset, position where len() is read) or None"""
            e, p_eval = key, p_use
            if isinstance(e, ast.Name):
                dd = du.single_def(e.id, cfg.node(block[p_use]))
                if dd is None or dd.stmt not in block:
                    return None
                e, p_eval = dd.value, block.index(dd.stmt)
            t_ = norm(e).replace(" ", "")
            if t_ == f"len({lst})-1":
                off = -1
            elif t_ == f"len({lst})":
                off = 0
            else:
                return None
            n_before = 0
            for k in range(p_eval):
                g_ = grows(block[k])
                if not g_:
                    continue
                if k == pa:
                    n_before += 1
                else:
                    return None       # an insertion of unknown size precedes the read of len()
            return n_before + off, p_eval
        res = {}
        for kind, attr in (("label", "labels"), ("break", "breaks")):
            hits = []
            for k, s_ in enumerate(block):
                if isinstance(s_, ast.If) and any(norm(s_.test) == f"{P} in self.{attr}" for P in P_forms) and len(s_.body) == 1 and not s_.orelse:
                    st_ = s_.body[0]
                    if kind == "label":
                        m_ = pmatch(st_, f"{labs}[KEY_] = self.labels[P_]", {"KEY_", "P_"})
                        if m_ and m_[0][0] is st_ and m_[0][1]["P_"] in P_forms:
                            hits.append((k, st_.targets[0].slice))
                    else:
                        m_ = pmatch(st_, f"{brks}.append(KEY_)", {"KEY_"})
                        if m_ and isinstance(st_, ast.Expr) and m_[0][0] is st_.value:
                            hits.append((k, st_.value.args[0]))
            ok_ = False
            if len(hits) == 1:
                ki = key_index(hits[0][1], hits[0][0])
                own_index = 0   # appends before the own append within the block are not allowed (own point is the first growth)
                ok_ = ki is not None and ki[0] == own_index and not any(grows(block[k]) for k in range(pa))
            r2.check(ok_, f"{what} point: its {kind} is re-keyed by the position the point gets in the refined list", f, block[hits[0][0]] if hits else block[pa],
                     f"the {kind} of the {what} original point is not stored under the index that point gets in `{lst}` (it must be len({lst}) read right before "
                     f"the point is appended, or len({lst}) − 1 right after, before any interpolated point is inserted): labels/breaks drift off their k-points")
            res[kind] = hits
        return pa
    pa = own_point(lp.body, [i], "current")
    r2.check(n_last == "len(self.K_list)-1", "every original point except the last is handled in the loop", f, lp, "get_refined's loop does not run over all original points but the last")
    # inserted points
    ins_elt, ins_loop_iter, ins_var, ins_node = None, None, None, None
    for c_ in ast.walk(lp):
        if isinstance(c_, ast.Call) and isinstance(c_.func, ast.Attribute) and norm(c_.func.value) == lst:
            if c_.func.attr == "append" and c_.args and enclosing(pm, c_, ast.For) is not lp and enclosing(pm, c_, ast.For) is not None:
                jl = enclosing(pm, c_, ast.For)
                ins_elt, ins_loop_iter, ins_var, ins_node = c_.args[0], jl.iter, norm(jl.target), c_
            if c_.func.attr == "extend" and c_.args and isinstance(c_.args[0], (ast.GeneratorExp, ast.ListComp)) and len(c_.args[0].generators) == 1:
                ge = c_.args[0].generators[0]
                ins_elt, ins_loop_iter, ins_var, ins_node = c_.args[0].elt, ge.iter, norm(ge.target), c_
    if ins_node is None:
        r2.expect(False, "inserted-point expression located", f, lp, "get_refined: the insertion of interpolated points was not found")
        return
    at_ins = du.node_of_expr(ins_node)

    def env(x):
        if isinstance(x, ast.Subscript) and norm(x.value) == "self.K_list":
            tt = norm(x.slice).replace(" ", "")
            return Rat.sym("K1") if tt in (f"{i}+1", f"1+{i}") else Rat.sym("K0") if tt == i else None
        if isinstance(x, ast.Name):
            if x.id == ins_var:
                return Rat.sym("j")
            dd = du.single_def(x.id, at_ins)
            if dd is not None and dd.kind == "assign" and x.id not in (i, "factor"):
                return to_rat(dd.value, env)
            return Rat.sym(x.id)
        return None
    got = to_rat(ins_elt, env)
    want = Rat.sym("K0") + Rat.sym("j") * (Rat.sym("K1") - Rat.sym("K0")) / Rat.sym("factor")
    r2.check(got.equals(want) and norm(ins_loop_iter).replace(" ", "") == "range(1,factor)", "inserted points are K_i + j (K_{i+1} − K_i)/factor, j = 1 … factor−1",
             f, ins_node, f"inserted points `{norm1(ins_elt)}` over `{norm1(ins_loop_iter)}` are not the uniform subdivision of the segment")
    ins_stmt = enclosing(pm, ins_node, ast.stmt)
    top_ins = ins_stmt
    while pm.get(top_ins) is not lp:
        top_ins = pm[top_ins]
    r2.check(pa is not None and lp.body.index(top_ins) > pa, "interpolated points follow their segment's start point", f, top_ins,
             "interpolated points are inserted before the original point that starts their segment")
    okb = any(t_ == f"{i} in self.breaks" and p_ is False for t_, p_, _ in S2.conditions(ins_stmt, resolve=False))
    r2.check(okb, "no points are inserted across a break", f, ins_stmt, "points are interpolated across a break of the path")
    after = f.node.body[f.node.body.index(lp) + 1:]
    after = [s_ for s_ in after if not isinstance(s_, ast.Return)]
    own_point(after, lasts, "last")

    # ---------------------------------------------------------------- R29.3
    r3 = ctx.rule("R29.3", "path coordinate = cumulative sum of non-negative increments")
    gk = idx.function(PT, "Path.getKline")
    r3.instance(gk.short)
    kcfg, kdu, kpm = fctx(gk)
    G = Frag(gk)
    cs = G.find("K[1:] = np.cumsum(k)")
    anycs = [s_ for s_ in stmts(gk.node) if isinstance(s_, ast.Assign) and any(call_name(c_).endswith("cumsum") for c_ in ast.walk(s_.value) if isinstance(c_, ast.Call))]
    if not cs and not anycs:
        r3.expect(False, "cumsum located", gk, gk.node, "getKline: no cumulative sum found")
        return
    r3.check(len(cs) == 1, "K[1:] = cumsum(k)", gk, (cs or [(anycs[0], {})])[0][0], f"`{norm1(anycs[0]) if anycs else ''}` is not K[1:] = cumsum(increments)")
    if not cs:
        return
    kname, Kname = cs[0][1]["k"], cs[0][1]["K"]
    kd = [d for ds in kdu.defs_at.values() for d in ds if d.name == kname]
    cart = G.find(f"{kname} = np.linalg.norm(KPcart[1:, :] - KPcart[:-1, :], axis=1)") or G.find(f"{kname} = np.linalg.norm(KPcart[1:] - KPcart[:-1], axis=1)") \
        or G.find(f"{kname} = np.linalg.norm(np.diff(KPcart, axis=0), axis=1)")
    r3.check(len(kd) == 1 and bool(cart), "increments are Cartesian distances between consecutive points",
             gk, kd[0].stmt if kd else gk.node, "the increments are not norms of consecutive differences of the Cartesian k-points")
    mods = [s_ for s_ in stmts(gk.node) if isinstance(s_, (ast.Assign, ast.AugAssign)) and isinstance((s_.targets[0] if isinstance(s_, ast.Assign) else s_.target), ast.Subscript)
            and norm((s_.targets[0] if isinstance(s_, ast.Assign) else s_.target).value) == kname]
    r3.check(all(isinstance(s_, ast.Assign) and const_of(s_.value) == 0 for s_ in mods), "increments are only ever overwritten with 0", gk, mods[0] if mods else gk.node,
             "an increment of the path coordinate is modified by something other than a store of 0: the coordinate can decrease")
    r3.check(bool(G.find("KPcart = self.K_list.dot(self.recip_lattice)") or G.find("KPcart = self.K_list @ self.recip_lattice") or G.find("KPcart = self.get_kpoints_cart()"))
             and bool(G.find(f"{Kname} = np.zeros(KPcart.shape[0])") or G.find(f"{Kname} = np.zeros(len(KPcart))") or G.find(f"{Kname} = np.zeros(len(self.K_list))")),
             "K starts at 0; distances are Cartesian", gk, gk.node, "getKline no longer starts at 0 / uses Cartesian coordinates", stmt="K0")
    retk = [s_ for s_ in stmts(gk.node) if isinstance(s_, ast.Return)]
    r3.check(len(retk) == 1 and norm(retk[0].value) == Kname, "the cumulative coordinate is what is returned", gk, retk[0] if retk else gk.node,
             "getKline does not return the cumulative coordinate")

    # ---------------------------------------------------------------- R29.4
    r4 = ctx.rule("R29.4", "from_nodes: labels on nodes, uniform segments, last node appended")
    fn = idx.function(PT, "Path.from_nodes")
    r4.instance(fn.short)
    NS = Sem(idx, fn)
    ncfg, ndu, npm = NS.cfg, NS.du, NS.pm
    seg_loops = [l for l in stmts(fn.node) if isinstance(l, ast.For) and isinstance(l.iter, ast.Call) and call_name(l.iter) == "zip" and len(l.iter.args) >= 3
                 and norm(l.iter.args[0]) == "nodes" and norm(l.iter.args[1]) == "nodes[1:]" and isinstance(l.target, ast.Tuple) and len(l.target.elts) == len(l.iter.args)]
    if len(seg_loops) != 1:
        r4.expect(False, "segment loop located", fn, fn.node, "from_nodes: the loop over zip(nodes, nodes[1:], <labels>…) was not found")
        return
    lp4 = seg_loops[0]
    st_, en_, l1_ = (norm(x) for x in lp4.target.elts[:3])
    lab_list = norm(lp4.iter.args[2])
    # every statement that stacks rows below the k-list
    stacks = [s_ for s_ in ast.walk(lp4) if isinstance(s_, ast.Assign) and isinstance(s_.targets[0], ast.Name)
              and pmatch(s_.value, f"np.vstack(({s_.targets[0].id}, ANY))") and pmatch(s_.value, f"np.vstack(({s_.targets[0].id}, ANY))")[0][0] is s_.value]
    kls = {s_.targets[0].id for s_ in stacks}
    if len(kls) != 1:
        r4.expect(False, "k-list stacking located", fn, lp4, "from_nodes: statements `K_list = np.vstack((K_list, …))` in the segment loop were not found")
        return
    kl = next(iter(kls))

    def paths(block, conds, events):
        """enumerate paths through a statement list (ifs fork, continue ends a path); yields (conditions, events)"""
        if not block:
            yield conds, events, False
            return
        s0, rest = block[0], block[1:]
        if isinstance(s0, ast.Continue):
            yield conds, events, True
            return
        if isinstance(s0, ast.If):
            for arm, pol in ((s0.body, True), (s0.orelse, False)):
                for c_, e_, done in paths(list(arm), conds + [(s0.test, pol)], events):
                    if done:
                        yield c_, e_, True
                    else:
                        yield from paths(rest, c_, e_)
            return
        yield from paths(rest, conds, events + [s0])

    def truth(test, env):
        """three-valued evaluation of a test over {start is None, end is None}"""
        if isinstance(test, ast.BoolOp):
            vals = [truth(v, env) for v in test.values]
            if isinstance(test.op, ast.And):
                return False if any(v is False for v in vals) else (True if all(v is True for v in vals) else None)
            return True if any(v is True for v in vals) else (False if all(v is False for v in vals) else None)
        if isinstance(test, ast.UnaryOp) and isinstance(test.op, ast.Not):
            v = truth(test.operand, env)
            return None if v is None else not v
        if isinstance(test, ast.Compare) and len(test.ops) == 1 and isinstance(test.comparators[0], ast.Constant) and test.comparators[0].value is None \
                and norm(test.left) in env:
            v = env[norm(test.left)]
            return v if isinstance(test.ops[0], ast.Is) else (not v) if isinstance(test.ops[0], ast.IsNot) else None
        return None

    def analyse(evs):
        """symbolic walk: length offset of the k-list relative to the start of the iteration"""
        off = 0            # rows stacked so far (None = unknown)
        temps = {}
        lab_keys, stacked, brk_vals = [], [], []

        def val(e):
            t_ = norm(e).replace(" ", "")
            if isinstance(e, ast.Name) and e.id in temps:
                return temps[e.id]
            if t_ in (f"{kl}.shape[0]", f"len({kl})"):
                return off
            if t_ in (f"{kl}.shape[0]-1", f"len({kl})-1"):
                return None if off is None else off - 1
            return "?"
        for s_ in evs:
            if isinstance(s_, ast.Assign) and isinstance(s_.targets[0], ast.Name) and norm(s_.value).replace(" ", "") in (f"{kl}.shape[0]", f"len({kl})"):
                temps[s_.targets[0].id] = off
            elif isinstance(s_, ast.Assign) and isinstance(s_.targets[0], ast.Subscript) and isinstance(s_.targets[0].value, ast.Name) and norm(s_.value) in (l1_,) \
                    and s_.targets[0].value.id != kl:
                lab_keys.append((norm(s_.targets[0].value), val(s_.targets[0].slice), s_))
            elif s_ in stacks:
                x = s_.value.args[0].elts[1]
                xr = NS.resolve(x, ncfg.node(s_))
                one = norm(x) in (f"[{st_}]", f"{st_}[None, :]", f"np.array([{st_}])", f"[{st_}]") or norm(xr) in (f"[{st_}]", f"np.array({st_})[None, :]")
                stacked.append((s_, 1 if one else "seg", xr))
                off = None if (off is None or not one) else off + 1
            elif isinstance(s_, ast.Expr) and isinstance(s_.value, ast.Call) and isinstance(s_.value.func, ast.Attribute) and s_.value.func.attr == "append" and s_.value.args \
                    and norm(s_.value.func.value) != kl and val(s_.value.args[0]) != "?":
                brk_vals.append((norm(s_.value.func.value), val(s_.value.args[0]), s_))
        return lab_keys, stacked, brk_vals
    all_paths = list(paths(list(lp4.body), [], []))
    nlab_names, brk_names = set(), set()
    for sn in (True, False):
        for en in (True, False):
            env = {st_: sn, en_: en}
            consistent = [(c_, e_) for c_, e_, _ in all_paths if all(truth(t_, env) in (None, pol) for t_, pol in c_)]
            desc = f"start {'is' if sn else 'is not'} None, end {'is' if en else 'is not'} None"
            for c_, e_ in consistent:
                labk, stk, brk = analyse(e_)
                anchor = (labk[0][2] if labk else (stk[0][0] if stk else lp4))
                if sn:
                    r4.check(not labk and not stk and not brk, f"[{desc}] nothing is added", fn, anchor,
                             f"from_nodes adds points / labels / breaks for a segment whose start is None ({desc})")
                    continue
                nlab_names |= {x[0] for x in labk}
                r4.check(len(labk) == 1 and labk[0][1] == 0, f"[{desc}] the start label is keyed by the index the node is about to get", fn, anchor,
                         f"[{desc}] the label of the segment's start node is not stored exactly once under the current length of `{kl}` (before anything is stacked in this "
                         f"iteration): it lands on the wrong k-point")
                if en:
                    brk_names |= {x[0] for x in brk}
                    r4.check(len(stk) == 1 and stk[0][1] == 1 and len(brk) == 1 and brk[0][1] == 0, f"[{desc}] the lone start node is stacked and a break recorded at its index", fn, anchor,
                             f"[{desc}] the piece-ending node is not stacked once with a break recorded at its own index (got stacks {[x[1] for x in stk]}, "
                             f"break offsets {[x[1] for x in brk]}): the break points at another k-point")
                else:
                    okseg = len(stk) == 1 and stk[0][1] == "seg" and not brk
                    if okseg:
                        xr = stk[0][2]
                        forms = ("S0[None, :] + np.linspace(0, 1.0, NK - 1, endpoint=False)[:, None] * (E0 - S0)[None, :]",
                                 "S0 + np.linspace(0, 1.0, NK - 1, endpoint=False)[:, None] * (E0 - S0)")
                        m_ = None
                        for fm in forms:
                            mm = pmatch(xr, fm, {"S0", "E0", "NK"})
                            if mm and mm[0][0] is xr:
                                m_ = mm[0][1]
                        at0 = ncfg.node(lp4.body[0])
                        sforms = {w.format(x) for x in (st_, NS.rnorm(ast.Name(id=st_, ctx=ast.Load()), at0)) for w in ("{}", "np.array({})", "np.asarray({})")}
                        eforms = {w.format(x) for x in (en_, NS.rnorm(ast.Name(id=en_, ctx=ast.Load()), at0)) for w in ("{}", "np.array({})", "np.asarray({})")}
                        okseg = m_ is not None and m_["S0"] in sforms and m_["E0"] in eforms
                    r4.check(okseg, f"[{desc}] segment sampling: start + t (end − start), t uniform in [0, 1)", fn, stk[0][0] if stk else anchor,
                             "a segment is no longer sampled as start + linspace(0, 1, _nk − 1, endpoint=False)·(end − start) and stacked once below K_list")
    # a segment whose length rounds to zero steps still contributes its start node: the count computed from dk is raised to 2 whenever it is 1
    FNS_ = Sem(idx, fn)
    for st_nk in [x for x in stmts(fn.node) if isinstance(x, ast.Assign) and isinstance(x.targets[0], ast.Name) and isinstance(x.value, ast.BinOp)
                  and any(isinstance(c_, ast.Call) and call_name(c_) == "round" for c_ in ast.walk(x.value))]:
        nkv = st_nk.targets[0].id
        blk_ = next((b_ for n_ in ast.walk(fn.node) for b_ in (getattr(n_, "body", None), getattr(n_, "orelse", None)) if isinstance(b_, list) and st_nk in b_), None)
        if blk_ is None:
            continue
        after_ = blk_[blk_.index(st_nk) + 1:]
        okmin = any(isinstance(c_, ast.Call) and call_name(c_) == "max" and any(norm(a_) == "2" for a_ in c_.args) for c_ in ast.walk(st_nk.value))
        for g_ in after_:
            if isinstance(g_, ast.If) and not g_.orelse and len(g_.body) == 1 and isinstance(g_.body[0], ast.Assign) and norm(g_.body[0].targets[0]) == nkv \
                    and norm(g_.body[0].value) == "2":
                t_ = norm(g_.test).replace(" ", "")
                okmin = t_ in (f"{nkv}==1", f"{nkv}<2", f"{nkv}<=1", f"1=={nkv}")
                if not okmin:
                    r4.violation(fn, g_, f"`if {norm1(g_.test)}: {nkv} = 2` raises the number of points of a short segment only under an extra condition: a segment for which it "
                                 f"does not hold (e.g. a repeated node, length 0) contributes no point at all, so its start node and label are lost")
                    okmin = True
                break
            if isinstance(g_, ast.Assign) and norm(g_.targets[0]) == nkv and isinstance(g_.value, ast.Call) and call_name(g_.value) == "max":
                okmin = any(norm(a_) == "2" for a_ in g_.value.args)
                break
        r4.check(okmin, "every segment sampled from dk gets at least its start point (count ≥ 2)", fn, st_nk,
                 f"`{norm1(st_nk)}`: nothing raises the count to 2 when the segment is shorter than dk/2: the start node of such a segment is dropped")
    if not (len(nlab_names) == 1 and len(brk_names) == 1):
        r4.expect(False, "label dictionary and break list identified", fn, lp4, f"from_nodes: label dict {nlab_names} / break list {brk_names} not identified uniquely")
        return
    nlab, bname = next(iter(nlab_names)), next(iter(brk_names))
    after = fn.node.body[fn.node.body.index(lp4) + 1:] if lp4 in fn.node.body else []
    i_st = [k for k, s_ in enumerate(after) if pmatch(s_, f"{kl} = np.vstack(({kl}, nodes[-1]))") or pmatch(s_, f"{kl} = np.vstack(({kl}, [nodes[-1]]))")]
    i_lb = [(k, s_) for k, s_ in enumerate(after) if isinstance(s_, ast.Assign) and isinstance(s_.targets[0], ast.Subscript) and norm(s_.targets[0].value) == nlab
            and norm(s_.value) in (f"{lab_list}[-1]",)]
    okl = False
    if len(i_st) == 1 and len(i_lb) == 1:
        kt = norm(i_lb[0][1].targets[0].slice).replace(" ", "")
        okl = (i_st[0] < i_lb[0][0] and kt in (f"{kl}.shape[0]-1", f"len({kl})-1")) or (i_lb[0][0] < i_st[0] and kt in (f"{kl}.shape[0]", f"len({kl})"))
    r4.check(okl, "the last node is appended and labelled at its own index", fn, after[0] if after else fn.node,
             "the last node / its label is not appended at the end of the path (label keyed by the index the last node gets)")
    stores = {norm(s_.targets[0]): norm(s_.value) for s_ in after if isinstance(s_, ast.Assign) and isinstance(s_.targets[0], ast.Attribute)}
    r4.check(stores.get("self.K_list") == kl and stores.get("self.labels") == nlab and stores.get("self.breaks") == bname, "the constructed lists are stored", fn, fn.node,
             f"from_nodes does not store the constructed K_list/labels/breaks (stores: {stores})", stmt="stores")
    ld = [d for d in ndu.reaching(lab_list, ncfg.node(lp4))] if lab_list.isidentifier() else []
    r4.check(lab_list == "labels" or (len(ld) == 1 and ld[0].value is not None and "None if" in norm(ld[0].value)), "one label per node (None for a gap)", fn, lp4,
             f"the labels iterated with the nodes (`{lab_list}`) are not one-per-node")

    # ---------------------------------------------------------------- R29.5
    r5 = ctx.rule("R29.5", "K-point batches tile the path in order")
    gl = idx.function(PT, "Path.get_K_list")
    r5.instance(gl.short)
    LS = Sem(idx, gl)
    kb = gl.params[2] if len(gl.params) > 2 else "k_batch"
    ctor = [c for c in ast.walk(gl.node) if isinstance(c, ast.Call) and call_name(c) == "KpointBZpath"]
    if len(ctor) != 1:
        r5.expect(False, "KpointBZpath constructor located", gl, gl.node, "get_K_list: one KpointBZpath(…) call expected")
    else:
        c5 = ctor[0]
        # iteration: an enclosing for-loop or the generator of an enclosing list comprehension
        it_node, it_var, container = None, None, None
        x = c5
        while x in LS.pm:
            x = LS.pm[x]
            if isinstance(x, ast.ListComp) and len(x.generators) == 1 and x.elt is c5:
                it_node, it_var = x.generators[0].iter, norm(x.generators[0].target)
                st_ = enclosing(LS.pm, x, ast.stmt)
                container = norm(st_.targets[0]) if isinstance(st_, ast.Assign) and st_.value is x else ("<returned>" if isinstance(st_, ast.Return) and st_.value is x else None)
                break
            if isinstance(x, ast.For):
                it_node, it_var = x.iter, norm(x.target)
                ap = LS.pm.get(c5)
                if isinstance(ap, ast.Call) and isinstance(ap.func, ast.Attribute) and ap.func.attr == "append" and ap.args and ap.args[0] is c5:
                    container = norm(ap.func.value)
                break
        ra = [norm(a_).replace(" ", "") for a_ in it_node.args] if isinstance(it_node, ast.Call) and call_name(it_node) == "range" else []
        r5.check(len(ra) == 3 and ra[0] == "0" and ra[1] in ("len(self.K_list)", "self.K_list.shape[0]") and ra[2] == kb,
                 "batch starts: 0, k_batch, 2·k_batch, … < len(K_list)", gl, it_node or c5,
                 f"`{norm1(it_node) if it_node is not None else None}`: the batch starts are not range(0, len(self.K_list), k_batch): path points are skipped or evaluated twice")
        kv = kwarg(c5, "K", 0)
        kres = LS.resolve(kv, LS.du.node_of_expr(c5)) if kv is not None and not isinstance(LS.pm.get(c5), ast.ListComp) else kv
        oks = isinstance(kres, ast.Subscript) and norm(kres.value) == "self.K_list" and isinstance(kres.slice, ast.Slice) and kres.slice.step is None \
            and norm(kres.slice.lower or ast.Constant(0)) == it_var and kres.slice.upper is not None and norm(kres.slice.upper).replace(" ", "") in (f"{it_var}+{kb}", f"{kb}+{it_var}")
        r5.check(oks, "batch = K_list[ik : ik + k_batch]", gl, c5,
                 f"`{norm1(kres) if kres is not None else None}`: the batches handed to run() do not tile the path (points skipped or duplicated)")
        ret = [s_ for s_ in stmts(gl.node) if isinstance(s_, ast.Return)]
        r5.check(container is not None and len(ret) == 1 and (container == "<returned>" or norm(ret[0].value) == container),
                 "every batch becomes one KpointBZpath, in order, in the returned list", gl, c5,
                 "a batch is not wrapped into its own KpointBZpath and collected, in order, in the returned list")
    kp = idx.cls("wannierberri/grid/Kpoint.py", "KpointBZpath")
    ini = kp.methods["__init__"]
    sup = [c for c in ast.walk(ini.node) if isinstance(c, ast.Call) and norm(c.func) == "super().__init__"]
    kpn = ini.params[1] if len(ini.params) > 1 else "K"
    if len(sup) != 1:
        r5.expect(False, "KpointBZpath constructor chains to the base", ini, ini.node, "KpointBZpath.__init__: super().__init__(K=…) not found")
    else:
        kv = kwarg(sup[0], "K", 0)
        kv = fctx(ini)[1].resolve_local(kv, fctx(ini)[1].node_of_expr(sup[0])) if kv is not None else None
        forms = (f"np.copy({kpn}).reshape(-1, 3)", f"np.array({kpn}).reshape(-1, 3)", f"np.copy({kpn}).reshape((-1, 3))", f"np.array({kpn}, dtype=float).reshape(-1, 3)",
                 f"np.copy({kpn})", f"np.array({kpn})", kpn)
        r5.check(kv is not None and norm(kv) in forms, "a path K-point stores exactly its batch of k-vectors", ini, sup[0],
                 f"KpointBZpath stores `{norm1(kv) if kv is not None else None}` instead of its batch of k-vectors (as rows of 3)")
    dk = idx.function("wannierberri/data_K/data_K.py", "Data_K.__init__")
    kpar = "Kpoint"
    DS = Sem(idx, dk)
    got = False
    for ds_ in DS.du.defs_at.values():
        for d_ in ds_:
            if d_.value is not None and norm(d_.value) == f"{kpar}.K" and d_.kind == "assign":
                conds = [t_ for t_, p_, _ in DS.conditions(d_.stmt, resolve=False) if p_]
                under = any(f"isinstance({kpar}, KpointBZpath)" in t_ for t_ in conds)
                stores = [s_ for s_ in stmts(dk.node) if isinstance(s_, ast.Assign) and norm(s_.targets[0]) == "self.k_list" and norm(s_.value) == d_.name]
                got = got or (under and bool(stores))
    r5.check(bool(got), "a path K-point is evaluated at its own k-list", dk, dk.node, "Data_K no longer takes k_list from the path K-point", stmt="k_list = Kpoint.K")


from ..selftest import V  # noqa: E402

SELFTEST = [
    V("short-segment fix-up under an extra condition (seeded C29-m5)", PT, "                    if _nk == 1:\n", "                    if _nk == 1 and np.linalg.norm(start - end) > 0:\n", "fire", "R29.4"),
    V("band selection sorted before it reaches the tabulator (seeded C29-m6)", EK, "    tabulators_loc = {}\n",
      "    if ibands is not None:\n        ibands = np.unique(np.array(ibands, dtype=int))\n    tabulators_loc = {}\n", "fire", "R29.1"),
    V("labels re-keyed before the point is appended", PT,
      "            K_list_refined.append(self.K_list[i])\n            if i in self.labels:\n                labels_refined[len(K_list_refined) - 1] = self.labels[i]",
      "            if i in self.labels:\n                labels_refined[len(K_list_refined) - 1] = self.labels[i]\n            K_list_refined.append(self.K_list[i])", "fire", "R29.2"),
    V("refinement inserts points at j/(factor+1)", PT, "segment = (self.K_list[i + 1] - self.K_list[i]) / factor", "segment = (self.K_list[i + 1] - self.K_list[i]) / (factor + 1)",
      "fire", "R29.2"),
    V("last label dropped on refinement", PT, "        if last_point_index in self.labels:\n            labels_refined[len(K_list_refined) - 1] = self.labels[last_point_index]\n", "", "fire", "R29.2"),
    V("break increments kept (negative jump possible)", PT, "            k[self.breaks] = 0.0", "            k[self.breaks] = -k[self.breaks]", "fire", "R29.3"),
    V("segment sampled including its end point", PT, "np.linspace(0, 1., _nk - 1, endpoint=False)", "np.linspace(0, 1., _nk - 1, endpoint=True)", "fire", "R29.4"),
    V("start label stored after stacking", PT,
      "                new_labels[K_list.shape[0]] = l1\n                start = np.array(start)\n                end = np.array(end)\n                assert start.shape == end.shape == (3, )",
      "                start = np.array(start)\n                end = np.array(end)\n                assert start.shape == end.shape == (3, )", "fire", "R29.4"),
    V("batches overlap by one point", PT, "K = self.K_list[ik:ik + k_batch]", "K = self.K_list[ik:ik + k_batch + 1]", "fire", "R29.5"),
    V("path re-ordering dropped in run()", "wannierberri/run_grid.py", "                val.self_to_path(path=grid)", "                pass", "fire", "R29.1"),
    V("break recorded before the end node is stacked", PT, "                K_list = np.vstack((K_list, [start]))\n                breaks.append(K_list.shape[0] - 1)",
      "                breaks.append(K_list.shape[0] - 1)\n                K_list = np.vstack((K_list, [start]))", "fire", "R29.4"),
    V("last label keyed before the last node is stacked", PT, "        K_list = np.vstack((K_list, nodes[-1]))\n        new_labels[K_list.shape[0] - 1] = labels[-1]",
      "        new_labels[K_list.shape[0] - 1] = labels[-1]\n        K_list = np.vstack((K_list, nodes[-1]))", "fire", "R29.4"),
    V("path evaluated in grid mode", EK, "mode='path', ibands=ibands)", "mode='grid', ibands=ibands)", "fire", "R29.1"),
    V("refined breaks keyed one too far", PT, "                breaks_refined.append(len(K_list_refined) - 1)\n            if i not in self.breaks:", "                breaks_refined.append(len(K_list_refined))\n            if i not in self.breaks:", "fire", "R29.2"),
    V("batches start at 1", PT, "for ik in range(0, len(self.K_list), k_batch):", "for ik in range(1, len(self.K_list), k_batch):", "fire", "R29.5"),
    V("neutral: refined lists renamed", PT, "K_list_refined", "kpts_fine", "silent", replace_all=True),
    V("neutral: labels_refined renamed", PT, "labels_refined", "new_lab", "silent", replace_all=True),
    V("neutral: loop variables renamed in from_nodes", PT, "new_labels", "lab_by_index", "silent", replace_all=True),
    V("neutral: getKline locals renamed", PT, "KPcart", "kcart", "silent", replace_all=True),
    V("neutral: insertion under else of the break test", PT, "            if i not in self.breaks:\n                segment", "            if i in self.breaks:\n                pass\n            else:\n                segment", "silent"),
    V("neutral: segment written with explicit division", PT, "K_list_refined.append(self.K_list[i] + j * segment)", "K_list_refined.append(self.K_list[i] + segment * j)", "silent"),
]
