"""C29 — paths are built and tabulated faithfully (structural clauses).

R29.1 path order is restored from coordinates before run() returns (shared with C12's R12.3); evaluate_k_path goes through run().
R29.2 get_refined keeps every original point, re-keys labels/breaks at the position of the point they belong to, and inserts
      uniformly spaced points K_i + j (K_{i+1} − K_i)/factor.
R29.3 the path coordinate is a cumulative sum of non-negative increments (norms, some zeroed).
R29.4 from_nodes puts each label on its node, samples each segment uniformly excluding the end point, appends the last node.
R29.5 the K-point batches handed to run() tile the path in order; every batch carries its own points.
"""
from __future__ import annotations

import ast
from typing import Dict, List, Optional

from ..algebra import Rat, to_rat
from ..index import AnalysisError, call_name, norm, norm1
from .c12 import check_reorder
from .common import calls, enclosing, fctx, in_body, is_name, method_calls, stmts

LEVEL = "other"
EXPLANATION = (
    "Statement-order and def-use rules on Path.from_nodes / get_refined / getKline / get_K_list and on run(): the label or "
    "break of point i is re-keyed with len(list) − 1 taken after the append of that very point and before any inserted point; "
    "inserted points are compared as exact polynomials with K_i + j (K_{i+1} − K_i)/factor; the path coordinate is a cumsum of "
    "a norm array modified only by stores of 0; batches K_list[ik:ik+k_batch] over range(0, len, k_batch) tile the path; the "
    "coordinate-based re-ordering lies on every path of run() to its return (CFG dominance). Not decided: per-point equality "
    "with single-point evaluation.")

PT = "wannierberri/grid/path.py"
EK = "wannierberri/evaluate_k.py"


def run(ctx) -> None:
    idx = ctx.index
    # ---------------------------------------------------------------- R29.1
    check_reorder(ctx, "R29.1")
    r1 = ctx.rules[-1]
    ek = idx.function(EK, "evaluate_k_path")
    r1.instance(ek.short)
    t = norm(ek.node).replace(" ", "")
    r1.check("result=run(system,grid=path,calculators={'tabulate':tabulator_all},parallel=parallel,**kwargs)" in t and "mode='path'" in t,
             "evaluate_k_path evaluates the path through run() in path mode", ek, ek.node,
             "evaluate_k_path no longer goes through run(grid=path) with a path-mode TabulatorAll (no re-ordering applied)", stmt="run(grid=path)")

    # ---------------------------------------------------------------- R29.2
    r2 = ctx.rule("R29.2", "get_refined keeps original points and their labels/breaks; uniform insertion")
    f = idx.function(PT, "Path.get_refined")
    cfg, du, pm = fctx(f)
    r2.instance(f.short)
    loops = [s for s in f.node.body if isinstance(s, ast.For)]
    if len(loops) != 1:
        raise AnalysisError("get_refined: main loop not found")
    lp = loops[0]
    i = lp.target.id
    body = lp.body
    lst = "K_list_refined"

    def pos(pred) -> List[int]:
        return [k for k, s in enumerate(body) if pred(s)]
    p_app = pos(lambda s: isinstance(s, ast.Expr) and norm(s.value).replace(" ", "") == f"{lst}.append(self.K_list[{i}])")
    p_lab = pos(lambda s: isinstance(s, ast.If) and norm(s.test) == f"{i} in self.labels")
    p_brk = pos(lambda s: isinstance(s, ast.If) and norm(s.test) == f"{i} in self.breaks")
    p_ins = pos(lambda s: any(isinstance(x, ast.For) for x in ast.walk(s)) and f"{lst}.append(" in norm(s))
    r2.check(len(p_app) == 1 and norm(lp.iter).replace(" ", "") in ("range(last_point_index)", "range(len(self.K_list)-1)"),
             "every original point except the last is appended in the loop", f, lp, "get_refined does not append every original point K_list[i]")
    ok_order = bool(p_app and p_lab and p_brk and p_ins) and p_app[0] < p_lab[0] < p_ins[-1] and p_app[0] < p_brk[0] < p_ins[-1]
    r2.check(ok_order, "labels and breaks are re-keyed right after their own point, before inserted points", f, body[p_lab[0]] if p_lab else lp,
             "a label/break index is taken from len(K_list_refined) − 1 when that is not the position of the point it belongs to "
             "(taken before the point is appended, or after interpolated points were inserted): labels drift off their k-points")
    for p in (p_lab + p_brk)[:2]:
        s = body[p]
        tt = norm(s).replace(" ", "")
        r2.check(f"len({lst})-1" in tt, "new key = len(refined) − 1", f, s, f"`{norm1(s)}` does not key the label/break by len({lst}) − 1")
    # inserted points
    ins = [x for x in ast.walk(lp) if isinstance(x, ast.Call) and norm(x.func) == f"{lst}.append" and x.args and "segment" in norm(x.args[0])]
    if len(ins) != 1:
        raise AnalysisError("get_refined: inserted-point expression not found")
    jl = enclosing(pm, ins[0], ast.For)
    seg = du.single_def("segment", du.node_of_expr(ins[0]))

    def env(x):
        if isinstance(x, ast.Subscript) and norm(x.value) == "self.K_list":
            tt = norm(x.slice).replace(" ", "")
            return Rat.sym("K1") if tt == f"{i}+1" else Rat.sym("K0") if tt == i else None
        if isinstance(x, ast.Name):
            if x.id == "segment" and seg is not None:
                return to_rat(seg.value, env)
            return Rat.sym(x.id)
        return None
    got = to_rat(ins[0].args[0], env)
    j = jl.target.id
    want = Rat.sym("K0") + Rat.sym(j) * (Rat.sym("K1") - Rat.sym("K0")) / Rat.sym("factor")
    r2.check(got.equals(want) and norm(jl.iter).replace(" ", "") == "range(1,factor)", "inserted points are K_i + j (K_{i+1} − K_i)/factor, j = 1 … factor−1",
             f, ins[0], f"inserted points `{norm1(ins[0].args[0])}` over `{norm1(jl.iter)}` are not the uniform subdivision of the segment")
    g = enclosing(pm, jl, ast.If)
    r2.check(g is not None and norm(g.test) == f"{i} not in self.breaks", "no points are inserted across a break", f, g or jl,
             "points are interpolated across a break of the path")
    after = f.node.body[f.node.body.index(lp) + 1:]
    ta = " ".join(norm(s) for s in after).replace(" ", "")
    r2.check(f"{lst}.append(self.K_list[-1])" in ta and "iflast_point_indexinself.labels:" in ta and "iflast_point_indexinself.breaks:" in ta,
             "the last point, its label and break are appended after the loop", f, after[0] if after else f.node,
             "the last point of the path (or its label/break) is lost by get_refined", stmt="last point")
    rt = [s for s in stmts(f.node) if isinstance(s, ast.Return)]
    tr = norm(rt[0].value).replace(" ", "") if rt else ""
    r2.check(f"k_list={lst}" in tr and "labels=labels_refined" in tr and "breaks=breaks_refined" in tr, "the refined lists are what is returned", f,
             rt[0] if rt else f.node, "get_refined does not return the refined points/labels/breaks")

    # ---------------------------------------------------------------- R29.3
    r3 = ctx.rule("R29.3", "path coordinate = cumulative sum of non-negative increments")
    gk = idx.function(PT, "Path.getKline")
    r3.instance(gk.short)
    kcfg, kdu, kpm = fctx(gk)
    st = [s for s in stmts(gk.node) if isinstance(s, ast.Assign) and norm(s.targets[0]).replace(" ", "") == "K[1:]"]
    if len(st) != 1:
        raise AnalysisError("getKline: `K[1:] = …` not found")
    r3.check(norm(st[0].value).replace(" ", "") == "np.cumsum(k)", "K[1:] = cumsum(k)", gk, st[0], f"`{norm1(st[0])}` is not the cumulative sum of the increments")
    kd = [s for s in stmts(gk.node) if isinstance(s, ast.Assign) and is_name(s.targets[0], "k")]
    r3.check(len(kd) == 1 and norm(kd[0].value).replace(" ", "") == "np.linalg.norm(KPcart[1:,:]-KPcart[:-1,:],axis=1)", "increments are Cartesian distances between consecutive points",
             gk, kd[0] if kd else gk.node, "the increments are not norms of consecutive differences of the Cartesian k-points")
    mods = [s for s in stmts(gk.node) if isinstance(s, (ast.Assign, ast.AugAssign)) and isinstance((s.targets[0] if isinstance(s, ast.Assign) else s.target), ast.Subscript)
            and norm((s.targets[0] if isinstance(s, ast.Assign) else s.target).value) == "k"]
    r3.check(all(isinstance(s, ast.Assign) and norm(s.value) in ("0.0", "0") for s in mods), "increments are only ever overwritten with 0", gk, mods[0] if mods else gk.node,
             "an increment of the path coordinate is modified by something other than a store of 0: the coordinate can decrease")
    r3.check("K = np.zeros(KPcart.shape[0])" in norm(gk.node) and "KPcart = self.K_list.dot(self.recip_lattice)" in norm(gk.node), "K starts at 0; distances are Cartesian",
             gk, gk.node, "getKline no longer starts at 0 / uses Cartesian coordinates", stmt="K0")

    # ---------------------------------------------------------------- R29.4
    r4 = ctx.rule("R29.4", "from_nodes: labels on nodes, uniform segments, last node appended")
    fn = idx.function(PT, "Path.from_nodes")
    r4.instance(fn.short)
    ncfg, ndu, npm = fctx(fn)
    lp = [s for s in stmts(fn.node) if isinstance(s, ast.For) and "zip(nodes, nodes[1:], labels, labels[1:])" in norm(s.iter)]
    if len(lp) != 1:
        raise AnalysisError("from_nodes: segment loop not found")
    seg_if = [s for s in lp[0].body if isinstance(s, ast.If)]
    arm = seg_if[0].body
    p_lab = [k for k, s in enumerate(arm) if norm(s).replace(" ", "") == "new_labels[K_list.shape[0]]=l1"]
    p_stk = [k for k, s in enumerate(arm) if isinstance(s, ast.Assign) and is_name(s.targets[0], "K_list") and "np.vstack" in norm(s.value)]
    r4.check(bool(p_lab and p_stk) and p_lab[0] < p_stk[0], "the start label is keyed by the index the node is about to get", fn, arm[p_lab[0]] if p_lab else lp[0],
             "the label of a segment's start node is stored after the segment was stacked: it lands on the wrong k-point")
    stk = arm[p_stk[0]] if p_stk else None
    ts = norm(stk.value).replace(" ", "") if stk is not None else ""
    r4.check("start[None,:]+np.linspace(0,1.0,_nk-1,endpoint=False)[:,None]*(end-start)[None,:]" in ts, "segment sampling: start + t (end − start), t uniform in [0, 1)",
             fn, stk or lp[0], "a segment is no longer sampled as start + linspace(0, 1, _nk − 1, endpoint=False)·(end − start)")
    after = fn.node.body[fn.node.body.index(lp[0]) + 1:]
    ta = " ".join(norm(s) for s in after).replace(" ", "")
    r4.check("K_list=np.vstack((K_list,nodes[-1]))" in ta and "new_labels[K_list.shape[0]-1]=labels[-1]" in ta and
             ta.index("K_list=np.vstack((K_list,nodes[-1]))") < ta.index("new_labels[K_list.shape[0]-1]=labels[-1]"),
             "the last node is appended and labelled at its own index", fn, after[0] if after else fn.node,
             "the last node / its label is not appended at the end of the path")
    r4.check("self.K_list=K_list" in ta and "self.labels=new_labels" in ta and "self.breaks=breaks" in ta, "the constructed lists are stored", fn, fn.node,
             "from_nodes does not store the constructed K_list/labels/breaks", stmt="stores")
    brk = [s for s in ast.walk(lp[0]) if isinstance(s, ast.Expr) and norm(s.value).replace(" ", "") == "breaks.append(K_list.shape[0]-1)"]
    r4.check(len(brk) == 1, "a break is recorded at the node that ends a piece", fn, brk[0] if brk else lp[0], "breaks are not recorded at the end node of a piece")

    # ---------------------------------------------------------------- R29.5
    r5 = ctx.rule("R29.5", "K-point batches tile the path in order")
    gl = idx.function(PT, "Path.get_K_list")
    r5.instance(gl.short)
    tg = norm(gl.node).replace(" ", "")
    r5.check("forikinrange(0,len(self.K_list),k_batch):" in tg and "K=self.K_list[ik:ik+k_batch]" in tg and "K_list.append(KpointBZpath(K=K,pointgroup=self.pointgroup))" in tg,
             "batches K_list[ik:ik+k_batch], ik = 0, k_batch, … cover every path point once, in order", gl, gl.node,
             "the batches handed to run() do not tile the path (points skipped or duplicated)", stmt="batches")
    kp = idx.cls("wannierberri/grid/Kpoint.py", "KpointBZpath")
    r5.check("K=np.copy(K).reshape(-1, 3)" in norm(kp.methods["__init__"].node), "a path K-point stores exactly its batch of k-vectors", kp.methods["__init__"], kp.methods["__init__"].node,
             "KpointBZpath no longer stores its batch of k-vectors unchanged", stmt="KpointBZpath")
    dk = idx.function("wannierberri/data_K/data_K.py", "Data_K.__init__")
    r5.check("if isinstance(Kpoint, KpointBZpath):\n        k_list = Kpoint.K" in norm(dk.node).replace("            ", "        ") or "k_list = Kpoint.K" in norm(dk.node),
             "a path K-point is evaluated at its own k-list", dk, dk.node, "Data_K no longer takes k_list from the path K-point", stmt="k_list = Kpoint.K")


from ..selftest import V  # noqa: E402

SELFTEST = [
    V("labels re-keyed before the point is appended", PT,
      "            K_list_refined.append(self.K_list[i])\n            if i in self.labels:\n                labels_refined[len(K_list_refined) - 1] = self.labels[i]",
      "            if i in self.labels:\n                labels_refined[len(K_list_refined) - 1] = self.labels[i]\n            K_list_refined.append(self.K_list[i])", "fire", "R29.2"),
    V("refinement inserts points at j/(factor+1)", PT, "segment = (self.K_list[i + 1] - self.K_list[i]) / factor", "segment = (self.K_list[i + 1] - self.K_list[i]) / (factor + 1)",
      "fire", "R29.2"),
    V("last label dropped on refinement", PT, "        if last_point_index in self.labels:\n            labels_refined[len(K_list_refined) - 1] = self.labels[last_point_index]\n", "", "fire", "R29.2"),
    V("break increments kept (negative jump possible)", PT, "            k[self.breaks] = 0.0", "            k[self.breaks] = -k[self.breaks]", "fire", "R29.3"),
    V("segment sampled including its end point", PT, "np.linspace(0, 1., _nk - 1, endpoint=False)", "np.linspace(0, 1., _nk - 1, endpoint=True)", "fire", "R29.4"),
    V("start label stored after stacking", PT,
      "                new_labels[K_list.shape[0]] = l1\n                start = np.array(start)\n                end = np.array(end)\n                assert start.shape == end.shape == (3, )",
      "                start = np.array(start)\n                end = np.array(end)\n                assert start.shape == end.shape == (3, )", "fire", "R29.4"),
    V("batches overlap by one point", PT, "K = self.K_list[ik:ik + k_batch]", "K = self.K_list[ik:ik + k_batch + 1]", "fire", "R29.5"),
    V("path re-ordering dropped in run()", "wannierberri/run_grid.py", "                val.self_to_path(path=grid)", "                pass", "fire", "R29.1"),
    V("neutral: segment written with explicit division", PT, "K_list_refined.append(self.K_list[i] + j * segment)", "K_list_refined.append(self.K_list[i] + segment * j)", "silent"),
]
