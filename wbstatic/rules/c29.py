"""C29 — paths are built and tabulated faithfully (structural clauses).

R29.1 path order is restored from coordinates before run() returns (shared with C12's R12.3); evaluate_k_path goes through run().
R29.2 get_refined keeps every original point, re-keys labels/breaks at the position of the point they belong to, and inserts
      uniformly spaced points K_i + j (K_{i+1} − K_i)/factor.
R29.3 the path coordinate is a cumulative sum of non-negative increments (norms, some zeroed).
R29.4 from_nodes puts each label on its node, samples each segment uniformly excluding the end point, appends the last node.
R29.5 the K-point batches handed to run() tile the path in order; every batch carries its own points.
"""
from __future__ import annotations

import ast
from typing import Dict, List, Optional

from ..algebra import Rat, to_rat
from ..index import AnalysisError, call_name, norm, norm1
from ..sem import Sem
from .c12 import check_reorder
from .common import Frag, calls, const_of, enclosing, fctx, in_body, is_name, kwarg, method_calls, pmatch, stmts

LEVEL = "other"
EXPLANATION = (
    "Statement-order and def-use rules on Path.from_nodes / get_refined / getKline / get_K_list and on run(): the label or "
    "break of point i is re-keyed with len(list) − 1 taken after the append of that very point and before any inserted point; "
    "inserted points are compared as exact polynomials with K_i + j (K_{i+1} − K_i)/factor; the path coordinate is a cumsum of "
    "a norm array modified only by stores of 0; batches K_list[ik:ik+k_batch] over range(0, len, k_batch) tile the path; the "
    "coordinate-based re-ordering lies on every path of run() to its return (CFG dominance). Not decided: per-point equality "
    "with single-point evaluation.")

PT = "wannierberri/grid/path.py"
EK = "wannierberri/evaluate_k.py"


def run(ctx) -> None:
    idx = ctx.index
    # ---------------------------------------------------------------- R29.1
    check_reorder(ctx, "R29.1")
    r1 = ctx.rules[-1]
    ek = idx.function(EK, "evaluate_k_path")
    r1.instance(ek.short)
    ecfg, edu, epm = fctx(ek)
    rc = [c for c in calls(ek.node, "run") if call_name(c) == "run"]
    if len(rc) != 1:
        r1.expect(False, "run() call located", ek, ek.node, "evaluate_k_path: the single call of run() was not found")
    else:
        c = rc[0]
        g = kwarg(c, "grid", 1)
        cal = kwarg(c, "calculators", 2)
        okg = g is not None and isinstance(edu.resolve_local(g, edu.node_of_expr(c)), ast.Name) and edu.resolve_local(g, edu.node_of_expr(c)).id == "path"
        tab_ok = False
        if isinstance(cal, ast.Dict):
            for v in cal.values:
                vv = edu.resolve_local(v, edu.node_of_expr(c))
                if isinstance(vv, ast.Call) and call_name(vv).endswith("TabulatorAll") and const_of(kwarg(vv, "mode"), "grid") == "path":
                    tab_ok = True
        r1.check(okg and tab_ok, "evaluate_k_path evaluates the path through run(grid=path) with a path-mode TabulatorAll", ek, c,
                 f"`{norm1(c, 100)}`: evaluate_k_path no longer goes through run(grid=path) with a TabulatorAll in mode='path' (no re-ordering of the "
                 f"asynchronously gathered batches is applied)")

    # ---------------------------------------------------------------- R29.2
    r2 = ctx.rule("R29.2", "get_refined keeps original points and their labels/breaks; uniform insertion")
    f = idx.function(PT, "Path.get_refined")
    cfg, du, pm = fctx(f)
    r2.instance(f.short)
    rt = [s_ for s_ in stmts(f.node) if isinstance(s_, ast.Return) and isinstance(s_.value, ast.Call)]
    loops = [s_ for s_ in f.node.body if isinstance(s_, ast.For)]
    if len(loops) != 1 or len(rt) != 1 or not isinstance(loops[0].target, ast.Name):
        r2.expect(False, "main loop and return located", f, f.node, "get_refined: one top-level loop and one `return Path(…)` expected")
        return
    lp = loops[0]
    i = lp.target.id
    body = lp.body
    kws = {k.arg: norm(k.value) for k in rt[0].value.keywords}
    lst, labs, brks = kws.get("k_list"), kws.get("labels"), kws.get("breaks")
    r2.expect(all(x is not None and x.isidentifier() for x in (lst, labs, brks)), "returned lists are local names", f, rt[0],
              "get_refined: `return Path(k_list=…, labels=…, breaks=…)` with local lists expected")
    if not all(x is not None and x.isidentifier() for x in (lst, labs, brks)):
        return
    for nm, empty in ((lst, ("[]", "list()")), (labs, ("{}", "dict()")), (brks, ("[]", "list()"))):
        d0 = [d for ds in du.defs_at.values() for d in ds if d.name == nm]
        r2.check(len(d0) == 1 and d0[0].value is not None and norm(d0[0].value) in empty, f"`{nm}` starts empty and is never rebound", f, d0[0].stmt if d0 else f.node,
                 f"`{nm}` is rebound / does not start empty in get_refined: previously collected points, labels or breaks are lost")
    lpi = du.resolve_local(lp.iter.args[0], cfg.node(lp)) if isinstance(lp.iter, ast.Call) and call_name(lp.iter) == "range" and len(lp.iter.args) == 1 else None
    n_last = norm(lpi).replace(" ", "") if lpi is not None else None
    last_names = {norm(lp.iter.args[0])} if lpi is not None else set()

    def pos(pred) -> List[int]:
        return [k for k, s_ in enumerate(body) if pred(s_)]
    p_app = pos(lambda s_: isinstance(s_, ast.Expr) and norm(s_.value).replace(" ", "") == f"{lst}.append(self.K_list[{i}])")
    p_lab = pos(lambda s_: isinstance(s_, ast.If) and norm(s_.test) == f"{i} in self.labels")
    p_brk = pos(lambda s_: isinstance(s_, ast.If) and norm(s_.test) == f"{i} in self.breaks")
    p_ins = pos(lambda s_: any(isinstance(x, ast.For) for x in ast.walk(s_)) and f"{lst}.append(" in norm(s_))
    r2.check(len(p_app) == 1 and n_last == "len(self.K_list)-1",
             "every original point except the last is appended in the loop", f, lp, "get_refined does not append every original point K_list[i], i < len − 1")
    ok_order = bool(p_app and p_lab and p_brk and p_ins) and p_app[0] < p_lab[0] < p_ins[-1] and p_app[0] < p_brk[0] < p_ins[-1]
    r2.check(ok_order, "labels and breaks are re-keyed right after their own point, before inserted points", f, body[p_lab[0]] if p_lab else lp,
             "a label/break index is taken from len(refined) − 1 when that is not the position of the point it belongs to "
             "(taken before the point is appended, or after interpolated points were inserted): labels drift off their k-points")
    for p_, kind in [(x, "label") for x in p_lab[:1]] + [(x, "break") for x in p_brk[:1]]:
        s_ = body[p_]
        want = f"{labs}[len({lst}) - 1] = self.labels[{i}]" if kind == "label" else f"{brks}.append(len({lst}) - 1)"
        r2.check(len(s_.body) == 1 and not s_.orelse and bool(pmatch(s_.body[0], want)) , f"{kind}: new key = len(refined) − 1, value = the point's own {kind}", f, s_,
                 f"`{norm1(s_)}` does not re-key the {kind} of point {i} by len({lst}) − 1")
    # inserted points
    ins = [x for x in ast.walk(lp) if isinstance(x, ast.Call) and norm(x.func) == f"{lst}.append" and x.args and enclosing(pm, x, ast.For) is not lp]
    if len(ins) != 1:
        r2.expect(False, "inserted-point expression located", f, lp, "get_refined: the append of interpolated points inside an inner loop was not found")
        return
    jl = enclosing(pm, ins[0], ast.For)
    at_ins = du.node_of_expr(ins[0])

    def env(x):
        if isinstance(x, ast.Subscript) and norm(x.value) == "self.K_list":
            tt = norm(x.slice).replace(" ", "")
            return Rat.sym("K1") if tt in (f"{i}+1", f"1+{i}") else Rat.sym("K0") if tt == i else None
        if isinstance(x, ast.Name):
            dd = du.single_def(x.id, at_ins)
            if dd is not None and dd.kind == "assign" and x.id not in (i, "factor"):
                return to_rat(dd.value, env)
            return Rat.sym(x.id)
        return None
    got = to_rat(ins[0].args[0], env)
    j = jl.target.id
    want = Rat.sym("K0") + Rat.sym(j) * (Rat.sym("K1") - Rat.sym("K0")) / Rat.sym("factor")
    r2.check(got.equals(want) and norm(jl.iter).replace(" ", "") == "range(1,factor)", "inserted points are K_i + j (K_{i+1} − K_i)/factor, j = 1 … factor−1",
             f, ins[0], f"inserted points `{norm1(ins[0].args[0])}` over `{norm1(jl.iter)}` are not the uniform subdivision of the segment")
    g = enclosing(pm, jl, ast.If)
    okb = g is not None and ((norm(g.test) == f"{i} not in self.breaks" and in_body(g.body, jl)) or (norm(g.test) == f"{i} in self.breaks" and in_body(g.orelse, jl)))
    r2.check(okb, "no points are inserted across a break", f, g or jl, "points are interpolated across a break of the path")
    after = f.node.body[f.node.body.index(lp) + 1:]
    lastn = "|".join(sorted(last_names | {"len(self.K_list) - 1"}))
    A = ast.Module(body=after, type_ignores=[])

    def after_has(pat_variants) -> bool:
        return any(pmatch(A, p_) for p_ in pat_variants)
    lasts = sorted(last_names | {"len(self.K_list) - 1"})
    ok_last = after_has([f"{lst}.append(self.K_list[-1])"] + [f"{lst}.append(self.K_list[{x}])" for x in lasts]) and \
        after_has([f"if {x} in self.labels:\n    {labs}[len({lst}) - 1] = self.labels[{x}]" for x in lasts]) and \
        after_has([f"if {x} in self.breaks:\n    {brks}.append(len({lst}) - 1)" for x in lasts])
    r2.check(ok_last, "the last point, its label and break are appended after the loop", f, after[0] if after else f.node,
             "the last point of the path (or its label/break) is lost by get_refined", stmt="last point")
    if ok_last:
        ia = [k for k, s_ in enumerate(after) if any(pmatch(s_, p_) for p_ in [f"{lst}.append(self.K_list[-1])"] + [f"{lst}.append(self.K_list[{x}])" for x in lasts])]
        il = [k for k, s_ in enumerate(after) if isinstance(s_, ast.If) and "self.labels" in norm(s_.test)]
        r2.check(bool(ia and il) and ia[0] < il[0], "… in that order (point first, then its label)", f, after[il[0]] if il else f.node,
                 "the last label is keyed before the last point is appended: it lands on the previous point")

    # ---------------------------------------------------------------- R29.3
    r3 = ctx.rule("R29.3", "path coordinate = cumulative sum of non-negative increments")
    gk = idx.function(PT, "Path.getKline")
    r3.instance(gk.short)
    kcfg, kdu, kpm = fctx(gk)
    G = Frag(gk)
    cs = G.find("K[1:] = np.cumsum(k)")
    anycs = [s_ for s_ in stmts(gk.node) if isinstance(s_, ast.Assign) and any(call_name(c_).endswith("cumsum") for c_ in ast.walk(s_.value) if isinstance(c_, ast.Call))]
    if not cs and not anycs:
        r3.expect(False, "cumsum located", gk, gk.node, "getKline: no cumulative sum found")
        return
    r3.check(len(cs) == 1, "K[1:] = cumsum(k)", gk, (cs or [(anycs[0], {})])[0][0], f"`{norm1(anycs[0]) if anycs else ''}` is not K[1:] = cumsum(increments)")
    if not cs:
        return
    kname, Kname = cs[0][1]["k"], cs[0][1]["K"]
    kd = [d for ds in kdu.defs_at.values() for d in ds if d.name == kname]
    cart = G.find(f"{kname} = np.linalg.norm(KPcart[1:, :] - KPcart[:-1, :], axis=1)") or G.find(f"{kname} = np.linalg.norm(KPcart[1:] - KPcart[:-1], axis=1)") \
        or G.find(f"{kname} = np.linalg.norm(np.diff(KPcart, axis=0), axis=1)")
    r3.check(len(kd) == 1 and bool(cart), "increments are Cartesian distances between consecutive points",
             gk, kd[0].stmt if kd else gk.node, "the increments are not norms of consecutive differences of the Cartesian k-points")
    mods = [s_ for s_ in stmts(gk.node) if isinstance(s_, (ast.Assign, ast.AugAssign)) and isinstance((s_.targets[0] if isinstance(s_, ast.Assign) else s_.target), ast.Subscript)
            and norm((s_.targets[0] if isinstance(s_, ast.Assign) else s_.target).value) == kname]
    r3.check(all(isinstance(s_, ast.Assign) and const_of(s_.value) == 0 for s_ in mods), "increments are only ever overwritten with 0", gk, mods[0] if mods else gk.node,
             "an increment of the path coordinate is modified by something other than a store of 0: the coordinate can decrease")
    r3.check(bool(G.find("KPcart = self.K_list.dot(self.recip_lattice)") or G.find("KPcart = self.K_list @ self.recip_lattice") or G.find("KPcart = self.get_kpoints_cart()"))
             and bool(G.find(f"{Kname} = np.zeros(KPcart.shape[0])") or G.find(f"{Kname} = np.zeros(len(KPcart))") or G.find(f"{Kname} = np.zeros(len(self.K_list))")),
             "K starts at 0; distances are Cartesian", gk, gk.node, "getKline no longer starts at 0 / uses Cartesian coordinates", stmt="K0")
    retk = [s_ for s_ in stmts(gk.node) if isinstance(s_, ast.Return)]
    r3.check(len(retk) == 1 and norm(retk[0].value) == Kname, "the cumulative coordinate is what is returned", gk, retk[0] if retk else gk.node,
             "getKline does not return the cumulative coordinate")

    # ---------------------------------------------------------------- R29.4
    r4 = ctx.rule("R29.4", "from_nodes: labels on nodes, uniform segments, last node appended")
    fn = idx.function(PT, "Path.from_nodes")
    r4.instance(fn.short)
    ncfg, ndu, npm = fctx(fn)
    N = Frag(fn)
    lpm = N.find("for start, end, l1, l2 in zip(nodes, nodes[1:], labels, labels[1:]):\n    ...")
    if len(lpm) != 1:
        r4.expect(False, "segment loop located", fn, fn.node, "from_nodes: `for start, end, l1, l2 in zip(nodes, nodes[1:], labels, labels[1:])` not found")
        return
    lp4, b4 = lpm[0]
    st_, en_, l1_ = b4["start"], b4["end"], b4["l1"]
    seg_if = [s_ for s_ in lp4.body if isinstance(s_, ast.If) and norm(s_.test) in (f"{st_} is not None and {en_} is not None", f"{en_} is not None and {st_} is not None")]
    if len(seg_if) != 1:
        r4.expect(False, "segment branch located", fn, lp4, "from_nodes: the `start is not None and end is not None` branch was not found")
        return
    arm = seg_if[0].body
    stk_m = [(k, s_) for k, s_ in enumerate(arm) if isinstance(s_, ast.Assign) and isinstance(s_.targets[0], ast.Name)
             and any(call_name(c_) in ("np.vstack", "np.concatenate", "np.append") for c_ in ast.walk(s_.value) if isinstance(c_, ast.Call))]
    if len(stk_m) != 1:
        r4.expect(False, "stacking of the segment located", fn, seg_if[0], "from_nodes: the statement that stacks the sampled segment onto K_list was not found")
        return
    kl = stk_m[0][1].targets[0].id
    nlab = None
    p_lab = []
    for k, s_ in enumerate(arm):
        m_ = pmatch(s_, f"NL[{kl}.shape[0]] = {l1_}", {"NL"}) or pmatch(s_, f"NL[len({kl})] = {l1_}", {"NL"})
        if m_ and m_[0][0] is s_:
            p_lab.append(k)
            nlab = m_[0][1]["NL"]
    r4.check(bool(p_lab) and p_lab[0] < stk_m[0][0], "the start label is keyed by the index the node is about to get", fn, arm[p_lab[0]] if p_lab else seg_if[0],
             "the label of a segment's start node is not stored (under the current length of K_list) before the segment is stacked: it lands on the wrong k-point")
    stk = stk_m[0][1]
    samp = pmatch(stk.value, f"np.vstack(({kl}, S0[None, :] + np.linspace(0, 1.0, NK - 1, endpoint=False)[:, None] * (E0 - S0)[None, :]))", {"S0", "E0", "NK"})
    r4.check(bool(samp) and samp[0][0] is stk.value, "segment sampling: start + t (end − start), t uniform in [0, 1)",
             fn, stk, "a segment is no longer sampled as start + linspace(0, 1, _nk − 1, endpoint=False)·(end − start) and stacked below K_list")
    if samp:
        sd = ndu.reaching(samp[0][1]["S0"], ncfg.node(stk))
        ed = ndu.reaching(samp[0][1]["E0"], ncfg.node(stk))
        r4.check(all(d.value is not None and norm(d.value) in (f"np.array({st_})", f"np.asarray({st_})") or d.kind == "for" for d in sd) and
                 all(d.value is not None and norm(d.value) in (f"np.array({en_})", f"np.asarray({en_})") or d.kind == "for" for d in ed),
                 "the sampled segment runs from this segment's start node to its end node", fn, stk, "the sampled segment does not run from the start node to the end node")
    after = fn.node.body[fn.node.body.index(lp4) + 1:] if lp4 in fn.node.body else []
    A = ast.Module(body=after, type_ignores=[])
    i_st = [k for k, s_ in enumerate(after) if pmatch(s_, f"{kl} = np.vstack(({kl}, nodes[-1]))") or pmatch(s_, f"{kl} = np.vstack(({kl}, [nodes[-1]]))")]
    i_lb = [k for k, s_ in enumerate(after) if nlab and (pmatch(s_, f"{nlab}[{kl}.shape[0] - 1] = labels[-1]") or pmatch(s_, f"{nlab}[len({kl}) - 1] = labels[-1]"))]
    r4.check(bool(i_st and i_lb) and i_st[0] < i_lb[0],
             "the last node is appended and labelled at its own index", fn, after[0] if after else fn.node,
             "the last node / its label is not appended at the end of the path (label keyed by shape[0] − 1 after the node is stacked)")
    brk = [s_ for s_ in ast.walk(lp4) if isinstance(s_, ast.Expr) and (pmatch(s_, f"BR.append({kl}.shape[0] - 1)", {"BR"}) or pmatch(s_, f"BR.append(len({kl}) - 1)", {"BR"}))]
    r4.check(len(brk) == 1, "a break is recorded at the node that ends a piece", fn, brk[0] if brk else lp4, "breaks are not recorded at the end node of a piece")
    bname = pmatch(brk[0], "BR.append(ANY)", {"BR"})[0][1]["BR"] if brk else None
    if brk:
        barm = enclosing(npm, brk[0], ast.If)
        stack_one = [k for k, s_ in enumerate(barm.body if barm else []) if pmatch(s_, f"{kl} = np.vstack(({kl}, [{st_}]))") or pmatch(s_, f"{kl} = np.vstack(({kl}, {st_}))")]
        ib = [k for k, s_ in enumerate(barm.body if barm else []) if s_ is brk[0]]
        r4.check(barm is not None and bool(stack_one and ib) and stack_one[0] < ib[0], "… after the end node of the piece has been stacked", fn, brk[0],
                 "the break index is taken before the last node of the piece is stacked: the break points at the previous k-point")
    stores = {norm(s_.targets[0]): norm(s_.value) for s_ in after if isinstance(s_, ast.Assign) and isinstance(s_.targets[0], ast.Attribute)}
    r4.check(stores.get("self.K_list") == kl and stores.get("self.labels") == nlab and stores.get("self.breaks") == bname, "the constructed lists are stored", fn, fn.node,
             f"from_nodes does not store the constructed K_list/labels/breaks (stores: {stores})", stmt="stores")

    # ---------------------------------------------------------------- R29.5
    r5 = ctx.rule("R29.5", "K-point batches tile the path in order")
    gl = idx.function(PT, "Path.get_K_list")
    r5.instance(gl.short)
    L = Frag(gl)
    kb = "k_batch"
    cand = [s_ for s_ in stmts(gl.node) if isinstance(s_, ast.For) and isinstance(s_.target, ast.Name) and isinstance(s_.iter, ast.Call) and call_name(s_.iter) == "range"
            and any(isinstance(n, ast.Subscript) and norm(n.value) == "self.K_list" for n in ast.walk(s_))]
    if len(cand) != 1:
        r5.expect(False, "batch loop located", gl, gl.node, "get_K_list: the loop that cuts self.K_list into batches was not found")
    else:
        lp5 = cand[0]
        ik = lp5.target.id
        ra = [norm(x).replace(" ", "") for x in lp5.iter.args]
        r5.check(len(ra) == 3 and ra[0] == "0" and ra[1] in ("len(self.K_list)", "self.K_list.shape[0]") and ra[2] == kb,
                 "batch starts: 0, k_batch, 2·k_batch, … < len(K_list)", gl, lp5,
                 f"`{norm1(lp5.iter)}`: the batch starts are not range(0, len(self.K_list), k_batch): path points are skipped or evaluated twice")
        sl = [n for n in ast.walk(lp5) if isinstance(n, ast.Subscript) and norm(n.value) == "self.K_list" and isinstance(n.slice, ast.Slice)]
        oks = len(sl) == 1 and norm(sl[0].slice.lower or ast.Constant(0)) == ik and sl[0].slice.step is None and sl[0].slice.upper is not None \
            and norm(sl[0].slice.upper).replace(" ", "") in (f"{ik}+{kb}", f"{kb}+{ik}")
        r5.check(oks, "batch = K_list[ik : ik + k_batch]", gl, sl[0] if sl else lp5,
                 f"`{norm1(sl[0]) if sl else ''}`: the batches handed to run() do not tile the path (points skipped or duplicated)")
        ctor = [c for c in ast.walk(lp5) if isinstance(c, ast.Call) and call_name(c) == "KpointBZpath"]
        okc = False
        if len(ctor) == 1 and sl:
            kv = kwarg(ctor[0], "K", 0)
            kv = fctx(gl)[1].resolve_local(kv, fctx(gl)[1].node_of_expr(ctor[0])) if kv is not None else None
            ap = fctx(gl)[2].get(ctor[0])
            okc = kv is sl[0] and isinstance(fctx(gl)[2].get(ctor[0]), ast.Call) and fctx(gl)[2][ctor[0]].func.attr == "append"
            ret = [s_ for s_ in stmts(gl.node) if isinstance(s_, ast.Return)]
            okc = okc and len(ret) == 1 and norm(ret[0].value) == norm(fctx(gl)[2][ctor[0]].func.value)
        r5.check(okc, "every batch becomes one KpointBZpath appended, in order, to the returned list", gl, ctor[0] if ctor else lp5,
                 "a batch is not wrapped into its own KpointBZpath and appended to the returned list")
    kp = idx.cls("wannierberri/grid/Kpoint.py", "KpointBZpath")
    ini = kp.methods["__init__"]
    sup = [c for c in ast.walk(ini.node) if isinstance(c, ast.Call) and norm(c.func) == "super().__init__"]
    kpn = ini.params[1] if len(ini.params) > 1 else "K"
    if len(sup) != 1:
        r5.expect(False, "KpointBZpath constructor chains to the base", ini, ini.node, "KpointBZpath.__init__: super().__init__(K=…) not found")
    else:
        kv = kwarg(sup[0], "K", 0)
        kv = fctx(ini)[1].resolve_local(kv, fctx(ini)[1].node_of_expr(sup[0])) if kv is not None else None
        forms = (f"np.copy({kpn}).reshape(-1, 3)", f"np.array({kpn}).reshape(-1, 3)", f"np.copy({kpn}).reshape((-1, 3))", f"np.array({kpn}, dtype=float).reshape(-1, 3)",
                 f"np.copy({kpn})", f"np.array({kpn})", kpn)
        r5.check(kv is not None and norm(kv) in forms, "a path K-point stores exactly its batch of k-vectors", ini, sup[0],
                 f"KpointBZpath stores `{norm1(kv) if kv is not None else None}` instead of its batch of k-vectors (as rows of 3)")
    dk = idx.function("wannierberri/data_K/data_K.py", "Data_K.__init__")
    kpar = "Kpoint"
    DS = Sem(idx, dk)
    got = False
    for ds_ in DS.du.defs_at.values():
        for d_ in ds_:
            if d_.value is not None and norm(d_.value) == f"{kpar}.K" and d_.kind == "assign":
                conds = [t_ for t_, p_, _ in DS.conditions(d_.stmt, resolve=False) if p_]
                under = any(f"isinstance({kpar}, KpointBZpath)" in t_ for t_ in conds)
                stores = [s_ for s_ in stmts(dk.node) if isinstance(s_, ast.Assign) and norm(s_.targets[0]) == "self.k_list" and norm(s_.value) == d_.name]
                got = got or (under and bool(stores))
    r5.check(bool(got), "a path K-point is evaluated at its own k-list", dk, dk.node, "Data_K no longer takes k_list from the path K-point", stmt="k_list = Kpoint.K")


from ..selftest import V  # noqa: E402

SELFTEST = [
    V("labels re-keyed before the point is appended", PT,
      "            K_list_refined.append(self.K_list[i])\n            if i in self.labels:\n                labels_refined[len(K_list_refined) - 1] = self.labels[i]",
      "            if i in self.labels:\n                labels_refined[len(K_list_refined) - 1] = self.labels[i]\n            K_list_refined.append(self.K_list[i])", "fire", "R29.2"),
    V("refinement inserts points at j/(factor+1)", PT, "segment = (self.K_list[i + 1] - self.K_list[i]) / factor", "segment = (self.K_list[i + 1] - self.K_list[i]) / (factor + 1)",
      "fire", "R29.2"),
    V("last label dropped on refinement", PT, "        if last_point_index in self.labels:\n            labels_refined[len(K_list_refined) - 1] = self.labels[last_point_index]\n", "", "fire", "R29.2"),
    V("break increments kept (negative jump possible)", PT, "            k[self.breaks] = 0.0", "            k[self.breaks] = -k[self.breaks]", "fire", "R29.3"),
    V("segment sampled including its end point", PT, "np.linspace(0, 1., _nk - 1, endpoint=False)", "np.linspace(0, 1., _nk - 1, endpoint=True)", "fire", "R29.4"),
    V("start label stored after stacking", PT,
      "                new_labels[K_list.shape[0]] = l1\n                start = np.array(start)\n                end = np.array(end)\n                assert start.shape == end.shape == (3, )",
      "                start = np.array(start)\n                end = np.array(end)\n                assert start.shape == end.shape == (3, )", "fire", "R29.4"),
    V("batches overlap by one point", PT, "K = self.K_list[ik:ik + k_batch]", "K = self.K_list[ik:ik + k_batch + 1]", "fire", "R29.5"),
    V("path re-ordering dropped in run()", "wannierberri/run_grid.py", "                val.self_to_path(path=grid)", "                pass", "fire", "R29.1"),
    V("break recorded before the end node is stacked", PT, "                K_list = np.vstack((K_list, [start]))\n                breaks.append(K_list.shape[0] - 1)",
      "                breaks.append(K_list.shape[0] - 1)\n                K_list = np.vstack((K_list, [start]))", "fire", "R29.4"),
    V("last label keyed before the last node is stacked", PT, "        K_list = np.vstack((K_list, nodes[-1]))\n        new_labels[K_list.shape[0] - 1] = labels[-1]",
      "        new_labels[K_list.shape[0] - 1] = labels[-1]\n        K_list = np.vstack((K_list, nodes[-1]))", "fire", "R29.4"),
    V("path evaluated in grid mode", EK, "mode='path', ibands=ibands)", "mode='grid', ibands=ibands)", "fire", "R29.1"),
    V("refined breaks keyed one too far", PT, "                breaks_refined.append(len(K_list_refined) - 1)\n            if i not in self.breaks:", "                breaks_refined.append(len(K_list_refined))\n            if i not in self.breaks:", "fire", "R29.2"),
    V("batches start at 1", PT, "for ik in range(0, len(self.K_list), k_batch):", "for ik in range(1, len(self.K_list), k_batch):", "fire", "R29.5"),
    V("neutral: refined lists renamed", PT, "K_list_refined", "kpts_fine", "silent", replace_all=True),
    V("neutral: labels_refined renamed", PT, "labels_refined", "new_lab", "silent", replace_all=True),
    V("neutral: loop variables renamed in from_nodes", PT, "new_labels", "lab_by_index", "silent", replace_all=True),
    V("neutral: getKline locals renamed", PT, "KPcart", "kcart", "silent", replace_all=True),
    V("neutral: insertion under else of the break test", PT, "            if i not in self.breaks:\n                segment", "            if i in self.breaks:\n                pass\n            else:\n                segment", "silent"),
    V("neutral: segment written with explicit division", PT, "K_list_refined.append(self.K_list[i] + j * segment)", "K_list_refined.append(self.K_list[i] + segment * j)", "silent"),
]
