"""C14 — tetrahedron weights equal the exact linear-tetrahedron volume fractions (algebraic proof obligations).

R14.1 weights_tetra is symmetric in its corner arguments by construction (they are only used inside one sort).
R14.2 accurate branch ≡ textbook linear-tetrahedron fraction in each of the three inner regions.
R14.3 polynomial branch ≡ accurate branch (12 coefficient identities, as 3 rational identities).
R14.4 derivative ladders are the formal 1st/2nd/3rd ε-derivatives of the der=0 polynomial; zero outside [e1, e4).
R14.5 C0 and C1 continuity at the region borders; fraction is 0 at e1 and 1 at e4.
R14.6 all five region ladders use the same guards in the same order.
R14.7 parallelepiped: 12 tetrahedra (centre + the two triangles of each of the 6 faces), divided by 12.
R14.8 group weights: mean over the group; sea / anti-sea completion blocks are disjoint from the in-range groups;
      cached weights are keyed exactly by the Fermi-level array.
"""
from __future__ import annotations

import ast
from fractions import Fraction
from typing import Dict, List, Optional, Tuple

from ..algebra import Poly, Rat, to_rat
from ..index import AnalysisError, call_name, norm, norm1, names_in
from ..sem import Sem
from .common import calls, const_of, enclosing, enclosing_all, fctx, in_body, is_name, kwarg, method_calls, pmatch, stmts

LEVEL = "proof"
EXPLANATION = (
    "weights_tetra is straight-line arithmetic over the sorted corner energies e1..e4 and the Fermi level inside five "
    "region ladders. Every region expression is translated from the AST to an exact rational function (Fraction "
    "coefficients; local temporaries substituted) and compared by cross-multiplication with the textbook "
    "linear-tetrahedron formula (Blöchl 1994, eq. B2–B4), with the other branch, and with formal derivatives. These are "
    "identities of rational functions, hence hold for all real corner energies with distinct values; corner-order "
    "independence follows from the arguments being used only inside sorted(). The parallelepiped decomposition, the "
    "group/sea completion and the cache key are structural rules. Not decided: floating-point behaviour for nearly "
    "coincident corners (the diff_min regularisation).")

TET = "wannierberri/grid/tetrahedron.py"
DK = "wannierberri/data_K/data_K.py"

E = {k: Rat.sym(k) for k in ("e1", "e2", "e3", "e4", "ef")}


def _textbook() -> Dict[int, Rat]:
    e1, e2, e3, e4, x = (E[k] for k in ("e1", "e2", "e3", "e4", "ef"))
    one = Rat.const(1)
    r1 = (x - e1) ** 3 / ((e2 - e1) * (e3 - e1) * (e4 - e1))
    e21, e31, e41, e32, e42 = e2 - e1, e3 - e1, e4 - e1, e3 - e2, e4 - e2
    r2 = (e21 ** 2 + Rat.const(3) * e21 * (x - e2) + Rat.const(3) * (x - e2) ** 2
          - (e31 + e42) / (e32 * e42) * (x - e2) ** 3) / (e31 * e41)
    r3 = one - (e4 - x) ** 3 / ((e4 - e1) * (e4 - e2) * (e4 - e3))
    return {1: r1, 2: r2, 3: r3}


class Ladder:
    def __init__(self, key: str, guards: List[str], regions: Dict[str, Rat], node: ast.If):
        self.key, self.guards, self.regions, self.node = key, guards, regions, node


def _parse(f) -> Tuple[Dict[str, Ladder], Dict[str, ast.AST]]:
    fn = f.node
    pm = fctx(f)[2]
    # global single-assignment temporaries (denom*, c**)
    defs: Dict[str, List[ast.AST]] = {}
    for s in ast.walk(fn):
        if isinstance(s, ast.Assign) and len(s.targets) == 1 and isinstance(s.targets[0], ast.Name):
            defs.setdefault(s.targets[0].id, []).append(s.value)
    single = {k: v[0] for k, v in defs.items() if len(v) == 1}
    efall = f.params[0]

    def mkenv(local: Dict[str, ast.AST], efname: str):
        def env(x):
            if isinstance(x, ast.Name):
                if x.id == efname:
                    return E["ef"]
                if x.id in ("e1", "e2", "e3", "e4"):
                    return E[x.id]
                if x.id in local:
                    return to_rat(local[x.id], env)
                if x.id in single:
                    return to_rat(single[x.id], env)
                raise AnalysisError(f"weights_tetra: unknown name `{x.id}` in a region expression")
            return None
        return env

    ladders: Dict[str, Ladder] = {}
    loops = []
    for lp in [s for s in ast.walk(fn) if isinstance(s, ast.For)]:
        it = norm(lp.iter).replace(" ", "")
        efname = None
        if it == f"enumerate({efall})" and isinstance(lp.target, ast.Tuple) and len(lp.target.elts) == 2:
            efname = norm(lp.target.elts[1])
        elif it in (f"range(len({efall}))", "range(nEF)") or (it.startswith("range(") and isinstance(lp.target, ast.Name)
                                                                and any(isinstance(s_, ast.Assign) and norm(s_.value) == f"{efall}[{lp.target.id}]" for s_ in lp.body)):
            for s_ in lp.body:
                if isinstance(s_, ast.Assign) and isinstance(s_.targets[0], ast.Name) and isinstance(lp.target, ast.Name) and norm(s_.value) == f"{efall}[{lp.target.id}]":
                    efname = s_.targets[0].id
        if efname is not None:
            loops.append((lp, efname))
    for lp, efname in loops:
        outer = [i for i in enclosing_all(pm, lp, ast.If)]
        if not outer:
            raise AnalysisError("weights_tetra: region loop outside any der-branch")
        key = None
        for cond in outer:
            t = norm(cond.test)
            if in_body(cond.body, lp):
                key = "acc" if "accurate" in t else t.replace("der == ", "der")
                break
        if key is None:
            raise AnalysisError("weights_tetra: cannot classify a region loop")
        cases: List[Tuple[str, Dict[str, ast.AST]]] = [(key, {})]
        if key != "acc" and not (key.startswith("der") and key[3:].isdigit()):
            # one loop shared by several derivative orders: the coefficients are chosen by an if-chain on `der` in front of the loop
            cases = _der_cases(cond, lp, pm)
            if not cases:
                raise AnalysisError(f"weights_tetra: region loop under `{norm1(cond.test)}` without a recognisable per-order coefficient table")
        top = [s for s in lp.body if isinstance(s, ast.If)]
        if len(top) != 1:
            raise AnalysisError("weights_tetra: region loop does not contain exactly one if-ladder")
        guards, regions = [], {}
        node = top[0]
        cur: Optional[ast.If] = node
        names = {"ef>=e4": "above", "ef<e1": "below", "ef>=e3": "3", "ef>=e2": "2", "e4<=ef": "above", "e1>ef": "below", "e3<=ef": "3", "e2<=ef": "2"}
        canon = {"e4<=ef": "ef>=e4", "e1>ef": "ef<e1", "e3<=ef": "ef>=e3", "e2<=ef": "ef>=e2"}
        for key, binds in cases:
            guards, regions = [], {}
            cur = node
            while cur is not None:
                tests = list(cur.test.values) if isinstance(cur.test, ast.BoolOp) and isinstance(cur.test.op, ast.Or) else [cur.test]
                val = _branch_value(cur.body, lambda loc: mkenv({**binds, **loc}, efname))
                for t_ in tests:
                    g = norm(t_).replace(" ", "")
                    g = g.replace(efname, "ef") if efname != "ef" else g
                    if g not in names:
                        raise AnalysisError(f"weights_tetra: unknown region guard `{g}`")
                    guards.append(canon.get(g, g))
                    regions[names[g]] = val
                if len(cur.orelse) == 1 and isinstance(cur.orelse[0], ast.If):
                    cur = cur.orelse[0]
                else:
                    guards.append("else")
                    regions["1"] = _branch_value(cur.orelse, lambda loc: mkenv({**binds, **loc}, efname))
                    cur = None
            ladders[key] = Ladder(key, guards, regions, node)
    return ladders, single


def _int_test(t: ast.AST, var: str, k: int) -> Optional[bool]:
    """truth of a comparison of `var` with an integer literal for var = k (None if the test has another shape)"""
    if isinstance(t, ast.Compare) and len(t.ops) == 1 and isinstance(t.left, ast.Name) and t.left.id == var and isinstance(t.comparators[0], ast.Constant) \
            and isinstance(t.comparators[0].value, int):
        c = t.comparators[0].value
        op = t.ops[0]
        return {ast.Eq: k == c, ast.NotEq: k != c, ast.Lt: k < c, ast.LtE: k <= c, ast.Gt: k > c, ast.GtE: k >= c}.get(type(op))
    return None


def _der_cases(cond: ast.If, lp: ast.For, pm) -> List[Tuple[str, Dict[str, ast.AST]]]:
    """[(\"der<k>\", {name: expression})] for a region loop that serves several derivative orders: the orders k for which the enclosing
    test holds (and no earlier arm of the same chain), each with the names bound by the arm of the `der == k` chain in front of the loop."""
    body = cond.body
    if lp not in body:
        return []
    chain_if = [s for s in body[:body.index(lp)] if isinstance(s, ast.If)]
    if len(chain_if) != 1:
        return []
    # earlier arms of the outer chain
    earlier = []
    x = cond
    while x in pm and isinstance(pm[x], ast.If) and pm[x].orelse == [x]:
        x = pm[x]
        earlier.append(x.test)
    out = []
    for k in range(0, 4):
        if _int_test(cond.test, "der", k) is not True or any(_int_test(t, "der", k) is not False for t in earlier):
            continue
        cur = chain_if[0]
        arm = None
        while cur is not None:
            tv = _int_test(cur.test, "der", k)
            if tv is None:
                return []
            if tv:
                arm = cur.body
                break
            if len(cur.orelse) == 1 and isinstance(cur.orelse[0], ast.If):
                cur = cur.orelse[0]
            else:
                arm = cur.orelse
                cur = None
        if not arm:
            return []
        binds: Dict[str, ast.AST] = {}
        for st in arm:
            if isinstance(st, ast.Assign) and len(st.targets) == 1:
                t, v = st.targets[0], st.value
                if isinstance(t, ast.Name):
                    binds[t.id] = v
                elif isinstance(t, ast.Tuple) and isinstance(v, ast.Tuple) and len(t.elts) == len(v.elts) and all(isinstance(e, ast.Name) for e in t.elts):
                    for a, b in zip(t.elts, v.elts):
                        binds[a.id] = b
                else:
                    return []
            else:
                return []
        out.append((f"der{k}", binds))
    return out


def _branch_value(body: List[ast.stmt], mkenv) -> Rat:
    local: Dict[str, ast.AST] = {}
    val = None
    for s in body:
        if isinstance(s, ast.Assign) and isinstance(s.targets[0], ast.Name):
            local[s.targets[0].id] = s.value
        elif isinstance(s, ast.Assign) and isinstance(s.targets[0], ast.Subscript) and norm(s.targets[0].value) == "occ":
            val = s.value
        elif isinstance(s, ast.Expr) and isinstance(s.value, ast.Constant):
            continue
        else:
            raise AnalysisError(f"weights_tetra: unexpected statement in a region arm: {norm1(s)}")
    if val is None:
        raise AnalysisError("weights_tetra: region arm does not assign occ[i]")
    return to_rat(val, mkenv(local))


def _expand_loop_sums(idx, f, e: ast.AST) -> ast.AST:
    """Calls of a private helper of the class whose body is an accumulation loop
           acc = T(lo);  for v in range(lo + 1, hi): acc = acc + T(v)  (or acc += T(v));  return acc [/ (hi − lo)]
    are replaced by the expression they compute, sum(T(v) for v in range(lo, hi)) [/ (hi − lo)], with the parameters bound."""
    import copy
    from ..sem import _Rename

    def expand(c: ast.Call) -> Optional[ast.AST]:
        fn = c.func
        if not (isinstance(fn, ast.Attribute) and isinstance(fn.value, ast.Name) and fn.value.id in ("self", "cls") and f.cls is not None):
            return None
        g = idx.find_method(f.cls, fn.attr)
        if g is None or g is f or any(isinstance(a, ast.Starred) for a in c.args):
            return None
        body = [s_ for s_ in g.node.body if not (isinstance(s_, ast.Expr) and isinstance(s_.value, ast.Constant))]
        if len(body) != 3 or not (isinstance(body[0], ast.Assign) and isinstance(body[0].targets[0], ast.Name) and isinstance(body[1], ast.For)
                                  and isinstance(body[2], ast.Return) and body[2].value is not None):
            return None
        acc = body[0].targets[0].id
        lp = body[1]
        if not (isinstance(lp.target, ast.Name) and isinstance(lp.iter, ast.Call) and call_name(lp.iter) == "range" and len(lp.iter.args) == 2 and len(lp.body) == 1):
            return None
        v = lp.target.id
        st = lp.body[0]
        term = None
        if isinstance(st, ast.AugAssign) and isinstance(st.op, ast.Add) and norm(st.target) == acc:
            term = st.value
        elif isinstance(st, ast.Assign) and norm(st.targets[0]) == acc and isinstance(st.value, ast.BinOp) and isinstance(st.value.op, ast.Add):
            term = st.value.right if norm(st.value.left) == acc else st.value.left if norm(st.value.right) == acc else None
        if term is None:
            return None
        lo1, hi = lp.iter.args
        if not (isinstance(lo1, ast.BinOp) and isinstance(lo1.op, ast.Add) and norm(lo1.right) == "1"):
            return None
        lo = lo1.left
        t0 = _Rename({}, {v: lo}).visit(copy.deepcopy(term))
        if norm(t0) != norm(body[0].value):
            return None
        total = ast.parse(f"sum({norm(term)} for {v} in range({norm(lo)}, {norm(hi)}))", mode="eval").body
        ret = body[2].value

        class R(ast.NodeTransformer):
            def visit_Name(self, n):
                return copy.deepcopy(total) if n.id == acc and isinstance(n.ctx, ast.Load) else n
        out = R().visit(copy.deepcopy(ret))
        params = [p_ for p_ in g.params if p_ not in ("self", "cls")]
        if len(c.args) > len(params) or c.keywords and any(k.arg not in params for k in c.keywords):
            return None
        bind = {p_: a_ for p_, a_ in zip(params, c.args)}
        bind.update({k.arg: k.value for k in c.keywords})
        if set(bind) != set(params):
            return None
        out = _Rename({}, bind).visit(out)
        ast.fix_missing_locations(out)
        return out

    class T(ast.NodeTransformer):
        def visit_Call(self, n):
            self.generic_visit(n)
            r = expand(n)
            return ast.copy_location(r, n) if r is not None else n
    return T().visit(copy.deepcopy(e))


def run(ctx) -> None:
    idx = ctx.index
    from ..sem import Sem, inline_private_helpers
    f = inline_private_helpers(idx, idx.function(TET, "weights_tetra"))
    cfg, du, pm = fctx(f)
    ctx.assume("textbook formula: Blöchl, Jepsen, Andersen PRB 49, 16223 (1994), eqs. (B2)-(B4) for the occupied fraction")
    ctx.assume("corner energies pairwise distinct (the code enforces a minimal spacing diff_min = 1e-12 after sorting)")

    # ---------------------------------------------------------------- R14.1
    r1 = ctx.rule("R14.1", "corner arguments are used only inside one sort ⇒ order-independent")
    r1.instance(f.short)
    corner_params = f.params[1:5]
    sorts = [c for c in ast.walk(f.node) if isinstance(c, ast.Call) and call_name(c) in ("sorted", "np.sort", "numpy.sort")]
    inside = set()
    for c in sorts:
        for n in ast.walk(c):
            if isinstance(n, ast.Name):
                inside.add(id(n))
    bad = []
    from ..defuse import header_exprs
    for n, d in cfg.g.nodes(data=True):
        s = d["stmt"]
        if s is None:
            continue
        for h in header_exprs(s):
            if h is None:
                continue
            for x in ast.walk(h):
                if isinstance(x, ast.Name) and isinstance(x.ctx, ast.Load) and x.id in corner_params and id(x) not in inside:
                    if any(df.kind == "param" for df in du.reaching(x.id, n)):
                        bad.append((x, s))
    r1.check(len(sorts) == 1 and not bad and all(p in {n.id for n in ast.walk(sorts[0]) if isinstance(n, ast.Name)} for p in corner_params),
             f"the four corner parameters {corner_params} flow only into `{norm1(sorts[0]) if sorts else '?'}`", f,
             bad[0][1] if bad else f.node,
             f"corner parameter `{bad[0][0].id if bad else '?'}` is used outside the sort: the weight depends on the order in which "
             f"the corners are passed")
    unpack = [s for s in stmts(f.node) if isinstance(s, ast.Assign) and isinstance(s.targets[0], ast.Tuple)
              and [norm(t) for t in s.targets[0].elts] == ["e1", "e2", "e3", "e4"]]
    srt_ok = False
    if len(unpack) == 1 and isinstance(unpack[0].value, ast.Name) and sorts:
        sd = du.reaching(unpack[0].value.id, cfg.node(unpack[0]))
        srt_ok = len(sd) == 1 and sd[0].value is not None and any(x is sorts[0] for x in ast.walk(sd[0].value))
    r1.check(srt_ok, "e1 ≤ e2 ≤ e3 ≤ e4 are the sorted corners", f,
             unpack[0] if unpack else f.node, "the sorted energies are not unpacked as e1, e2, e3, e4")

    ladders, single = _parse(f)
    need = {"acc", "der0", "der1", "der2", "der3"}
    if set(ladders) != need:
        raise AnalysisError(f"weights_tetra: expected ladders {sorted(need)}, found {sorted(ladders)}")
    tb = _textbook()

    # ---------------------------------------------------------------- R14.6
    r6 = ctx.rule("R14.6", "all region ladders use the same guards in the same order", min_instances=5)
    ref = ["ef>=e4", "ef<e1", "ef>=e3", "ef>=e2", "else"]
    for k, l in sorted(ladders.items()):
        r6.instance(f"{f.short}: ladder {k}")
        r6.check(l.guards == ref, f"ladder {k}: guards {l.guards}", f, l.node,
                 f"ladder `{k}` tests {l.guards} instead of {ref}: a Fermi level is assigned to the wrong energy region")

    # ---------------------------------------------------------------- R14.2
    r2 = ctx.rule("R14.2", "accurate branch ≡ textbook linear-tetrahedron fraction", min_instances=3)
    acc = ladders["acc"].regions
    for reg in (1, 2, 3):
        r2.instance(f"accurate region {reg}")
        r2.check(acc[str(reg)].equals(tb[reg]), f"accurate region {reg} = Blöchl formula", f, ladders["acc"].node,
                 f"the accurate expression of region {reg} (e{reg} ≤ ε < e{reg + 1}) is not the exact volume fraction of the linear "
                 f"tetrahedron method", stmt=f"accurate region {reg}")
    r2.check(acc["above"].equals(Rat.const(1)) and acc["below"].equals(Rat.const(0)), "fraction is 1 above e4 and 0 below e1", f,
             ladders["acc"].node, "occupation outside [e1, e4] is not 0 / 1", stmt="accurate outside")

    # ---------------------------------------------------------------- R14.3
    r3 = ctx.rule("R14.3", "polynomial branch ≡ accurate branch", min_instances=3)
    p0 = ladders["der0"].regions
    for reg in (1, 2, 3):
        r3.instance(f"polynomial region {reg}")
        ok = p0[str(reg)].equals(acc[str(reg)])
        detail = ""
        if not ok:
            # which Horner coefficient is off?
            diff = p0[str(reg)] - tb[reg]
            num = diff.n
            detail = "; deviating powers of ε: " + ", ".join(str(k) for k in range(4) if not num.coeff("ef", k).is_zero())
        r3.check(ok, f"c{reg}0 + ε(c{reg}1 + ε(c{reg}2 + c{reg}3 ε)) = accurate region {reg}", f, ladders["der0"].node,
                 f"the cubic of region {reg} in the fast (accurate=False) branch differs from the exact fraction{detail}",
                 stmt=f"polynomial region {reg}")
    r3.check(p0["above"].equals(Rat.const(1)) and p0["below"].equals(Rat.const(0)), "fast branch: 1 above e4, 0 below e1", f,
             ladders["der0"].node, "fast branch: occupation outside [e1, e4] is not 0 / 1", stmt="polynomial outside")

    # ---------------------------------------------------------------- R14.4
    r4 = ctx.rule("R14.4", "derivative weights are the formal ε-derivatives of the occupied fraction", min_instances=9)
    cur = {k: v for k, v in p0.items()}
    for n in (1, 2, 3):
        lad = ladders[f"der{n}"].regions
        cur = {k: v.diff("ef") for k, v in cur.items()}
        for reg in ("1", "2", "3"):
            r4.instance(f"der={n} region {reg}")
            r4.check(lad[reg].equals(cur[reg]), f"der={n}, region {reg}: d^{n}/dε^{n} of the cubic", f, ladders[f"der{n}"].node,
                     f"the der={n} weight in region {reg} is not the {n}-th derivative of the occupied fraction "
                     f"(Fermi-surface / higher-derivative integrals are wrong by a factor or a term)", stmt=f"der{n} region {reg}")
        r4.check(lad["above"].is_zero() and lad["below"].is_zero(), f"der={n}: zero outside [e1, e4)", f, ladders[f"der{n}"].node,
                 f"der={n} weight is non-zero outside [e1, e4)", stmt=f"der{n} outside")

    # ---------------------------------------------------------------- R14.5
    r5 = ctx.rule("R14.5", "C0/C1 continuity at the corners; end values 0 and 1", min_instances=3)
    x = p0
    for (a, b, at) in (("1", "2", "e2"), ("2", "3", "e3")):
        r5.instance(f"border {at}")
        va, vb = x[a].subs({"ef": E[at]}), x[b].subs({"ef": E[at]})
        r5.check(va.equals(vb), f"value continuous at {at}", f, ladders["der0"].node,
                 f"the occupied fraction jumps at ε = {at}", stmt=f"C0 at {at}")
        da, db = x[a].diff("ef").subs({"ef": E[at]}), x[b].diff("ef").subs({"ef": E[at]})
        r5.check(da.equals(db), f"slope (DOS) continuous at {at}", f, ladders["der0"].node,
                 f"the density of states is discontinuous at ε = {at}", stmt=f"C1 at {at}")
    r5.instance("ends")
    r5.check(x["1"].subs({"ef": E["e1"]}).is_zero(), "fraction(e1) = 0", f, ladders["der0"].node, "fraction at ε = e1 is not 0", stmt="end e1")
    r5.check(x["3"].subs({"ef": E["e4"]}).equals(Rat.const(1)), "fraction(e4) = 1", f, ladders["der0"].node, "fraction at ε = e4 is not 1",
             stmt="end e4")

    # ---------------------------------------------------------------- R14.7
    r7 = ctx.rule("R14.7", "corner lists: 4 corners per tetrahedron; 12 tetrahedra per parallelepiped", min_instances=2)
    tw = idx.function(TET, "TetraWeights.weight_1k1b_priv")
    r7.instance(tw.short)
    WS = Sem(idx, tw)
    c = calls(tw.node, "weights_tetra", suffix=False)
    okc = False
    if len(c) == 1:
        at_c = WS.du.node_of_expr(c[0])
        args = []
        for a_ in c[0].args[1:]:
            if isinstance(a_, ast.Starred):
                v_ = WS.resolve(a_.value, at_c)
                if isinstance(v_, (ast.ListComp, ast.GeneratorExp)) and len(v_.generators) == 1 and norm(v_.generators[0].iter) == "range(4)" and isinstance(v_.generators[0].target, ast.Name):
                    gv = v_.generators[0].target.id
                    for k_ in range(4):
                        args.append(norm(WS._subst(v_.elt, {gv: ast.Constant(value=k_)})))
                elif isinstance(v_, (ast.List, ast.Tuple)):
                    args += [norm(x) for x in v_.elts]
                else:
                    args.append("*?")
            else:
                args.append(WS.rnorm(a_, at_c))
        ikp, ibp = tw.params[2], tw.params[3]
        want4 = [{f"self.eCorners[{ikp}, :, {ibp}][{k_}]", f"self.eCorners[{ikp}, {k_}, {ibp}]"} for k_ in range(4)]
        okc = len(args) == 4 and all(args[k_] in want4[k_] for k_ in range(4)) and any(k.arg == "der" and norm(k.value) == tw.params[4] for k in c[0].keywords)
    r7.check(okc, "tetrahedron: weights_tetra(eF, corner0..corner3, der=der)", tw, c[0] if c else tw.node,
             "TetraWeights does not pass its four corner energies (each once) to weights_tetra")
    tp = idx.function(TET, "TetraWeightsParal.weight_1k1b_priv")
    r7.instance(tp.short)
    PS = Sem(idx, tp)
    tpm = PS.pm
    pcs = calls(tp.node, "weights_tetra", suffix=False)

    def elements(e, env, at):
        """explicit element list of an iterable expression (literal tuple/list, range(n), or a comprehension over such)"""
        e = PS._subst(e, env)
        if isinstance(e, ast.Name):
            e = PS.resolve(e, at)
        if isinstance(e, ast.Name):
            # a module-level table of constants
            mods_ = [s_ for s_ in tp.module.tree.body if isinstance(s_, ast.Assign) and len(s_.targets) == 1 and isinstance(s_.targets[0], ast.Name)
                     and s_.targets[0].id == e.id] if hasattr(tp.module, "tree") else []
            if len(mods_) == 1:
                e = mods_[0].value
        if isinstance(e, ast.Call) and not (call_name(e) == "range"):
            e2 = PS.resolve(e, at)
            e = e2
        if isinstance(e, (ast.Tuple, ast.List)):
            return list(e.elts)
        if isinstance(e, ast.Call) and call_name(e) == "range" and len(e.args) == 1 and isinstance(e.args[0], ast.Constant):
            return [ast.Constant(value=k_) for k_ in range(e.args[0].value)]
        if isinstance(e, (ast.ListComp, ast.GeneratorExp)):
            outs = [dict()]
            for ge in e.generators:
                nxt = []
                for sub in outs:
                    els = elements(ge.iter, sub, at)
                    if els is None or not isinstance(ge.target, ast.Name) or ge.ifs:
                        return None
                    for el in els:
                        d2 = dict(sub)
                        d2[ge.target.id] = el
                        nxt.append(d2)
                outs = nxt
            return [PS._subst(e.elt, sub) for sub in outs]
        return None

    tets = []

    def unroll(body, env):
        for s_ in body:
            if isinstance(s_, ast.For) and isinstance(s_.target, (ast.Name, ast.Tuple)):
                els = elements(s_.iter, env, PS.cfg.node(s_))
                if els is None:
                    raise AnalysisError(f"TetraWeightsParal: cannot enumerate `{norm1(s_.iter)}`")
                for el in els:
                    e2 = dict(env)
                    if isinstance(s_.target, ast.Name):
                        e2[s_.target.id] = el
                    elif isinstance(el, (ast.Tuple, ast.List)) and len(el.elts) == len(s_.target.elts) and all(isinstance(t_, ast.Name) for t_ in s_.target.elts):
                        for t_, v_ in zip(s_.target.elts, el.elts):
                            e2[t_.id] = v_
                    else:
                        raise AnalysisError(f"TetraWeightsParal: cannot bind `{norm1(s_.target)}` to the elements of `{norm1(s_.iter)}`")
                    unroll(s_.body, e2)
            else:
                for cc in [x for x in ast.walk(s_) if isinstance(x, ast.Call) and call_name(x) == "weights_tetra"]:
                    tets.append((cc, [PS._subst(a_, env) for a_ in cc.args[1:5]], s_))

    def corner_index(e, base: str):
        """(i, j, k) of an element of the 2×2×2 corner array, following subscript chains on `base`"""
        chain = []
        x = e
        bases = {base} | ({norm(base_defs[0].value)} if base_defs else set())
        while isinstance(x, ast.Subscript) and norm(x) not in bases:
            chain.append(x.slice)
            x = x.value
        if norm(x) not in bases:
            return None
        slots = [None, None, None]
        for sl in reversed(chain):
            free = [k_ for k_ in range(3) if slots[k_] is None]
            elts = sl.elts if isinstance(sl, ast.Tuple) else [sl]
            fi = 0
            for q in elts:
                if fi >= len(free):
                    return None
                if isinstance(q, ast.Slice) and q.lower is None and q.upper is None and q.step is None:
                    fi += 1
                elif isinstance(q, ast.Constant) and q.value in (0, 1):
                    slots[free[fi]] = q.value
                    fi += 1
                else:
                    return None
        return tuple(slots) if all(v is not None for v in slots) else None
    base_defs = [s_ for s_ in stmts(tp.node) if isinstance(s_, ast.Assign) and isinstance(s_.targets[0], ast.Name) and pmatch(s_.value, "self.eCorners[ANY, ..., ANY]")]
    base = base_defs[0].targets[0].id if len(base_defs) == 1 else None
    try:
        unroll(tp.node.body, {})
        enum_ok = True
    except AnalysisError:
        enum_ok = False
    got = []
    apex_ok = True
    for cc, a4, st_ in tets:
        apex_ok = apex_ok and PS.rnorm(cc.args[1], PS.cfg.node(st_)) in (f"self.eCenter[{tp.params[2]}, {tp.params[3]}]",) and \
            any(k.arg == "der" and norm(k.value) == tp.params[4] for k in cc.keywords)
        tri = [corner_index(x, base) for x in a4[1:]]
        got.append(frozenset(tri) if all(t_ is not None for t_ in tri) and len(set(tri)) == 3 else None)
    want12 = set()
    for ax in range(3):
        for side in (0, 1):
            def pt(u, v, ax=ax, side=side):
                free = [k_ for k_ in range(3) if k_ != ax]
                p_ = [None, None, None]
                p_[ax] = side
                p_[free[0]], p_[free[1]] = u, v
                return tuple(p_)
            want12.add(frozenset([pt(0, 0), pt(0, 1), pt(1, 1)]))
            want12.add(frozenset([pt(0, 0), pt(1, 0), pt(1, 1)]))
    r7.expect(enum_ok and base is not None, "parallelepiped loop nest enumerated", tp, tp.node, "TetraWeightsParal.weight_1k1b_priv: loop nest over faces could not be enumerated")
    if enum_ok and base is not None:
        r7.check(apex_ok, "each tetrahedron has the cell centre as apex and the requested derivative order", tp, pcs[0] if pcs else tp.node,
                 "a tetrahedron of the parallelepiped does not use the cell centre / der")
        r7.check(len(got) == 12 and None not in got and set(got) == want12 and len(set(got)) == 12,
                 "12 tetrahedra: each of the 6 faces split into the two triangles sharing its (00)-(11) diagonal", tp, pcs[0] if pcs else tp.node,
                 f"the {len(got)} tetrahedra {sorted(map(lambda t_: sorted(t_) if t_ else None, got), key=str)[:3]}… do not tile the parallelepiped (6 faces × 2 triangles sharing the "
                 f"diagonal): overlap or gap")
    from ..sem import return_cases as _rc7
    TPS = Sem(idx, tp)
    derp7 = tp.params[4] if len(tp.params) > 4 else "der"
    ret = [st_ for v_, cs_, st_ in _rc7(TPS, resolve=False)
           if not any(t_.replace(" ", "") in (f"{derp7}==-1", f"-1=={derp7}") and p_ for t_, p_ in cs_)]
    r7.check(len(ret) == 1 and norm(ret[0].value).replace(" ", "") in ("occ/12.0", "occ/12"), "sum of 12 tetrahedra divided by 12", tp,
             ret[0] if ret else tp.node, f"the 12 tetrahedra are normalised by `{norm1(ret[0].value) if ret else '?'}` instead of 12")

    # ---------------------------------------------------------------- R14.8
    r8 = ctx.rule("R14.8", "group weights, sea/anti-sea completion and cache key", min_instances=4)
    wa = idx.function(TET, "TetraWeights.weights_all_band_groups")
    from ..sem import inline_private_helpers as _iph14, loopify_comprehensions as _lc14
    wa = _iph14(idx, _lc14(idx, wa))
    t = norm(wa.node).replace(" ", "")
    r8.instance(f"{wa.short}: group mean")
    AS = Sem(idx, wa)
    PAT = "sum(self.__weight_1b(IEF_, IK_, IB_, DER_) for IB_ in range(A_, B_)) / (B_ - A_) * weight_select_bands(A_, B_, SB_)"
    METAS = {"IEF_", "IK_", "IB_", "DER_", "A_", "B_", "SB_"}
    okmean = False
    cands = []
    for n in ast.walk(wa.node):
        if isinstance(n, ast.DictComp) and len(n.generators) == 1:
            cands.append((n.key, n.value, n.generators[0].target, n.generators[0].iter, AS.du.node_of_expr(n) if any(n is x for s_ in stmts(wa.node) for x in ast.walk(s_)) else None, n))
        if isinstance(n, ast.Assign) and isinstance(n.targets[0], ast.Subscript) and isinstance(n.targets[0].slice, ast.Tuple) and enclosing(AS.pm, n, ast.For) is not None:
            lp_ = enclosing(AS.pm, n, ast.For)
            cands.append((n.targets[0].slice, n.value, lp_.target, lp_.iter, AS.cfg.node(n), n))
    for key_, val_, tgt_, it_, at_, node_ in cands:
        if at_ is None:
            continue
        bound_ = {n_.id for n_ in ast.walk(tgt_) if isinstance(n_, ast.Name)}
        val_ = _expand_loop_sums(idx, wa, val_)
        vres = AS.resolve(val_, at_) if not isinstance(node_, ast.DictComp) else AS._res_comp(val_, at_, 8, set(), True, bound_)
        m_ = pmatch(vres, PAT, METAS)
        if m_ and m_[0][0] is vres:
            bb = m_[0][1]
            okmean = okmean or (isinstance(key_, ast.Tuple) and [norm(x) for x in key_.elts] == [bb["A_"], bb["B_"]] and isinstance(tgt_, ast.Tuple)
                                and [norm(x) for x in tgt_.elts] == [bb["A_"], bb["B_"]] and bb["DER_"] == wa.params[2] and bb["SB_"] == "select_bands")
    from .memo import check_memo_results_not_mutated
    tw_cls_ = idx.cls(TET, "TetraWeights")
    if check_memo_results_not_mutated(r8, idx, tw_cls_) == 0:
        r8.ok("no in-place update of an array handed out by the per-band weight cache")
    if not cands:
        r8.expect(False, "", wa, wa.node, "weights_all_band_groups: no store of a per-group weight `W[(ib1, ib2)] = …` (loop or dict comprehension) found, also not in inlined helpers")
        okmean = True
    r8.check(okmean,
             "group weight = mean of the member bands' weights × band-selection weight", wa, wa.node,
             "the weight of a degenerate group is not the mean over exactly its bands [ib1, ib2)", stmt="group mean")
    from .groups import check_completion_blocks, check_range_partition
    r8.instance("get_bands_in_range / below / above: partition at the window edges")
    check_range_partition(r8, idx)
    r8.instance(f"{wa.short}: sea / anti-sea completion")
    check_completion_blocks(r8, idx, wa, want=("sea", "anti"))
    gk_ = idx.function(DK, "Data_K.get_bands_in_range_groups_ik")
    r8.instance(f"{gk_.short}: sea-grid completion")
    check_completion_blocks(r8, idx, gk_, want=("sea",))
    # anti-sea (der = −1): for every weight class, on every call path from the per-band weight cache down to weights_tetra(...) some method
    # turns der = −1 into 1 − (der = 0) before `der` reaches weights_tetra (which knows der ≥ 0 only and returns zeros otherwise)
    from ..sem import return_cases as _rc
    tw_classes = [c_ for c_ in idx.module(TET).classes.values() if c_.name == "TetraWeights" or any(b_.name == "TetraWeights" for b_ in idx.mro(c_))]

    def handles_anti(m_) -> bool:
        MS_ = Sem(idx, m_)
        MS_.inline_helpers = False
        dp_ = next((p_ for p_ in m_.params if p_ == "der"), None)
        if dp_ is None:
            return False
        for v_, cs_, st_ in _rc(MS_, resolve=False):
            if not any(t_.replace(" ", "") in (f"{dp_}==-1", f"-1=={dp_}") and p_ for t_, p_ in cs_):
                continue
            v2 = MS_.resolve(v_, MS_.cfg.node(st_))
            if isinstance(v2, ast.BinOp) and isinstance(v2.op, ast.Sub) and const_of(v2.left) in (1, 1.0) and isinstance(v2.right, ast.Call) \
                    and isinstance(v2.right.func, ast.Attribute) and norm(v2.right.func.value) == "self":
                c_ = v2.right
                callee = idx.find_method(m_.cls, c_.func.attr.replace(f"_{m_.cls.name}__", "__")) if m_.cls is not None else None
                if callee is None:
                    continue
                cps = [p_ for p_ in callee.params if p_ != "self"]
                dk = kwarg(c_, "der", cps.index("der")) if "der" in cps else None
                others_same = all(norm(a_) in m_.params for a_ in c_.args) and all(norm(k_.value) in m_.params or k_.arg == "der" for k_ in c_.keywords)
                if dk is not None and const_of(dk) == 0 and others_same:
                    return True
        return False

    for c_ in tw_classes:
        entry = idx.find_method(c_, "__weight_1b") or idx.find_method(c_, "_TetraWeights__weight_1b")
        r8.instance(f"{c_.name}: anti-sea weight path")
        if entry is None:
            r8.expect(False, "", f"{TET}:{c_.name}", c_.node, f"{c_.name}: per-band weight cache method `__weight_1b` not found")
            continue
        bad_path = None
        seen_m = set()

        def walk(m_, handled: bool, path):
            nonlocal bad_path
            if bad_path is not None or (m_.qualname, handled) in seen_m:
                return
            seen_m.add((m_.qualname, handled))
            h_ = handled or handles_anti(m_)
            dp_ = "der" if "der" in m_.params else None
            for x in ast.walk(m_.node):
                if not isinstance(x, ast.Call):
                    continue
                if call_name(x).split(".")[-1] == "weights_tetra":
                    dv = kwarg(x, "der", 5)
                    if dv is not None and isinstance(dv, ast.Name) and dv.id == dp_ and not h_:
                        bad_path = (path + [m_.qualname], x, m_)
                        return
                elif isinstance(x.func, ast.Attribute) and isinstance(x.func.value, ast.Name) and x.func.value.id == "self":
                    nm = x.func.attr
                    callee = idx.find_method(c_, nm)
                    if callee is None or "der" not in callee.params:
                        continue
                    cps = [p_ for p_ in callee.params if p_ != "self"]
                    dv = kwarg(x, "der", cps.index("der"))
                    if dv is not None and isinstance(dv, ast.Name) and dv.id == dp_:
                        walk(callee, h_, path + [m_.qualname])
        walk(entry, False, [])
        r8.check(bad_path is None, f"{c_.name}: der = −1 is turned into 1 − (der = 0) before it reaches weights_tetra", bad_path[2] if bad_path else entry,
                 bad_path[1] if bad_path else entry.node,
                 f"{c_.name}: on the call path {' → '.join(bad_path[0]) if bad_path else ''} `der` reaches weights_tetra(…) without the rule "
                 f"der = −1 ↦ 1 − weight(der = 0): weights_tetra returns zeros for der = −1, so hole-like (anti-sea) weights of every in-window band "
                 f"are 0 instead of 1 − occupied fraction", stmt="der -1")
    ie = idx.function(TET, "TetraWeights.index_eFermi")
    r8.instance(f"{ie.short}: cache key")
    conds = [s.test for s in ast.walk(ie.node) if isinstance(s, ast.If)]
    fuzzy = [c for cnd in conds for c in ast.walk(cnd) if isinstance(c, ast.Call) and call_name(c).split(".")[-1] in ("allclose", "isclose")]
    lt = [c for cnd in conds for c in ast.walk(cnd) if isinstance(c, ast.Compare) and any(isinstance(o, (ast.Lt, ast.LtE)) for o in c.ops)]
    exact = any(isinstance(c, ast.Compare) and isinstance(c.ops[0], ast.Is) for cnd in conds for c in ast.walk(cnd)) or \
        any(isinstance(c, ast.Call) and call_name(c).endswith("array_equal") for cnd in conds for c in ast.walk(cnd))
    r8.check(exact and not fuzzy and not lt, "cached weights are reused only for the identical Fermi-level array", ie,
             conds[0] if conds else ie.node,
             "cached weights are reused for a *nearly* equal Fermi-level array (tolerance comparison): the second array silently "
             "gets the weights of the first, so the weight is not the fraction at the requested Fermi levels")


def proof_info(ctx):
    obligations = sum(r.obligations for r in ctx.rules)
    discharged = sum(r.discharged for r in ctx.rules)
    return {
        "obligations": obligations, "discharged": discharged,
        "checker_cmd": "/venv/bin/python -m wbstatic.check C14 --tier quick",
        "trusted_base": ["Python ast parser", "wbstatic.algebra (exact Fraction polynomials; equality by cross-multiplication)",
                         "AST→rational translation of + - * / ** and single-assignment temporaries (wbstatic.rules.c14._parse)",
                         "the textbook linear-tetrahedron formula encoded in wbstatic.rules.c14._textbook",
                         "numba @njit executes the Python semantics of the arithmetic subset used"],
    }


from ..selftest import V  # noqa: E402

SELFTEST = [
    V("array handed out by the per-band weight cache updated in place (seeded C14-m5)", TET, '                (ib1, ib2): sum(self.__weight_1b(ief, ik, ib, der) for ib in range(ib1, ib2)) / (ib2 - ib1) * weight_select_bands(ib1, ib2, select_bands)\n                for ib1, ib2 in bands_in_range\n            }\n', '                (ib1, ib2): sum(self.__weight_1b(ief, ik, ib, der) for ib in range(ib1, ib2)) / (ib2 - ib1) * weight_select_bands(ib1, ib2, select_bands)\n                for ib1, ib2 in bands_in_range\n            }\n            for ib1, ib2 in bands_in_range:\n                w0 = self.__weight_1b(ief, ik, ib1, der)\n                w0 *= 1.0\n', "fire", "R14.8"),
    V("in-range test strict at the lower edge (seeded C14-m4)", TET, "Ebandmax[ib1:ib2].max() >= emin", "Ebandmax[ib1:ib2].max() > emin", "fire", "R14.8"),
    V("below-range test made inclusive while the in-range test stays inclusive", TET, "    add = np.where((Ebandmax < emin))[0]\n", "    add = np.where((Ebandmax <= emin))[0]\n", "fire", "R14.8"),
    V("anti-sea rule bypassed for the parallelepiped class (seeded C14-m3)", TET, "            self.weights[ief][der][ik][ib] = self.weight_1k1b(ief, ik, ib, der)\n",
      "            self.weights[ief][der][ik][ib] = self.weight_1k1b_priv(self.eFermis[ief], ik, ib, der=der)\n", "fire", "R14.8"),
    V("anti-sea weight returned as the sea weight", TET, "return 1 - self.weight_1k1b(ief, ik, ib, der=0)", "return self.weight_1k1b(ief, ik, ib, der=0)", "fire", "R14.8"),
    V("c22 coefficient: sign slip", TET, "c22 = (((e3 - e2) * (e4 - e2)) - (e1 - e3) * (2 * e2 + e4) - (e3 + e1 + e2) * (e2 - e4)) * denom2",
      "c22 = (((e3 - e2) * (e4 - e2)) + (e1 - e3) * (2 * e2 + e4) - (e3 + e1 + e2) * (e2 - e4)) * denom2", "fire", "R14.3"),
    V("c30 constant term forgotten", TET, "c30 = -e4 ** 3 * denom3 + 1.", "c30 = -e4 ** 3 * denom3", "fire", "R14.3"),
    V("accurate region 2: a14 uses e3", TET, "a14 = (ef - e1) / (e4 - e1)", "a14 = (ef - e1) / (e3 - e1)", "fire", "R14.2"),
    V("accurate region 3 cubes the wrong corner", TET, "occ[i] = 1 - ((ef - e4) / (e1 - e4)) * ((ef - e4) / (e2 - e4)) * ((ef - e4) / (e3 - e4))",
      "occ[i] = 1 - ((ef - e4) / (e1 - e4)) * ((ef - e4) / (e2 - e4)) * ((ef - e3) / (e3 - e4))", "fire", "R14.2"),
    V("first derivative: factor 3 → 2", TET, "occ[i] = c21 + ef * (2 * c22 + 3 * c23 * ef)", "occ[i] = c21 + ef * (2 * c22 + 2 * c23 * ef)", "fire", "R14.4"),
    V("second derivative of region 1 uses region-3 coefficient", TET, "occ[i] = 2 * c12 + 6 * c13 * ef", "occ[i] = 2 * c12 + 6 * c33 * ef", "fire", "R14.4"),
    V("der=2 ladder tests e2 before e3", TET,
      "            elif ef >= e3:  # c3\n                occ[i] = 2 * c32 + 6 * c33 * ef\n            elif ef >= e2:  # c2\n                occ[i] = 2 * c22 + 6 * c23 * ef",
      "            elif ef >= e2:  # c2\n                occ[i] = 2 * c22 + 6 * c23 * ef\n            elif ef >= e3:  # c3\n                occ[i] = 2 * c32 + 6 * c33 * ef",
      "fire", "R14.6"),
    V("corner used outside the sort", TET, "    e1, e2, e3, e4 = e\n", "    e1, e2, e3, e4 = e\n    e4 = max(e4, e0)\n", "error", ""),
    V("face split along the other diagonal for one triangle only", TET,
      "occ += weights_tetra(eFermi, eCenter, Eface[0, 0], Eface[1, 0], Eface[1, 1], der=der)",
      "occ += weights_tetra(eFermi, eCenter, Eface[0, 1], Eface[1, 0], Eface[1, 1], der=der)", "fire", "R14.7"),
    V("normalised by 6", TET, "return occ / 12.", "return occ / 6.", "fire", "R14.7"),
    V("sea completion clamped with the group end (seeded C14-m1)", TET, "bandmax = min(bandmax, bands_in_range[0][0])\n                if bandmax > bandmin:",
      "bandmax = min(bandmax, bands_in_range[0][-1])\n                if bandmax > bandmin:", "fire", "R14.8"),
    V("cache matched with allclose (seeded C14-m2)", TET, "            if eF is eFermi:", "            if eF is eFermi or (eF.shape == eFermi.shape and np.allclose(eF, eFermi)):",
      "fire", "R14.8"),
    V("neutral: expanded Horner form", TET, "occ[i] = c10 + ef * (c11 + ef * (c12 + c13 * ef))", "occ[i] = c10 + c11 * ef + c12 * ef ** 2 + c13 * ef ** 3",
      "silent"),
    V("neutral: denominators reordered", TET, "\n    denom1 = 1. / ((e2 - e1) * (e3 - e1) * (e4 - e1))", "\n    denom1 = 1. / ((e4 - e1) * (e2 - e1) * (e3 - e1))", "silent"),
    V("neutral: accurate region 1 written as a cube", TET, "occ[i] = ((ef - e1) / (e2 - e1)) * ((ef - e1) / (e3 - e1)) * ((ef - e1) / (e4 - e1))",
      "occ[i] = (ef - e1) ** 3 / ((e2 - e1) * (e3 - e1) * (e4 - e1))", "silent"),
    V("neutral: cache matched with np.array_equal", TET, "            if eF is eFermi:", "            if eF is eFermi or np.array_equal(eF, eFermi):", "silent"),
]
