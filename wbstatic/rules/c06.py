"""C06 — K-point weights partition the Brillouin zone (conservation by construction).

R06.1 a K-point is removed only after its weight was absorbed by the retained point (initial reduction and merging).
R06.2 subdivision conserves weight: children get factor/ndiv…, their number equals the divisor, the parent is zeroed.
R06.3 absorb() adds the other point's weight on every path that does not leave at the `other is None` guard.
R06.4 tetrahedral grids: initial weights are normalised; the K-list handed to run() consists of copies carrying the weight.
R06.5 the action of a point-group operation on a k-point includes both the time-reversal and the inversion sign.
"""
from __future__ import annotations

import ast
from typing import Dict, List, Optional

from ..index import AnalysisError, call_name, norm, norm1
from .common import Frag, calls, const_of, enclosing, enclosing_all, fctx, in_body, is_name, kwarg, method_calls, pmatch, stmts

LEVEL = "other"
EXPLANATION = (
    "Conservation rules on the code that creates, merges, splits and removes K-points: (R06.1) every removal "
    "(`K_list[…] = None`, `del K_list[i]` of an index put on the exclusion list) sits in the same block as an absorb() of "
    "exactly that element; (R06.2) in both divide() methods the children's factor is self.factor divided by an expression "
    "that equals the number of children created by the loop nest, and self.set_factor(0) lies on every path to the return "
    "(CFG must-pass); (R06.3) absorb() reaches add_factor(other.factor) on every non-guard path; (R06.4) GridTetra "
    "normalises its initial weights and copies carry them; (R06.5) the k-point action multiplies by iTR·iInv. Decides that "
    "no code path creates or destroys weight; does not decide that symmetry images tile the grid (group geometry).")

GR = "wannierberri/grid/grid.py"
KP = "wannierberri/grid/Kpoint.py"
KT = "wannierberri/grid/Kpoint_tetra.py"
GT = "wannierberri/grid/grid_tetra.py"
PS = "wannierberri/symmetry/point_symmetry.py"


def _divide_rule(rule, f, child_cls: str) -> None:
    cfg, du, pm = fctx(f)
    rule.instance(f.short)
    ctor = [c for c in ast.walk(f.node) if isinstance(c, ast.Call) and call_name(c) == child_cls]
    if len(ctor) != 1:
        raise AnalysisError(f"{f.short}: expected one {child_cls}(…) child constructor")
    c = ctor[0]
    fac = next((k.value for k in c.keywords if k.arg == "factor"), None)
    if fac is None:
        rule.violation(f, c, "children are created without a factor (default weight 1 each)", stmt="factor missing")
        return
    facv = du.resolve_local(fac, du.node_of_expr(c))
    loops = [l for l in reversed(enclosing_all(pm, c, ast.For))]
    counts = []
    for l in loops:
        if isinstance(l.iter, ast.Call) and call_name(l.iter) == "range" and len(l.iter.args) == 1:
            counts.append(norm(l.iter.args[0]))
        else:
            raise AnalysisError(f"{f.short}: child loop is not range(n): {norm1(l.iter)}")
    ok = False
    div = None
    if isinstance(facv, ast.BinOp) and isinstance(facv.op, ast.Div) and norm(facv.left) == "self.factor":
        div = norm(facv.right).replace(" ", "")
        if len(counts) == 1:
            ok = div == counts[0].replace(" ", "")
        elif len(counts) == 3:
            base = counts[0].split("[")[0]
            ok = counts == [f"{base}[0]", f"{base}[1]", f"{base}[2]"] and div in (f"np.prod({base})", f"{base}.prod()",
                                                                                     f"{base}[0]*{base}[1]*{base}[2]")
    rule.check(ok, f"children: {len(counts)}-fold loop over {counts}, each with factor self.factor / {div}", f, c,
               f"the children created by the loop nest over {counts} get factor `{norm1(facv)}`: their weights do not add up to "
               f"the parent's weight (total weight changes at every refinement)")
    zero = [cfg.node(enclosing(pm, z, ast.stmt)) for z in method_calls(f.node, "set_factor")
            if is_name(z.func.value, "self") and z.args and norm(z.args[0]) == "0"]
    zero += [cfg.node(s) for s in stmts(f.node) if isinstance(s, ast.Assign) and norm(s.targets[0]) == "self.factor" and norm(s.value) in ("0", "0.0")]
    cnode = cfg.node(enclosing(pm, c, ast.stmt))
    okz = bool(zero) and cfg.must_pass(cnode, zero)
    rule.check(okz, "the parent's weight is set to 0 on every path after its children were created", f, enclosing(pm, c, ast.stmt),
               f"{f.qualname} creates children carrying the parent's weight but does not zero the parent (`self.set_factor(0)`) on every "
               f"path to the return: the refined cell keeps its full weight next to its sub-cells and is counted twice",
               path=cfg.describe_path(cfg.path_avoiding(cnode, cfg.exit, zero) or []))
    rets = [s for s in stmts(f.node) if isinstance(s, ast.Return) and s.value is not None]
    tgt = None
    ap = enclosing(pm, c, ast.Call)
    st = enclosing(pm, c, ast.stmt)
    lst = None
    for a in ast.walk(st):
        if isinstance(a, ast.Call) and isinstance(a.func, ast.Attribute) and a.func.attr == "append" and any(x is c for x in ast.walk(a)):
            lst = norm(a.func.value)
    rule.check(lst is not None and all(norm(r.value) == lst for r in rets), "all children are returned", f, rets[0] if rets else f.node,
               f"divide() collects its children in `{lst}` but returns `{norm1(rets[0].value) if rets else None}`")


def run(ctx) -> None:
    idx = ctx.index

    # ---------------------------------------------------------------- R06.1
    r1 = ctx.rule("R06.1", "weight is absorbed before a K-point is dropped", min_instances=2)
    g = idx.function(GR, "Grid.get_K_list")
    cfg, du, pm = fctx(g)
    drops = [s for s in stmts(g.node) if isinstance(s, ast.Assign) and norm(s.value) == "None" and isinstance(s.targets[0], ast.Subscript)
             and "K_list" in norm(s.targets[0])]
    if len(drops) != 1:
        raise AnalysisError(f"Grid.get_K_list: expected one `K_list[…] = None`, found {len(drops)}")
    d = drops[0]
    r1.instance(f"{g.short}: {norm1(d)}")
    blk = pm[d].body if d in getattr(pm[d], "body", []) else pm[d].orelse
    i = blk.index(d)
    prev = blk[i - 1] if i > 0 else None
    okp = isinstance(prev, ast.Expr) and isinstance(prev.value, ast.Call) and isinstance(prev.value.func, ast.Attribute) \
        and prev.value.func.attr == "absorb" and prev.value.args and norm(prev.value.args[0]) == norm(d.targets[0])
    r1.check(okp, "the dropped grid point is the one just absorbed", g, d,
             f"`{norm1(d)}` removes a grid point whose weight was not transferred by an immediately preceding `.absorb({norm1(d.targets[0])})`: "
             f"the weights of the irreducible points no longer sum to one")
    G = Frag(g)
    kl = norm(d.targets[0].value.value.value) if isinstance(d.targets[0].value, ast.Subscript) and isinstance(d.targets[0].value.value, ast.Subscript) else None
    sloop = enclosing(pm, d, ast.For)
    kvar = sloop.target.id if sloop is not None and isinstance(sloop.target, ast.Name) else None
    xyz_loops = [l for l in enclosing_all(pm, d, ast.For) if l is not sloop]
    lv = {}
    for l in xyz_loops:
        m_ = pmatch(l.iter, "range(self.div[AX])", {"AX"})
        if m_ and m_[0][0] is l.iter and isinstance(l.target, ast.Name):
            lv[int(m_[0][1]["AX"])] = l.target.id
    r1.expect(kl is not None and kvar is not None and sorted(lv) == [0, 1, 2], "symmetry-reduction loop nest located", g, d,
              "Grid.get_K_list: the x/y/z loops over range(self.div[i]) and the loop over the star around the drop were not recognised")
    if kl is None or kvar is None or sorted(lv) != [0, 1, 2]:
        return
    xv, yv, zv = lv[0], lv[1], lv[2]
    r1.check(norm(d.targets[0]).replace(" ", "") == f"{kl}[{kvar}[0]][{kvar}[1]][{kvar}[2]]", "the dropped point is addressed by the image's grid coordinates (x, y, z order)", g, d,
             f"`{norm1(d.targets[0])}` does not address the image {kvar} as {kl}[{kvar}[0]][{kvar}[1]][{kvar}[2]]")
    guard = enclosing(pm, d, ast.If)
    r1.check(guard is not None and norm(guard.test).replace(" ", "") in (f"{kvar}!=({xv},{yv},{zv})", f"({xv},{yv},{zv})!={kvar}") and in_body(guard.body, d),
             "a point never absorbs / drops itself", g, guard or d, "the self-image of a K-point is not excluded: it would absorb itself and be dropped")
    kpv = norm(prev.value.func.value) if okp else None
    kd = du.single_def(kpv, cfg.node(d)) if kpv and kpv.isidentifier() else None
    live = [x for x in enclosing_all(pm, d, ast.If) if kpv and norm(x.test) in (f"{kpv} is not None",)]
    r1.check(kd is not None and norm(kd.value).replace(" ", "") == f"{kl}[{xv}][{yv}][{zv}]" and bool(live),
             "the absorbing point is the live grid point (x, y, z) itself", g, kd.stmt if kd else d,
             "the absorbing K-point is not the (still present) grid point whose star is being removed")
    sd = du.single_def(norm(sloop.iter), cfg.node(sloop)) if isinstance(sloop.iter, ast.Name) else None
    sv = sd.value if sd is not None else sloop.iter
    star_ok = bool(pmatch(sv, f"[tuple(K_) for K_ in np.array(np.round({kpv}.star * self.div), dtype=int) % self.div]", {"K_"})
                   or pmatch(sv, f"[tuple(K_) for K_ in np.round({kpv}.star * self.div).astype(int) % self.div]", {"K_"})
                   or pmatch(sv, f"[tuple(K_) for K_ in np.rint({kpv}.star * self.div).astype(int) % self.div]", {"K_"}))
    r1.check(star_ok, "images are the star of the point, in integer grid coordinates folded onto the grid", g, sd.stmt if sd else sloop,
             "symmetry images are no longer round(KP.star · div) mod div", stmt="star")
    ctor = [c for c in ast.walk(g.node) if isinstance(c, ast.Call) and call_name(c) == "KpointBZparallel"]
    okc = False
    if len(ctor) == 1:
        fv = kwarg(ctor[0], "factor")
        fv = du.resolve_local(fv, du.node_of_expr(ctor[0])) if fv is not None else None
        okf = fv is not None and bool(pmatch(fv, "1.0 / np.prod(self.div)") or pmatch(fv, "1 / np.prod(self.div)") or pmatch(fv, "1.0 / self.div.prod()"))
        comp = [n for n in ast.walk(g.node) if isinstance(n, ast.ListComp) and any(x is ctor[0] for x in ast.walk(n))]
        gens = {}
        for n in comp:
            for ge in n.generators:
                m_ = pmatch(ge.iter, "range(self.div[AX])", {"AX"})
                if m_ and m_[0][0] is ge.iter and isinstance(ge.target, ast.Name) and not ge.ifs:
                    gens[int(m_[0][1]["AX"])] = ge.target.id
        kk = kwarg(ctor[0], "K")
        okK = sorted(gens) == [0, 1, 2] and kk is not None and bool(pmatch(kk, f"np.array([{gens.get(0)}, {gens.get(1)}, {gens.get(2)}]) * DK", {"DK"}))
        okc = okf and okK
    r1.check(okc, "initial grid: prod(div) points (x, y, z)·dK, each of weight 1/prod(div)", g, ctor[0] if ctor else g.node,
             "the initial grid is no longer prod(div) points of weight 1/prod(div)", stmt="initial weights")
    flat = [s_ for s_ in stmts(g.node) if isinstance(s_, ast.Assign) and pmatch(s_.value, f"[K_ for A_ in {kl} for B_ in A_ for K_ in B_ if K_ is not None]", {"K_", "A_", "B_"})
            and pmatch(s_.value, f"[K_ for A_ in {kl} for B_ in A_ for K_ in B_ if K_ is not None]", {"K_", "A_", "B_"})[0][0] is s_.value]
    rets1 = [s_ for s_ in stmts(g.node) if isinstance(s_, ast.Return)]
    r1.check(len(flat) == 1 and len(rets1) == 1 and norm(rets1[0].value) == norm(flat[0].targets[0]) and cfg.dominates(cfg.node(flat[0]), cfg.node(rets1[0])),
             "the returned list keeps exactly the points that were not dropped", g, flat[0] if flat else g.node,
             "the final K-list is not 'all grid points that were not dropped'", stmt="flatten")
    ex = idx.function(KP, "exclude_equiv_points")
    ecfg, edu, epm = fctx(ex)
    ab = method_calls(ex.node, "absorb")
    klp = ex.params[0]
    dl0 = [s_ for s_ in stmts(ex.node) if isinstance(s_, ast.Delete)]
    dlp0 = enclosing(epm, dl0[0], ast.For) if dl0 else None
    cand_lists = {n.id for n in ast.walk(dlp0.iter) if isinstance(n, ast.Name)} if dlp0 is not None else set()
    app = [c for c in method_calls(ex.node, "append") if norm(c.func.value) in cand_lists]
    if len(app) != 1 or len(ab) != 1:
        raise AnalysisError("exclude_equiv_points: expected one absorb and one append to the list that drives the deletion loop")
    excl = norm(app[0].func.value)
    r1.instance(f"{ex.short}: {norm1(app[0])} / {norm1(ab[0])}")
    j = norm(app[0].args[0])
    same_block = enclosing(epm, app[0], ast.If) is enclosing(epm, ab[0], ast.If)
    eqg = enclosing(epm, ab[0], ast.If)
    absorber = norm(ab[0].func.value)
    eq_ok = eqg is not None and norm(eqg.test) in (f"{absorber}.equiv({klp}[{j}])", f"{klp}[{j}].equiv({absorber})")
    r1.check(eq_ok, "a point is excluded only if it is equivalent to the point that absorbs it", ex, eqg or ex.node,
             f"`{norm1(ab[0])}` is not guarded by the equivalence test of exactly these two K-points")
    r1.check(same_block and norm(ab[0].args[0]) == f"{klp}[{j}]" and absorber != f"{klp}[{j}]" and absorber.startswith(f"{klp}["),
             "every excluded point is absorbed by its partner in the same guarded block", ex, enclosing(epm, app[0], ast.stmt),
             f"index `{j}` is put on the exclusion list but `{norm1(ab[0])}` absorbs a different element: weight is lost or duplicated")
    once = [x for x in enclosing_all(epm, ab[0], ast.If) if norm(x.test) == f"{j} not in {excl}"]
    r1.check(bool(once), "a point already excluded is not absorbed a second time", ex, enclosing(epm, ab[0], ast.stmt),
             f"`{norm1(ab[0])}` is not guarded by `{j} not in {excl}`: a K-point can be absorbed by two partners and its weight counted twice")
    dl = [s for s in stmts(ex.node) if isinstance(s, ast.Delete)]
    dloop = enclosing(epm, dl[0], ast.For) if dl else None
    r1.check(len(dl) == 1 and dloop is not None and excl in norm(dloop.iter) and norm(dl[0].targets[0]) == f"{klp}[{norm(dloop.target)}]",
             "exactly the excluded indices are deleted", ex, dl[0] if dl else ex.node, "the deletion loop does not delete exactly the excluded indices")
    r1.check(dloop is not None and norm(dloop.iter).replace(" ", "") in (f"sorted({excl})[-1::-1]", f"sorted({excl})[::-1]", f"sorted({excl},reverse=True)", f"reversed(sorted({excl}))"),
             "deletion runs from the highest index down (indices stay valid)", ex, dloop or ex.node,
             f"indices are deleted in the order `{norm1(dloop.iter) if dloop is not None else None}`: earlier deletions shift later indices and the "
             f"wrong K-points (with non-zero weight) are removed")

    # ---------------------------------------------------------------- R06.2
    r2 = ctx.rule("R06.2", "subdivision conserves weight and zeroes the parent", min_instances=2)
    _divide_rule(r2, idx.function(KP, "KpointBZparallel.divide"), "KpointBZparallel")
    _divide_rule(r2, idx.function(KT, "KpointBZtetra.divide"), "KpointBZtetra")
    td = idx.function(KT, "KpointBZtetra.divide")
    T = Frag(td)
    nd = "ndiv"
    ok_t = T.all(f"v0 = self.vertices[edge[0]]", f"dv = (self.vertices[edge[1]] - v0) / {nd}") and \
        bool(T.find("np.array([self.vertices[edge_comp[0]], self.vertices[edge_comp[1]], v0 + i * dv, v0 + (i + 1) * dv])")) and \
        T.all("edge = EDGES[i_edge]", "edge_comp = EDGES_COMPLEMENT[i_edge]")
    if ok_t:
        tl = [l for l in stmts(td.node) if isinstance(l, ast.For) and isinstance(l.target, ast.Name) and l.target.id == T.binding.get("i")]
        ok_t = len(tl) == 1 and norm(tl[0].iter) == f"range({nd})"
    r2.check(ok_t, "tetrahedron children: the split edge is cut into ndiv consecutive segments, the opposite edge is shared", td, td.node,
             "the sub-tetrahedra no longer tile the parent (split edge v0+i·dv … v0+(i+1)·dv with dv = edge/ndiv, opposite edge kept)",
             stmt="tetra tiling")
    pd = idx.function(KP, "KpointBZparallel.divide")
    P = Frag(pd)
    ok_p = P.all(f"dK_adpt = self.dK / {nd}", "adpt_shift = (-self.dK + dK_adpt) / 2.0", "K0 = self.K") and \
        bool(P.find("KpointBZparallel(K=K0 + adpt_shift + dK_adpt * np.array([x, y, z]), dK=dK_adpt, NKFFT=ANY, factor=ANY, pointgroup=ANY, refinement_level=ANY)"))
    if ok_p:
        order = []
        for l in stmts(pd.node):
            if isinstance(l, ast.For) and isinstance(l.target, ast.Name) and l.target.id in (P.binding.get("x"), P.binding.get("y"), P.binding.get("z")):
                m_ = pmatch(l.iter, f"range({nd}[AX])", {"AX"})
                if m_ and m_[0][0] is l.iter:
                    order.append((l.target.id, int(m_[0][1]["AX"])))
        ok_p = sorted(order) == sorted([(P.binding["x"], 0), (P.binding["y"], 1), (P.binding["z"], 2)])
    r2.check(ok_p, "parallelepiped children tile the parent cell (size dK/ndiv, centred sub-cells, index i along direction i)", pd, pd.node,
             "the sub-cells of a refined K-point no longer tile the parent cell", stmt="parallelepiped tiling")

    # ---------------------------------------------------------------- R06.3
    r3 = ctx.rule("R06.3", "absorb() adds the absorbed point's weight")
    ab_f = idx.function(KP, "KpointBZparallel.absorb")
    acfg, adu, apm = fctx(ab_f)
    r3.instance(ab_f.short)
    adds = [acfg.node(enclosing(apm, c, ast.stmt)) for c in method_calls(ab_f.node, "add_factor") if norm(c.args[0]) == "other.factor"]
    guards = [s for s in stmts(ab_f.node) if isinstance(s, ast.If) and norm(s.test) == "other is None"]
    okg = len(guards) == 1 and len(guards[0].body) == 1 and isinstance(guards[0].body[0], ast.Return)
    # every normal exit except the guard's return passes add_factor
    rets = [acfg.node(s) for s in stmts(ab_f.node) if isinstance(s, ast.Return)]
    guard_ret = acfg.node(guards[0].body[0]) if okg else None
    ok = bool(adds) and okg and not acfg.reachable(acfg.entry, [acfg.exit], avoiding=adds + ([guard_ret] if guard_ret is not None else []))
    r3.check(ok, "every non-guard path through absorb() passes add_factor(other.factor)", ab_f, ab_f.node,
             "absorb() can return without adding the absorbed point's weight", stmt="absorb paths",
             path=acfg.describe_path(acfg.path_avoiding(acfg.entry, acfg.exit, adds + ([guard_ret] if guard_ret is not None else [])) or []))
    kb = idx.cls(KP, "KpointBZ")
    af, sf = kb.methods["add_factor"], kb.methods["set_factor"]
    r3.check(bool(pmatch(af.node, f"self.factor += {af.params[1]}") or pmatch(af.node, f"self.factor = self.factor + {af.params[1]}")) and bool(pmatch(sf.node, f"self.factor = {sf.params[1]}")),
             "add_factor / set_factor do what their names say", kb.methods["add_factor"], kb.methods["add_factor"].node,
             "KpointBZ.add_factor/set_factor changed meaning", stmt="add/set")
    r3.check(bool(pmatch(kb.methods["get_result_factor"].node, "return self.get_result() * self.factor") or pmatch(kb.methods["get_result_factor"].node, "return self.factor * self.get_result()")),
             "a K-point contributes result × factor",
             kb.methods["get_result_factor"], kb.methods["get_result_factor"].node, "get_result_factor is not result × factor", stmt="result×factor")

    # ---------------------------------------------------------------- R06.4
    r4 = ctx.rule("R06.4", "tetrahedral grids: normalised initial weights; copies keep the weight", min_instances=2)
    gi = idx.function(GT, "GridTetra.__init__")
    r4.instance(gi.short)
    icfg, idu, ipm = fctx(gi)
    tc_ = [c for c in ast.walk(gi.node) if isinstance(c, ast.Call) and call_name(c) == "KpointBZtetra"]
    okz = False
    wname = None
    if len(tc_) == 1:
        fl = enclosing(ipm, tc_[0], ast.For)
        fv = kwarg(tc_[0], "factor")
        vv = kwarg(tc_[0], "vertices")
        if fl is not None and isinstance(fl.target, ast.Tuple) and len(fl.target.elts) == 2 and fv is not None and vv is not None:
            m_ = pmatch(fl.iter, "zip(TT, WW)", {"TT", "WW"})
            okz = bool(m_) and m_[0][0] is fl.iter and norm(vv) == norm(fl.target.elts[0]) and norm(fv) == norm(fl.target.elts[1])
            wname = m_[0][1]["WW"] if m_ else None
    r4.check(okz, "each initial tetrahedron gets its own weight", gi, tc_[0] if tc_ else gi.node,
             "initial tetrahedra are not paired with their weights (zip(tetrahedra, weights) → vertices, factor)", stmt="zip weights")
    wdefs = [d_ for ds in idu.defs_at.values() for d_ in ds if wname and d_.name == wname and d_.kind == "assign"]
    r4.note("weights definitions: " + " | ".join(norm1(d_.stmt, 80) for d_ in wdefs))
    oknorm = any(bool(pmatch(d_.value, "V_ / sum(V_)", {"V_"}) or pmatch(d_.value, "V_ / V_.sum()", {"V_"}) or pmatch(d_.value, "V_ / np.sum(V_)", {"V_"})) for d_ in wdefs)
    r4.check(oknorm, "default initial weights are the tetrahedron volumes normalised by their sum", gi, wdefs[0].stmt if wdefs else gi.node,
             "the initial tetrahedron weights are no longer divided by their sum", stmt="normalisation")
    gk = idx.function(GT, "GridTetra.get_K_list")
    r4.instance(gk.short)
    r4.check(bool(pmatch(gk.node, "return [K_.copy() for K_ in self.K_list]", {"K_"})), "run() receives copies of all tetrahedra", gk, gk.node,
             "GridTetra.get_K_list no longer returns a copy of every tetrahedron", stmt="copies")
    cp = idx.function(KT, "KpointBZtetra.copy")
    cc = [c for c in ast.walk(cp.node) if isinstance(c, ast.Call) and call_name(c) == "KpointBZtetra"]
    kwc = {k.arg: norm(k.value) for k in cc[0].keywords} if len(cc) == 1 else {}
    r4.check(all(kwc.get(x) == f"self.{x}" for x in ("factor", "vertices", "K", "basis", "NKFFT")), "copy() carries weight, vertices, position, basis and FFT grid", cp,
             cc[0] if cc else cp.node, f"KpointBZtetra.copy does not carry over every field unchanged ({kwc})", stmt="copy fields")
    for name in ("split_tetra_size", "split_tetra_volume"):
        f = idx.function(GT, "GridTetra." + name)
        S = Frag(f)
        ifm = S.find("if ANY:\n    klist += K.divide(ndiv=2, refine=False)\nelse:\n    klist.append(K)") or \
            S.find("if ANY:\n    klist.extend(K.divide(ndiv=2, refine=False))\nelse:\n    klist.append(K)")
        okS = False
        if ifm:
            fl = enclosing(fctx(f)[2], ifm[0][0], ast.For)
            kv_ = ifm[0][1]["K"]
            okS = fl is not None and kv_ in [norm(x) for x in ([fl.target] + (list(fl.target.elts) if isinstance(fl.target, ast.Tuple) else []))] and \
                (norm(fl.iter) == "self.K_list" or bool(pmatch(fl.iter, "zip(self.K_list, ANY)"))) and S.has("klist = []") and S.has("self.K_list = klist")
        r4.check(okS, f"{name}: a tetrahedron is either split (children kept, parent dropped) or kept", f, f.node,
                 f"{name} no longer replaces a split tetrahedron by its children", stmt=name)

    # ---------------------------------------------------------------- R06.5
    kpoint_action(ctx, "R06.5")


def kpoint_action(ctx, rid: str) -> None:
    """k ↦ iTR · iInv · R k (shared by C06 and C07)."""
    idx = ctx.index
    r5 = ctx.rule(rid, "k-point action of a point-group operation carries the TR and inversion signs")
    tr = idx.function(PS, "PointSymmetry.transform_reduced_vector")
    r5.instance(tr.short)
    rv = [s_ for s_ in stmts(tr.node) if isinstance(s_, ast.Return)]
    txt = norm(rv[0].value) if rv else ""
    tcfg, tdu, tpm = fctx(tr)
    facs = set()
    if rv:
        sl, _, _ = tdu.backward_slice(rv[0].value, tcfg.node(rv[0]))
        for e in sl:
            for n in ast.walk(e):
                if isinstance(n, ast.Attribute) and is_name(n.value, "self"):
                    facs.add(n.attr)
    r5.check(len(rv) == 1 and {"iTR", "iInv", "R"} <= facs, "k ↦ iTR · iInv · R k", tr, rv[0] if rv else tr.node,
             f"`{txt}` does not multiply by both self.iTR and self.iInv: time reversal (k → −k) or inversion is not applied to k-points, so for "
             f"magnetic groups the star of a K-point — and with it the irreducible weights — is wrong", stmt=f"return {txt}")
    ini = idx.function(PS, "PointSymmetry.__init__")
    sgn = {}
    for s_ in stmts(ini.node):
        if isinstance(s_, ast.Assign) and norm(s_.targets[0]) in ("self.iTR", "self.iInv"):
            flag = {"self.iTR": "TR", "self.iInv": "Inv"}[norm(s_.targets[0])]
            v = s_.value
            sgn[flag] = isinstance(v, ast.IfExp) and ((norm(v.test) == f"self.{flag}" and const_of(v.body) == -1 and const_of(v.orelse) == 1)
                                                      or (norm(v.test) == f"not self.{flag}" and const_of(v.body) == 1 and const_of(v.orelse) == -1)) \
                or norm(v).replace(" ", "") in (f"1-2*self.{flag}", f"(-1)**self.{flag}", f"1-2*int(self.{flag})")
    r5.check(sgn.get("TR") is True and sgn.get("Inv") is True, "iTR / iInv are −1 exactly for TR / improper operations", ini, ini.node,
             "iTR / iInv are no longer −1 for time-reversal / improper operations", stmt="iTR iInv")
    st = idx.function(PS, "PointGroup.star")
    kp_ = st.params[1]
    r5.check(bool(pmatch(st.node, f"[S_.transform_reduced_vector({kp_}, self.recip_lattice) for S_ in self.symmetries]", {"S_"})
                  or pmatch(st.node, f"(S_.transform_reduced_vector({kp_}, self.recip_lattice) for S_ in self.symmetries)", {"S_"})),
             "the star applies every operation of the group", st, st.node,
             "PointGroup.star no longer applies transform_reduced_vector of every operation", stmt="star")


from ..selftest import V  # noqa: E402

SELFTEST = [
    V("time reversal no longer flips k (seeded C06-m1)", PS, "* (self.iTR * self.iInv)", "* self.iInv", "fire", "R06.5"),
    V("refined tetrahedron keeps its weight (seeded C06-m2)", KT,
      "        self.set_factor(0)  # the K-point is \"dead\" but can be used for starting calculation on a different grid  - not implemented\n", "", "fire", "R06.2"),
    V("parallelepiped parent zeroed only when symmetry is used", KP,
      "        self.set_factor(0)  # the K-point is \"dead\" but can be used for restarting again from an intermediate refinement level\n        if use_symmetry and (self.pointgroup is not None):\n            exclude_equiv_points(K_list_add)",
      "        if use_symmetry and (self.pointgroup is not None):\n            self.set_factor(0)\n            exclude_equiv_points(K_list_add)", "fire", "R06.2"),
    V("children weight divided by ndiv[0] only", KP, "newfac = self.factor / np.prod(ndiv)", "newfac = self.factor / ndiv[0]", "fire", "R06.2"),
    V("tetra children weight not divided", KT, "factor=self.factor / ndiv,", "factor=self.factor,", "fire", "R06.2"),
    V("grid point dropped before it is absorbed", GR,
      "                                    KP.absorb(K_list[k[0]][k[1]][k[2]])\n                                    K_list[k[0]][k[1]][k[2]] = None",
      "                                    K_list[k[0]][k[1]][k[2]] = None\n                                    KP.absorb(K_list[k[0]][k[1]][k[2]])", "fire", "R06.1"),
    V("merge: absorb skipped for evaluated partners", KP,
      "                        if K_list[i].equiv(K_list[j]):\n                            exclude.append(j)\n                            K_list[i].absorb(K_list[j])",
      "                        if K_list[i].equiv(K_list[j]):\n                            exclude.append(j)\n                            if not K_list[j].was_evaluated_flag:\n                                K_list[i].absorb(K_list[j])",
      "fire", "R06.1"),
    V("deletion in ascending order", KP, "    for i in sorted(exclude)[-1::-1]:", "    for i in sorted(exclude):", "fire", "R06.1"),
    V("absorb returns early for evaluated points", KP, "                self.set_result(other.get_result())\n        self.add_factor(other.factor)",
      "                self.set_result(other.get_result())\n                return\n        self.add_factor(other.factor)", "fire", "R06.3"),
    V("tetra copy loses the weight", KT, "NKFFT=self.NKFFT, factor=self.factor, basis=self.basis,", "NKFFT=self.NKFFT, basis=self.basis,", "fire", "R06.4"),
    V("neutral: parent zeroed by assignment", KT,
      "        self.set_factor(0)  # the K-point is \"dead\" but can be used for starting calculation on a different grid  - not implemented\n",
      "        self.factor = 0\n", "silent"),
    V("neutral: descending deletion via reverse=True", KP, "    for i in sorted(exclude)[-1::-1]:", "    for i in sorted(exclude, reverse=True):", "silent"),
]
