"""C06 — K-point weights partition the Brillouin zone (conservation by construction).

R06.1 a K-point is removed only after its weight was absorbed by the retained point (initial reduction and merging).
R06.2 subdivision conserves weight: children get factor/ndiv…, their number equals the divisor, the parent is zeroed.
R06.3 absorb() adds the other point's weight on every path that does not leave at the `other is None` guard.
R06.4 tetrahedral grids: initial weights are normalised; the K-list handed to run() consists of copies carrying the weight.
R06.5 the action of a point-group operation on a k-point includes both the time-reversal and the inversion sign.
R06.6 restart: the stored factors are padded with zeros to the length of the stored K-list before they are assigned.
"""
from __future__ import annotations

import ast
from typing import Dict, List, Optional

from ..index import AnalysisError, call_name, norm, norm1
from ..sem import Sem, inline_private_helpers, reachable_helpers
from .common import Frag, calls, const_of, enclosing, enclosing_all, fctx, in_body, is_name, kwarg, method_calls, pmatch, stmts

LEVEL = "other"
EXPLANATION = (
    "Conservation rules on the code that creates, merges, splits and removes K-points: (R06.1) every removal "
    "(`K_list[…] = None`, `del K_list[i]` of an index put on the exclusion list) sits in the same block as an absorb() of "
    "exactly that element; (R06.2) in both divide() methods the children's factor is self.factor divided by an expression "
    "that equals the number of children created by the loop nest, and self.set_factor(0) lies on every path to the return "
    "(CFG must-pass); (R06.3) absorb() reaches add_factor(other.factor) on every non-guard path; (R06.4) GridTetra "
    "normalises its initial weights and copies carry them; (R06.5) the k-point action multiplies by iTR·iInv; (R06.6) on restart the factors zipped with the stored K-points are "
    "[stored | zeros(len(K_list) − len(stored))] in concatenation normal form, so points created after the restart iteration get weight 0. Decides that "
    "no code path creates or destroys weight; does not decide that symmetry images tile the grid (group geometry).")

GR = "wannierberri/grid/grid.py"
KP = "wannierberri/grid/Kpoint.py"
KT = "wannierberri/grid/Kpoint_tetra.py"
GT = "wannierberri/grid/grid_tetra.py"
PS = "wannierberri/symmetry/point_symmetry.py"


def _iter_space(S: Sem, node: ast.AST):
    """[(target text, iterable node)] of the loops / comprehension generators around `node`, outer → inner."""
    out = []
    x = node
    chain = []
    while x in S.pm:
        x = S.pm[x]
        chain.append(x)
    for p_ in reversed(chain):
        if isinstance(p_, ast.For):
            out.append((norm(p_.target), p_.iter, p_))
        elif isinstance(p_, (ast.ListComp, ast.GeneratorExp)):
            for ge in p_.generators:
                out.append((norm(ge.target), ge.iter, p_))
    return out


def _count_poly(S: Sem, iters, at: int):
    """Number of iterations as a Rat over symbols X0, X1, X2 (elements of the divisor vector) / N (scalar divisor)."""
    from ..algebra import Rat, to_rat

    def env(x):
        if isinstance(x, ast.Subscript) and isinstance(x.slice, ast.Constant) and isinstance(x.slice.value, int) and isinstance(x.value, ast.Name):
            return Rat.sym(f"{x.value.id}_{x.slice.value}")
        if isinstance(x, ast.Name):
            return Rat.sym(x.id)
        if isinstance(x, ast.Call) and call_name(x) in ("np.prod", "numpy.prod") and len(x.args) == 1 and isinstance(x.args[0], ast.Name):
            v = x.args[0].id
            return Rat.sym(f"{v}_0") * Rat.sym(f"{v}_1") * Rat.sym(f"{v}_2")
        if isinstance(x, ast.Call) and isinstance(x.func, ast.Attribute) and x.func.attr == "prod" and isinstance(x.func.value, ast.Name) and not x.args:
            v = x.func.value.id
            return Rat.sym(f"{v}_0") * Rat.sym(f"{v}_1") * Rat.sym(f"{v}_2")
        return None
    total = Rat.const(1)
    for tg, it, _ in iters:
        if isinstance(it, ast.Call) and call_name(it) == "range" and len(it.args) == 1:
            total = total * to_rat(S.resolve(it.args[0], at), env)
        elif isinstance(it, ast.Call) and call_name(it) in ("np.ndindex", "numpy.ndindex") and len(it.args) == 1 and isinstance(it.args[0], ast.Starred) \
                and isinstance(it.args[0].value, ast.Name):
            v = it.args[0].value.id
            total = total * Rat.sym(f"{v}_0") * Rat.sym(f"{v}_1") * Rat.sym(f"{v}_2")
        else:
            raise AnalysisError(f"child loop is neither range(n) nor np.ndindex(*n): {norm1(it)}")
    return total, env


def _child_ctor(S: Sem, f, child_cls: str):
    """[(site in f, constructor call in the caller's terms)] — the child constructor written in divide() itself, or reached through a
    private helper whose body is temporaries + `return Child(...)` (β-reduced at the call site)."""
    out = []
    for c in ast.walk(f.node):
        if not isinstance(c, ast.Call):
            continue
        if call_name(c) == child_cls:
            out.append((c, c))
            continue
        nm = c.func.id if isinstance(c.func, ast.Name) else c.func.attr if isinstance(c.func, ast.Attribute) and isinstance(c.func.value, ast.Name) \
            and c.func.value.id in ("self", "cls") else None
        if nm and nm.startswith("_") and not nm.startswith("__"):
            bound = set()
            x = c
            while x in S.pm:
                x = S.pm[x]
                if isinstance(x, (ast.ListComp, ast.GeneratorExp, ast.SetComp, ast.DictComp)):
                    bound |= {n.id for g in x.generators for n in ast.walk(g.target) if isinstance(n, ast.Name)}
                elif isinstance(x, ast.For):
                    bound |= {n.id for n in ast.walk(x.target) if isinstance(n, ast.Name)}
            saved = S.keep_names
            S.keep_names = saved | bound
            try:
                inl = S._inline_in_comp(c, S.du.node_of_expr(c), 8, set(), False, bound)
            except AnalysisError:
                inl = None
            finally:
                S.keep_names = saved
            if isinstance(inl, ast.Call) and call_name(inl) == child_cls:
                out.append((c, inl))
    return out


def _divide_rule(rule, f, child_cls: str, idx=None) -> None:
    from ..algebra import Rat, to_rat
    S = Sem(idx, f)
    cfg, du, pm = S.cfg, S.du, S.pm
    rule.instance(f.short)
    ctor = _child_ctor(S, f, child_cls)
    if len(ctor) != 1:
        raise AnalysisError(f"{f.short}: expected one {child_cls}(…) child constructor (in it or in a private helper it calls), found {len(ctor)}")
    c, cexp = ctor[0]
    cst = enclosing(pm, c, ast.stmt)
    at = cfg.node(cst)
    fac = kwarg(cexp, "factor")
    if fac is None:
        rule.violation(f, c, "children are created without a factor (default weight 1 each)", stmt="factor missing")
        return
    facv = S.resolve(fac, at)
    iters = _iter_space(S, c)
    try:
        count, env = _count_poly(S, iters, at)
    except AnalysisError as e_:
        raise AnalysisError(f"{f.short}: {e_}")
    ok = False
    div = None
    if isinstance(facv, ast.BinOp) and isinstance(facv.op, ast.Div) and norm(facv.left) == "self.factor":
        div = norm(facv.right)
        try:
            ok = to_rat(facv.right, env).equals(count)
        except AnalysisError:
            ok = False
    rule.check(ok, f"children: iteration space {[norm1(it, 30) for _, it, _ in iters]}, each with factor self.factor / {div}", f, c,
               f"the children created over {[norm1(it, 40) for _, it, _ in iters]} get factor `{norm1(facv)}`: their weights do not add up to "
               f"the parent's weight (total weight changes at every refinement)")
    zero = [cfg.node(enclosing(pm, z, ast.stmt)) for z in method_calls(f.node, "set_factor")
            if is_name(z.func.value, "self") and z.args and norm(z.args[0]) == "0"]
    zero += [cfg.node(s) for s in stmts(f.node) if isinstance(s, ast.Assign) and norm(s.targets[0]) == "self.factor" and norm(s.value) in ("0", "0.0")]
    cnode = cfg.node(cst)
    okz = bool(zero) and cfg.must_pass(cnode, zero)
    rule.check(okz, "the parent's weight is set to 0 on every path after its children were created", f, cst,
               f"{f.qualname} creates children carrying the parent's weight but does not zero the parent (`self.set_factor(0)`) on every "
               f"path to the return: the refined cell keeps its full weight next to its sub-cells and is counted twice",
               path=cfg.describe_path(cfg.path_avoiding(cnode, cfg.exit, zero) or []))
    rets = [s for s in stmts(f.node) if isinstance(s, ast.Return) and s.value is not None]
    lst = None
    for a in ast.walk(cst):
        if isinstance(a, ast.Call) and isinstance(a.func, ast.Attribute) and a.func.attr == "append" and any(x is c for x in ast.walk(a)):
            lst = norm(a.func.value)
    if lst is None and isinstance(cst, ast.Assign) and isinstance(cst.targets[0], ast.Name) and isinstance(cst.value, (ast.ListComp,)) and cst.value.elt is c:
        lst = cst.targets[0].id
    rule.check(lst is not None and all(norm(r.value) == lst for r in rets), "all children are returned", f, rets[0] if rets else f.node,
               f"divide() collects its children in `{lst}` but returns `{norm1(rets[0].value) if rets else None}`")


def restart_weights(ctx) -> None:
    """R06.6 — on restart every K-point of the stored list gets a weight: its stored factor, or 0 when it was created after the
    iteration restarted from (otherwise it keeps the pickled weight next to its re-activated parent: Σ weights > 1)."""
    from ..algebra import Rat, to_rat
    from ..sem import seq_segments
    idx = ctx.index
    r6 = ctx.rule("R06.6", "restart: every stored K-point receives a weight (stored factor, or 0 for later points)")
    runf = idx.function("wannierberri/run_grid.py", "run")
    RS = Sem(idx, runf)
    sites = []
    for c in method_calls(runf.node, "set_factor"):
        st = enclosing(RS.pm, c, ast.stmt)
        if any(t_ == "restart" and p_ for t_, p_, _ in RS.conditions(st, resolve=False)) and len(c.args) == 1:
            sites.append((c, st))
    r6.expect(len(sites) == 1, "restart weight assignment located", runf, runf.node,
              f"run(): expected one `Kp.set_factor(…)` in the restart branch, found {len(sites)}")
    if len(sites) != 1:
        return
    c, st = sites[0]
    r6.instance(f"{runf.short}: {norm1(st)}")
    lp = enclosing(RS.pm, c, ast.For)
    if lp is None:
        r6.expect(False, "", runf, st, "run(): the restart weights are not assigned in a loop over the stored K-points")
        return
    it = lp.iter
    if isinstance(it, ast.Call) and call_name(it) == "enumerate" and it.args:
        it = it.args[0]
    at = RS.cfg.node(lp)
    ok, why = False, ""
    if isinstance(it, ast.Call) and call_name(it) in ("zip_longest", "itertools.zip_longest") and len(it.args) == 2:
        fv = kwarg(it, "fillvalue", 99)
        ok = fv is not None and const_of(fv) in (0, 0.0)
        why = "zip_longest without fillvalue=0"
    elif isinstance(it, ast.Call) and call_name(it) == "zip" and len(it.args) == 2:
        A, B = it.args
        segs = seq_segments(RS, B, at)

        def env(x):
            if isinstance(x, ast.Call) and call_name(x) == "len" and len(x.args) == 1:
                return Rat.sym("len:" + norm(x.args[0]))
            if isinstance(x, ast.Attribute) and x.attr == "size":
                return Rat.sym("len:" + norm(x.value))
            if isinstance(x, ast.Subscript) and isinstance(x.value, ast.Attribute) and x.value.attr == "shape" and norm(x.slice) == "0":
                return Rat.sym("len:" + norm(x.value.value))
            return None
        why = f"the stored factors `{norm1(B)}` are zipped with `{norm1(A)}` without being padded to its length: zip() stops at the shorter one"
        if segs is not None and len(segs) == 2 and segs[0][0] == "seq" and segs[1][0] == "seq":
            F, Z = segs[0][1], segs[1][1]
            if isinstance(Z, ast.Call) and call_name(Z) in ("np.zeros", "numpy.zeros") and Z.args:
                try:
                    RS.keep_names = {n2.id for n2 in ast.walk(A) if isinstance(n2, ast.Name)} | {n2.id for n2 in ast.walk(F) if isinstance(n2, ast.Name)}
                    n_ = to_rat(RS.resolve(Z.args[0], segs[1][2]) if any(Z.args[0] is x for x in ast.walk(runf.node)) else Z.args[0], env)
                    RS.keep_names = set()
                    ok = n_.equals(Rat.sym("len:" + norm(A)) - Rat.sym("len:" + norm(F)))
                except AnalysisError:
                    ok = False
                why = f"the padding `{norm1(Z)}` is not len({norm1(A)}) − len({norm1(F)}) zeros"
    else:
        r6.expect(False, "", runf, lp, f"run(): restart loop over `{norm1(lp.iter)}` is neither zip(K_list, factors) nor zip_longest(…, fillvalue=0)")
        return
    r6.check(ok, "stored factors are padded with zeros to the length of the stored K-list before they are assigned", runf, lp,
             f"restart: {why}; K-points created after the restart iteration keep their pickled non-zero weight while their parents are "
             f"re-activated, so the weights no longer sum to one", stmt="restart padding")


def _flat_grid_rule(r1, idx, g, GS) -> bool:
    """R06.1 for an initial grid kept as ONE flat list addressed by the linear index i = x·s0 + y·s1 + z·s2 with the mixed-radix strides
    s = (div1·div2, div2, 1).  False if get_K_list is not of this form."""
    from ..algebra import Rat, to_rat
    cfg, du, pm = GS.cfg, GS.du, GS.pm
    drops = [s_ for s_ in stmts(g.node) if isinstance(s_, ast.Assign) and isinstance(s_.value, ast.Constant) and s_.value.value is None
             and isinstance(s_.targets[0], ast.Subscript) and isinstance(s_.targets[0].value, ast.Name) and not isinstance(s_.targets[0].slice, (ast.Slice, ast.Tuple))]
    if len(drops) != 1:
        return False
    d = drops[0]
    kl = d.targets[0].value.id
    img = norm(d.targets[0].slice)
    r1.instance(f"{g.short}: {norm1(d)} (flat grid list)")
    blk = next(b_ for b_ in (getattr(pm[d], "body", []), getattr(pm[d], "orelse", [])) if d in b_)
    i = blk.index(d)
    prev = blk[i - 1] if i > 0 else None
    okp = isinstance(prev, ast.Expr) and isinstance(prev.value, ast.Call) and isinstance(prev.value.func, ast.Attribute) \
        and prev.value.func.attr == "absorb" and prev.value.args and norm(prev.value.args[0]) == norm(d.targets[0])
    r1.check(okp, "the dropped grid point is the one just absorbed", g, d,
             f"`{norm1(d)}` removes a grid point whose weight was not transferred by an immediately preceding `.absorb({norm1(d.targets[0])})`")
    if not okp:
        return True
    kpv = norm(prev.value.func.value)
    at_d = cfg.node(d)
    own_d = du.single_def(kpv, at_d) if kpv.isidentifier() else None
    own_e = own_d.value if own_d is not None and own_d.kind == "assign" else None
    if not (isinstance(own_e, ast.Subscript) and norm(own_e.value) == kl):
        r1.expect(False, "", g, d, "get_K_list (flat grid): the absorbing K-point is not an element of the same list")
        return True
    own = own_e.slice

    # symbols: components of self.div
    def env(x):
        t = norm(x).replace(" ", "")
        for k_ in range(3):
            if t == f"self.div[{k_}]":
                return Rat.sym(f"d{k_}")
        if isinstance(x, ast.Subscript) and isinstance(x.slice, ast.Constant) and isinstance(x.slice.value, int):
            b_ = GS.resolve(x.value, env.at) if isinstance(x.value, ast.Name) else x.value
            if isinstance(b_, ast.Call) and call_name(b_) in ("np.array", "np.asarray") and b_.args and isinstance(b_.args[0], (ast.List, ast.Tuple)) \
                    and x.slice.value < len(b_.args[0].elts):
                return to_rat(b_.args[0].elts[x.slice.value], env)
        if isinstance(x, ast.Name):
            r_ = GS.resolve(x, env.at)
            if isinstance(r_, ast.Subscript) and norm(r_.value) == "self.div" and isinstance(r_.slice, ast.Constant):
                return Rat.sym(f"d{r_.slice.value}")
            if isinstance(r_, ast.Constant) and isinstance(r_.value, int):
                return Rat.const(r_.value)
            return Rat.sym(x.id)
        return None
    env.at = at_d
    conds = GS.conditions(d, resolve=False)
    # guard clauses `if <test>: continue` earlier in the enclosing loop bodies hold negated from there on
    for l_ in enclosing_all(pm, d, ast.For):
        for st_ in l_.body:
            if st_.lineno >= d.lineno:
                break
            if isinstance(st_, ast.If) and not st_.orelse and len(st_.body) == 1 and isinstance(st_.body[0], ast.Continue):
                conds = list(conds) + [(norm(st_.test), False, st_.test)]
    own_t = norm(own)
    self_excl = any((pol is False and txt.replace(" ", "") in (f"{img}=={own_t}", f"{own_t}=={img}")) or
                    (pol is True and txt.replace(" ", "") in (f"{img}!={own_t}", f"{own_t}!={img}")) for txt, pol, _ in conds)
    r1.check(self_excl, "a point never absorbs / drops itself", g, d, f"the self-image is not excluded (no test `{img} != {own_t}` guards the drop)")
    live = any(pol is False and txt.replace(" ", "") in (f"{kpv}isNone", f"{kl}[{own_t}]isNone") for txt, pol, _ in conds) or \
        any(pol is True and txt.replace(" ", "") in (f"{kpv}isnotNone", f"{kl}[{own_t}]isnotNone") for txt, pol, _ in conds)
    r1.check(live, "the absorbing point is a grid point that is still present", g, d, "the absorbing K-point may already have been dropped (no `is not None` test)")
    # strides
    sloop = enclosing(pm, d, ast.For)
    star_ok = False
    strides = None
    if sloop is not None and isinstance(sloop.target, ast.Name) and sloop.target.id == img:
        GS.keep_names = {kpv}
        it_ = GS.resolve(sloop.iter, cfg.node(sloop))
        GS.keep_names = set()
        for pat in ("ST_ @ SV_", "ST_.dot(SV_)", "np.dot(ST_, SV_)"):
            m_ = pmatch(it_, pat, {"ST_", "SV_"})
            if m_ and m_[0][0] is it_:
                st_txt, sv_txt = m_[0][1]["ST_"], m_[0][1]["SV_"]
                star_ok = any(x in st_txt for x in (f"np.round({kpv}.star * self.div)", f"np.rint({kpv}.star * self.div)")) and "% self.div" in st_txt and "int" in st_txt
                sv = ast.parse(sv_txt, mode="eval").body
                if isinstance(sv, ast.Call) and call_name(sv) in ("np.array", "np.asarray") and sv.args and isinstance(sv.args[0], (ast.List, ast.Tuple)) and len(sv.args[0].elts) == 3:
                    try:
                        strides = [to_rat(e_, env) for e_ in sv.args[0].elts]
                    except AnalysisError:
                        strides = None
    r1.check(star_ok, "images are the star of the point, in integer grid coordinates folded onto the grid, turned into list positions by the strides", g, sloop or d,
             "symmetry images are no longer (round(KP.star · div) mod div) · strides", stmt="star")
    d0, d1, d2 = Rat.sym("d0"), Rat.sym("d1"), Rat.sym("d2")
    ok_str = strides is not None and strides[0].equals(d1 * d2) and strides[1].equals(d2) and strides[2].equals(Rat.const(1))
    r1.check(ok_str, "strides = (div1·div2, div2, 1): list position ↔ grid point is one-to-one", g, sloop or d,
             f"the strides {[str(x) for x in strides] if strides else None} are not the mixed-radix strides of a div0 × div1 × div2 grid: two grid points share a list position")
    # the absorbing point's position is x·s0 + y·s1 + z·s2 with (x, y, z) running over the whole grid
    ok_own = False
    loops = [l for l in enclosing_all(pm, d, ast.For) if l is not sloop]
    if strides is not None and loops:
        lp = loops[-1] if len(loops) == 1 else None
        binds = {}
        if lp is not None and isinstance(lp.iter, ast.Call) and call_name(lp.iter) == "np.ndindex" and isinstance(lp.target, ast.Tuple) and len(lp.target.elts) == 3 == len(lp.iter.args):
            for t_, a_ in zip(lp.target.elts, lp.iter.args):
                env.at = cfg.node(lp)
                try:
                    binds[norm(t_)] = to_rat(a_, env)
                except AnalysisError:
                    pass
        elif len(loops) == 3:
            for l in loops:
                m_ = pmatch(GS.resolve(l.iter, cfg.node(l)), "range(self.div[AX])", {"AX"})
                if m_ and isinstance(l.target, ast.Name):
                    binds[l.target.id] = Rat.sym(f"d{m_[0][1]['AX']}")
        if len(binds) == 3:
            env.at = at_d
            own_r = None
            try:
                own_d2 = du.single_def(own.id, at_d) if isinstance(own, ast.Name) else None
                own_x = own_d2.value if own_d2 is not None and own_d2.kind == "assign" and own_d2.value is not None else own
                own_r = to_rat(own_x, lambda x: Rat.sym(x.id) if isinstance(x, ast.Name) and x.id in binds else env(x))
            except AnalysisError:
                own_r = None
            by_size = {}
            for k_, v_ in binds.items():
                for q_ in ("d0", "d1", "d2"):
                    if v_.equals(Rat.sym(q_)):
                        by_size[q_] = k_
            if own_r is not None and all(k_ in by_size for k_ in ("d0", "d1", "d2")):
                want = Rat.sym(by_size["d0"]) * strides[0] + Rat.sym(by_size["d1"]) * strides[1] + Rat.sym(by_size["d2"]) * strides[2]
                ok_own = own_r.equals(want)
    r1.check(ok_own, "every grid point (x, y, z) is visited as absorbing point at list position x·s0 + y·s1 + z·s2", g, d,
             "the symmetry reduction does not visit every grid point at its own list position")
    # creation order = list position
    ctor = [c for c in ast.walk(g.node) if isinstance(c, ast.Call) and call_name(c) == "KpointBZparallel"]
    okc = False
    if len(ctor) == 1:
        fv = kwarg(ctor[0], "factor")
        fv = GS.resolve(fv, du.node_of_expr(ctor[0])) if fv is not None else None
        okf = fv is not None and bool(pmatch(fv, "1.0 / np.prod(self.div)") or pmatch(fv, "1 / np.prod(self.div)") or pmatch(fv, "1.0 / self.div.prod()"))
        comp = [n for n in ast.walk(g.node) if isinstance(n, ast.ListComp) and any(x is ctor[0] for x in ast.walk(n))]
        okK = False
        if len(comp) == 1 and len(comp[0].generators) == 1 and isinstance(comp[0].generators[0].iter, ast.Call) and call_name(comp[0].generators[0].iter) == "np.ndindex" \
                and len(comp[0].generators[0].iter.args) == 3 and not comp[0].generators[0].ifs:
            env.at = du.node_of_expr(ctor[0])
            try:
                sizes = [to_rat(a_, env) for a_ in comp[0].generators[0].iter.args]
            except AnalysisError:
                sizes = []
            tv = norm(comp[0].generators[0].target)
            kk = kwarg(ctor[0], "K")
            okK = len(sizes) == 3 and all(sizes[k_].equals(Rat.sym(f"d{k_}")) for k_ in range(3)) and kk is not None and bool(pmatch(kk, f"np.array({tv}) * DK", {"DK"}))
        okc = okf and okK
    r1.check(okc, "initial grid: prod(div) points created in C order over (div0, div1, div2) — creation order equals the stride address — each of weight 1/prod(div)",
             g, ctor[0] if ctor else g.node, "the initial grid is no longer prod(div) points of weight 1/prod(div) created in the order the strides address", stmt="initial weights")
    flat = [s_ for s_ in stmts(g.node) if isinstance(s_, ast.Assign) and pmatch(s_.value, f"[K_ for K_ in {kl} if K_ is not None]", {"K_"})
            and pmatch(s_.value, f"[K_ for K_ in {kl} if K_ is not None]", {"K_"})[0][0] is s_.value]
    rets1 = [s_ for s_ in stmts(g.node) if isinstance(s_, ast.Return)]
    r1.check(len(flat) == 1 and len(rets1) == 1 and norm(rets1[0].value) == norm(flat[0].targets[0]) and cfg.dominates(cfg.node(flat[0]), cfg.node(rets1[0])),
             "the returned list keeps exactly the points that were not dropped", g, flat[0] if flat else g.node,
             "the final K-list is not 'all grid points that were not dropped'", stmt="flatten")
    return True


def run(ctx) -> None:
    idx = ctx.index

    # ---------------------------------------------------------------- R06.1
    r1 = ctx.rule("R06.1", "weight is absorbed before a K-point is dropped", min_instances=2)
    g = idx.function(GR, "Grid.get_K_list")
    cfg, du, pm = fctx(g)
    GSem = Sem(idx, g)
    sites = []
    for h in [g] + reachable_helpers(idx, g):
        for s_ in stmts(h.node):
            if isinstance(s_, ast.Assign) and const_of(s_.value) is None and isinstance(s_.value, ast.Constant) and isinstance(s_.targets[0], ast.Subscript) \
                    and isinstance(s_.targets[0].value, ast.Subscript) and isinstance(s_.targets[0].value.value, ast.Subscript):
                sites.append((h, s_))
    def _nested_rule(h, d):
        HS = Sem(idx, h)
        HS._caller_done = True     # reason in terms of the helper's own parameters
        hpm = HS.pm
        r1.instance(f"{h.short}: {norm1(d)}")
        blk = next(b_ for b_ in (getattr(hpm[d], "body", []), getattr(hpm[d], "orelse", [])) if d in b_)
        i = blk.index(d)
        prev = blk[i - 1] if i > 0 else None
        okp = isinstance(prev, ast.Expr) and isinstance(prev.value, ast.Call) and isinstance(prev.value.func, ast.Attribute) \
            and prev.value.func.attr == "absorb" and prev.value.args and norm(prev.value.args[0]) == norm(d.targets[0])
        r1.check(okp, "the dropped grid point is the one just absorbed", h, d,
                 f"`{norm1(d)}` removes a grid point whose weight was not transferred by an immediately preceding `.absorb({norm1(d.targets[0])})`: "
                 f"the weights of the irreducible points no longer sum to one")
        at_d = HS.cfg.node(d)

        def coords(e):
            """(list text, [i0, i1, i2] resolved index texts) of X[i0][i1][i2]"""
            r_ = HS.resolve(e, at_d)
            if isinstance(r_, ast.Subscript) and isinstance(r_.value, ast.Subscript) and isinstance(r_.value.value, ast.Subscript):
                return norm(r_.value.value.value), [norm(r_.value.value.slice), norm(r_.value.slice), norm(r_.slice)]
            return None, None

        def as_tuple_base(ix):
            """T if ix = [T[0], T[1], T[2]], else the tuple text (a, b, c)"""
            if ix and all(x.endswith(f"[{k}]") for k, x in enumerate(ix)) and len({x[:-3] for x in ix}) == 1:
                return ix[0][:-3]
            return "(" + ", ".join(ix) + ")" if ix else None
        kl, img = coords(d.targets[0])
        kpv = norm(prev.value.func.value) if okp else None
        own_l, own = coords(ast.Name(id=kpv, ctx=ast.Load())) if kpv and kpv.isidentifier() else (None, None)
        r1.expect(kl is not None and own is not None and own_l == kl, "absorbing point and dropped image are elements of the same nested grid list", h, d,
                  "get_K_list: could not express the absorbing K-point and the dropped image as elements X[a][b][c] of one list")
        if kl is None or own is None:
            return
        conds = HS.conditions(d)
        T, O = as_tuple_base(img), as_tuple_base(own)
        self_excl = any(pol is False and txt in (f"{T} == {O}", f"{O} == {T}") for txt, pol, _ in conds)
        r1.check(self_excl, "a point never absorbs / drops itself", h, d, f"the self-image of a K-point is not excluded (no test `{T} != {O}` guards the drop): it would absorb itself and be dropped")
        live = any(pol is False and txt.endswith(" is None") and HS.rnorm(ast.parse(txt[:-8], mode="eval").body, at_d) == f"{kl}[{own[0]}][{own[1]}][{own[2]}]" for txt, pol, _ in conds) or \
            any(pol is False and txt == f"{kl}[{own[0]}][{own[1]}][{own[2]}] is None" for txt, pol, _ in conds)
        r1.check(live, "the absorbing point is a grid point that is still present", h, d, "the absorbing K-point may already have been dropped (no `is not None` test)")
        sloop = enclosing(hpm, d, ast.For)
        star_ok = False
        if sloop is not None:
            it_ = HS.resolve(sloop.iter, HS.cfg.node(sloop))
            txt_ = norm(it_)
            kpe = f"{kl}[{own[0]}][{own[1]}][{own[2]}]"
            star_ok = any(x in txt_ for x in (f"np.round({kpv}.star * self.div)", f"np.rint({kpv}.star * self.div)", f"np.round({kpe}.star * self.div)",
                                              f"np.rint({kpe}.star * self.div)")) and "% self.div" in txt_ and "int" in txt_ \
                and norm(sloop.target) in (T, ) + tuple([T] if T else [])
        r1.check(star_ok, "images are the star of the point, in integer grid coordinates folded onto the grid", h, sloop or d,
                 "symmetry images are no longer round(KP.star · div) mod div", stmt="star")
        # every grid point (x, y, z) gets its turn
        anchor = d
        own_in_g = own
        if h is not g:
            calls_h = [c for c in ast.walk(g.node) if isinstance(c, ast.Call) and (norm(c.func).endswith("." + h.name) or norm(c.func) == h.name)]
            r1.expect(len(calls_h) == 1, "helper call located", g, g.node, f"get_K_list: single call of {h.name} not found")
            if len(calls_h) != 1:
                return
            anchor = calls_h[0]
            PS2 = Sem(idx, h, caller=(GSem, calls_h[0]))
            _, own_in_g = (lambda r_: (None, [norm(r_.value.value.slice), norm(r_.value.slice), norm(r_.slice)]) if isinstance(r_, ast.Subscript) and isinstance(r_.value, ast.Subscript) and
                           isinstance(r_.value.value, ast.Subscript) else (None, None))(PS2.simplify(PS2.resolve(ast.Name(id=kpv, ctx=ast.Load()), PS2.cfg.node(d)), 0))
        lv = {}
        for l in enclosing_all(pm, anchor, ast.For) if h is g else enclosing_all(pm, anchor, ast.For):
            m_ = pmatch(GSem.resolve(l.iter, cfg.node(l)), "range(self.div[AX])", {"AX"})
            if m_ and isinstance(l.target, ast.Name):
                lv[int(m_[0][1]["AX"])] = l.target.id
        r1.check(sorted(lv) == [0, 1, 2] and own_in_g == [lv[0], lv[1], lv[2]], "every grid point (x, y, z), x < div[0], y < div[1], z < div[2], is visited as absorbing point", g, anchor,
                 f"the symmetry reduction does not visit every grid point K[x][y][z] over range(div[0]) × range(div[1]) × range(div[2]) (loops {lv}, point {own_in_g})")
        kl_g = kl
        if h is not g:
            S3 = Sem(idx, h, caller=(GSem, calls_h[0]))
            b3 = S3._caller[2] if S3._caller else {}
            kl_g = norm(b3[kl]) if kl in b3 else kl
        ctor = [c for c in ast.walk(g.node) if isinstance(c, ast.Call) and call_name(c) == "KpointBZparallel"]
        okc = False
        if len(ctor) == 1:
            fv = kwarg(ctor[0], "factor")
            fv = GSem.resolve(fv, du.node_of_expr(ctor[0])) if fv is not None else None
            okf = fv is not None and bool(pmatch(fv, "1.0 / np.prod(self.div)") or pmatch(fv, "1 / np.prod(self.div)") or pmatch(fv, "1.0 / self.div.prod()"))
            comp = [n for n in ast.walk(g.node) if isinstance(n, ast.ListComp) and any(x is ctor[0] for x in ast.walk(n))]
            gens = {}
            for n in comp:
                for ge in n.generators:
                    m_ = pmatch(GSem.resolve(ge.iter, du.node_of_expr(ctor[0])), "range(self.div[AX])", {"AX"})
                    if m_ and isinstance(ge.target, ast.Name) and not ge.ifs:
                        gens[int(m_[0][1]["AX"])] = ge.target.id
            kk = kwarg(ctor[0], "K")
            okK = sorted(gens) == [0, 1, 2] and kk is not None and bool(pmatch(kk, f"np.array([{gens.get(0)}, {gens.get(1)}, {gens.get(2)}]) * DK", {"DK"}))
            okc = okf and okK
        r1.check(okc, "initial grid: prod(div) points (x, y, z)·dK, each of weight 1/prod(div)", g, ctor[0] if ctor else g.node,
                 "the initial grid is no longer prod(div) points of weight 1/prod(div)", stmt="initial weights")
        flat = [s_ for s_ in stmts(g.node) if isinstance(s_, ast.Assign) and pmatch(s_.value, f"[K_ for A_ in {kl_g} for B_ in A_ for K_ in B_ if K_ is not None]", {"K_", "A_", "B_"})
                and pmatch(s_.value, f"[K_ for A_ in {kl_g} for B_ in A_ for K_ in B_ if K_ is not None]", {"K_", "A_", "B_"})[0][0] is s_.value]
        rets1 = [s_ for s_ in stmts(g.node) if isinstance(s_, ast.Return)]
        r1.check(len(flat) == 1 and len(rets1) == 1 and norm(rets1[0].value) == norm(flat[0].targets[0]) and cfg.dominates(cfg.node(flat[0]), cfg.node(rets1[0])),
                 "the returned list keeps exactly the points that were not dropped", g, flat[0] if flat else g.node,
                 "the final K-list is not 'all grid points that were not dropped'", stmt="flatten")

    if len(sites) == 1:
        _nested_rule(*sites[0])
    elif not sites and _flat_grid_rule(r1, idx, g, GSem):
        pass
    else:
        raise AnalysisError(f"Grid.get_K_list: expected one `K_list[a][b][c] = None` (nested grid) or one `K_list[i] = None` with a stride address (flat grid), "
                            f"in it or its private helpers; found {len(sites)} nested")
    ex = idx.function(KP, "exclude_equiv_points")
    ecfg, edu, epm = fctx(ex)
    ab = method_calls(ex.node, "absorb")
    klp = ex.params[0]
    dl0 = [s_ for s_ in stmts(ex.node) if isinstance(s_, ast.Delete)]
    dlp0 = enclosing(epm, dl0[0], ast.For) if dl0 else None
    cand_lists = {n.id for n in ast.walk(dlp0.iter) if isinstance(n, ast.Name)} if dlp0 is not None else set()
    app = [c for c in method_calls(ex.node, "append") if norm(c.func.value) in cand_lists]
    if len(app) != 1 or len(ab) != 1:
        raise AnalysisError("exclude_equiv_points: expected one absorb and one append to the list that drives the deletion loop")
    excl = norm(app[0].func.value)
    r1.instance(f"{ex.short}: {norm1(app[0])} / {norm1(ab[0])}")
    j = norm(app[0].args[0])
    same_block = enclosing(epm, app[0], ast.If) is enclosing(epm, ab[0], ast.If)
    eqg = enclosing(epm, ab[0], ast.If)
    absorber = norm(ab[0].func.value)
    eq_ok = eqg is not None and norm(eqg.test) in (f"{absorber}.equiv({klp}[{j}])", f"{klp}[{j}].equiv({absorber})")
    r1.check(eq_ok, "a point is excluded only if it is equivalent to the point that absorbs it", ex, eqg or ex.node,
             f"`{norm1(ab[0])}` is not guarded by the equivalence test of exactly these two K-points")
    r1.check(same_block and norm(ab[0].args[0]) == f"{klp}[{j}]" and absorber != f"{klp}[{j}]" and absorber.startswith(f"{klp}["),
             "every excluded point is absorbed by its partner in the same guarded block", ex, enclosing(epm, app[0], ast.stmt),
             f"index `{j}` is put on the exclusion list but `{norm1(ab[0])}` absorbs a different element: weight is lost or duplicated")
    ES = Sem(idx, ex)
    once = [1 for t_, p_, _ in ES.conditions(enclosing(epm, ab[0], ast.stmt), resolve=False) if t_ == f"{j} in {excl}" and p_ is False]
    r1.check(bool(once), "a point already excluded is not absorbed a second time", ex, enclosing(epm, ab[0], ast.stmt),
             f"`{norm1(ab[0])}` is not guarded by `{j} not in {excl}`: a K-point can be absorbed by two partners and its weight counted twice")
    dl = [s for s in stmts(ex.node) if isinstance(s, ast.Delete)]
    dloop = enclosing(epm, dl[0], ast.For) if dl else None
    r1.check(len(dl) == 1 and dloop is not None and excl in norm(dloop.iter) and norm(dl[0].targets[0]) == f"{klp}[{norm(dloop.target)}]",
             "exactly the excluded indices are deleted", ex, dl[0] if dl else ex.node, "the deletion loop does not delete exactly the excluded indices")
    r1.check(dloop is not None and norm(dloop.iter).replace(" ", "") in (f"sorted({excl})[-1::-1]", f"sorted({excl})[::-1]", f"sorted({excl},reverse=True)", f"reversed(sorted({excl}))"),
             "deletion runs from the highest index down (indices stay valid)", ex, dloop or ex.node,
             f"indices are deleted in the order `{norm1(dloop.iter) if dloop is not None else None}`: earlier deletions shift later indices and the "
             f"wrong K-points (with non-zero weight) are removed")

    # ---------------------------------------------------------------- R06.2
    r2 = ctx.rule("R06.2", "subdivision conserves weight and zeroes the parent", min_instances=2)
    _divide_rule(r2, idx.function(KP, "KpointBZparallel.divide"), "KpointBZparallel", idx)
    _divide_rule(r2, idx.function(KT, "KpointBZtetra.divide"), "KpointBZtetra", idx)
    td = idx.function(KT, "KpointBZtetra.divide")
    TS = Sem(idx, td)
    TS.subst_consts = False
    tc = [c_ for c_ in ast.walk(td.node) if isinstance(c_, ast.Call) and call_name(c_) == "KpointBZtetra"]
    ok_t = False
    if len(tc) == 1 and kwarg(tc[0], "vertices") is not None:
        at_t = TS.cfg.node(enclosing(TS.pm, tc[0], ast.stmt))
        vres = TS.resolve(kwarg(tc[0], "vertices"), at_t)

        def vertex_rows(e):
            """the rows (vertices) of the child's vertex array: np.array([r0, r1, …]) or a vertical stack of rows and row blocks; the block
            self.vertices[EDGES_COMPLEMENT[q]] is the two rows self.vertices[EDGES_COMPLEMENT[q][0]], …[1]"""
            if isinstance(e, ast.Call) and call_name(e) in ("np.array", "np.asarray") and e.args and isinstance(e.args[0], (ast.List, ast.Tuple)):
                return list(e.args[0].elts)
            if isinstance(e, ast.Call) and call_name(e) in ("np.vstack", "np.row_stack", "np.concatenate") and e.args and isinstance(e.args[0], (ast.List, ast.Tuple)):
                out = []
                for part in e.args[0].elts:
                    mm = pmatch(part, "self.vertices[EDGES_COMPLEMENT[Q_]]", {"Q_"})
                    if mm and mm[0][0] is part:
                        out += [ast.parse(f"self.vertices[EDGES_COMPLEMENT[{mm[0][1]['Q_']}][{k_}]]", mode="eval").body for k_ in (0, 1)]
                    elif isinstance(part, ast.Call) and call_name(part) in ("np.array", "np.asarray"):
                        sub = vertex_rows(part)
                        if sub is None:
                            return None
                        out += sub
                    elif call_name(e) == "np.concatenate":
                        return None
                    else:
                        out.append(part)
                return out
            return None
        rows_ = vertex_rows(vres)
        bb = None
        if rows_ is not None and len(rows_) == 4:
            import itertools
            for perm in itertools.permutations(range(4)):
                cand = ast.Call(func=ast.Name(id="ROWS", ctx=ast.Load()), args=[rows_[k_] for k_ in perm], keywords=[])
                m_ = pmatch(cand, "ROWS(self.vertices[EC_[0]], self.vertices[EC_[1]], V0_ + I_ * DV_, V0_ + (I_ + 1) * DV_)", {"EC_", "V0_", "I_", "DV_"})
                if m_ and m_[0][0] is cand:
                    bb = m_[0][1]
                    break
        if bb is not None:
            ndp = td.params[1]
            e0 = pmatch(ast.parse(bb["V0_"], mode="eval").body, "self.vertices[E_[0]]", {"E_"})
            if e0:
                E_ = e0[0][1]["E_"]
                dv_ok = bb["DV_"] in (f"(self.vertices[{E_}[1]] - self.vertices[{E_}[0]]) / {ndp}",) or \
                    TS.rnorm(ast.parse(bb["DV_"], mode="eval").body, at_t) == f"(self.vertices[{E_}[1]] - self.vertices[{E_}[0]]) / {TS.rnorm(ast.Name(id=ndp, ctx=ast.Load()), at_t)}"
                q1 = pmatch(ast.parse(E_, mode="eval").body, "EDGES[Q_]", {"Q_"})
                q2 = pmatch(ast.parse(bb["EC_"], mode="eval").body, "EDGES_COMPLEMENT[Q_]", {"Q_"})
                its = _iter_space(TS, tc[0])
                ok_t = dv_ok and bool(q1 and q2) and q1[0][1]["Q_"] == q2[0][1]["Q_"] and len(its) == 1 and its[0][0] == bb["I_"] and norm(its[0][1]) == f"range({ndp})"
    r2.check(ok_t, "tetrahedron children: the split edge is cut into ndiv consecutive segments, the opposite edge is shared", td, tc[0] if tc else td.node,
             "the sub-tetrahedra no longer tile the parent (split edge v0+i·dv … v0+(i+1)·dv with dv = edge/ndiv, opposite edge kept)",
             stmt="tetra tiling")
    pd = idx.function(KP, "KpointBZparallel.divide")
    PS = Sem(idx, pd)
    pcc = _child_ctor(PS, pd, "KpointBZparallel")
    pc = [site_ for site_, _ in pcc]
    pexp = pcc[0][1] if len(pcc) == 1 else None
    ok_p = False
    if pexp is not None and kwarg(pexp, "K") is not None and kwarg(pexp, "dK") is not None:
        from ..algebra import Rat, to_rat
        at_p = PS.cfg.node(enclosing(PS.pm, pc[0], ast.stmt))
        ndp = pd.params[1]
        its = _iter_space(PS, pc[0])
        ivec = None
        ivecs = ()
        PS.keep_names = {ndp}
        it_txt = [PS.rnorm(it, at_p) for _, it, _ in its]
        PS.keep_names = set()
        if len(its) == 3 and it_txt == [f"range({ndp}[{k}])" for k in range(3)]:
            ivec = f"np.array([{its[0][0]}, {its[1][0]}, {its[2][0]}])"
            ivecs = (ivec, f"np.array(({its[0][0]}, {its[1][0]}, {its[2][0]}))")
        elif len(its) == 1 and it_txt[0] == f"np.ndindex(*{ndp})":
            ivec = f"np.array({its[0][0]})"
            ivecs = (ivec,)

        def envp(x):
            t_ = norm(x)
            if t_ == "self.K":
                return Rat.sym("K")
            if t_ == "self.dK":
                return Rat.sym("d")
            if t_ == ndp:
                return Rat.sym("n")
            if ivec is not None and t_ in ivecs:
                return Rat.sym("i")
            return None
        try:
            PS.keep_names = {ndp} | {t_ for t_, _, _ in its}
            kk = to_rat(PS.resolve(kwarg(pexp, "K"), at_p), envp)
            dd = to_rat(PS.resolve(kwarg(pexp, "dK"), at_p), envp)
            PS.keep_names = set()
            K_, d_, n_, i_ = Rat.sym("K"), Rat.sym("d"), Rat.sym("n"), Rat.sym("i")
            ok_p = ivec is not None and dd.equals(d_ / n_) and kk.equals(K_ + (d_ / n_ - d_) / Rat.const(2) + (d_ / n_) * i_)
        except AnalysisError:
            ok_p = False
    r2.check(ok_p, "parallelepiped children tile the parent cell (size dK/ndiv, centres K − dK/2 + (i + ½) dK/ndiv, index i along direction i)", pd, pc[0] if pc else pd.node,
             "the sub-cells of a refined K-point no longer tile the parent cell", stmt="parallelepiped tiling")

    # ---------------------------------------------------------------- R06.3
    r3 = ctx.rule("R06.3", "absorb() adds the absorbed point's weight")
    ab_f = idx.function(KP, "KpointBZparallel.absorb")
    acfg, adu, apm = fctx(ab_f)
    r3.instance(ab_f.short)
    adds = [acfg.node(enclosing(apm, c, ast.stmt)) for c in method_calls(ab_f.node, "add_factor") if norm(c.args[0]) == "other.factor"]
    guards = [s for s in stmts(ab_f.node) if isinstance(s, ast.If) and norm(s.test) == "other is None"]
    okg = len(guards) == 1 and len(guards[0].body) == 1 and isinstance(guards[0].body[0], ast.Return)
    # every normal exit except the guard's return passes add_factor
    rets = [acfg.node(s) for s in stmts(ab_f.node) if isinstance(s, ast.Return)]
    guard_ret = acfg.node(guards[0].body[0]) if okg else None
    ok = bool(adds) and okg and not acfg.reachable(acfg.entry, [acfg.exit], avoiding=adds + ([guard_ret] if guard_ret is not None else []))
    r3.check(ok, "every non-guard path through absorb() passes add_factor(other.factor)", ab_f, ab_f.node,
             "absorb() can return without adding the absorbed point's weight", stmt="absorb paths",
             path=acfg.describe_path(acfg.path_avoiding(acfg.entry, acfg.exit, adds + ([guard_ret] if guard_ret is not None else [])) or []))
    kb = idx.cls(KP, "KpointBZ")
    af, sf = kb.methods["add_factor"], kb.methods["set_factor"]
    r3.check(bool(pmatch(af.node, f"self.factor += {af.params[1]}") or pmatch(af.node, f"self.factor = self.factor + {af.params[1]}")) and bool(pmatch(sf.node, f"self.factor = {sf.params[1]}")),
             "add_factor / set_factor do what their names say", kb.methods["add_factor"], kb.methods["add_factor"].node,
             "KpointBZ.add_factor/set_factor changed meaning", stmt="add/set")
    r3.check(bool(pmatch(kb.methods["get_result_factor"].node, "return self.get_result() * self.factor") or pmatch(kb.methods["get_result_factor"].node, "return self.factor * self.get_result()")),
             "a K-point contributes result × factor",
             kb.methods["get_result_factor"], kb.methods["get_result_factor"].node, "get_result_factor is not result × factor", stmt="result×factor")

    # ---------------------------------------------------------------- R06.4
    r4 = ctx.rule("R06.4", "tetrahedral grids: normalised initial weights; copies keep the weight", min_instances=2)
    gi = idx.function(GT, "GridTetra.__init__")
    r4.instance(gi.short)
    icfg, idu, ipm = fctx(gi)
    tc_ = [c for c in ast.walk(gi.node) if isinstance(c, ast.Call) and call_name(c) == "KpointBZtetra"]
    okz = False
    wname = None
    if len(tc_) == 1:
        fl = enclosing(ipm, tc_[0], ast.For)
        fv = kwarg(tc_[0], "factor")
        vv = kwarg(tc_[0], "vertices")
        if fl is not None and isinstance(fl.target, ast.Tuple) and len(fl.target.elts) == 2 and fv is not None and vv is not None:
            m_ = pmatch(fl.iter, "zip(TT, WW)", {"TT", "WW"})
            okz = bool(m_) and m_[0][0] is fl.iter and norm(vv) == norm(fl.target.elts[0]) and norm(fv) == norm(fl.target.elts[1])
            wname = m_[0][1]["WW"] if m_ else None
    r4.check(okz, "each initial tetrahedron gets its own weight", gi, tc_[0] if tc_ else gi.node,
             "initial tetrahedra are not paired with their weights (zip(tetrahedra, weights) → vertices, factor)", stmt="zip weights")
    wdefs = [d_ for ds in idu.defs_at.values() for d_ in ds if wname and d_.name == wname and d_.kind == "assign"]
    r4.note("weights definitions: " + " | ".join(norm1(d_.stmt, 80) for d_ in wdefs))
    oknorm = any(bool(pmatch(d_.value, "V_ / sum(V_)", {"V_"}) or pmatch(d_.value, "V_ / V_.sum()", {"V_"}) or pmatch(d_.value, "V_ / np.sum(V_)", {"V_"})) for d_ in wdefs)
    r4.check(oknorm, "default initial weights are the tetrahedron volumes normalised by their sum", gi, wdefs[0].stmt if wdefs else gi.node,
             "the initial tetrahedron weights are no longer divided by their sum", stmt="normalisation")
    gk = idx.function(GT, "GridTetra.get_K_list")
    r4.instance(gk.short)
    r4.check(bool(pmatch(gk.node, "return [K_.copy() for K_ in self.K_list]", {"K_"})), "run() receives copies of all tetrahedra", gk, gk.node,
             "GridTetra.get_K_list no longer returns a copy of every tetrahedron", stmt="copies")
    cp = idx.function(KT, "KpointBZtetra.copy")
    cc = [c for c in ast.walk(cp.node) if isinstance(c, ast.Call) and call_name(c) == "KpointBZtetra"]
    kwc = {k.arg: norm(k.value) for k in cc[0].keywords} if len(cc) == 1 else {}
    r4.check(all(kwc.get(x) == f"self.{x}" for x in ("factor", "vertices", "K", "basis", "NKFFT")), "copy() carries weight, vertices, position, basis and FFT grid", cp,
             cc[0] if cc else cp.node, f"KpointBZtetra.copy does not carry over every field unchanged ({kwc})", stmt="copy fields")
    for name in ("split_tetra_size", "split_tetra_volume"):
        f = inline_private_helpers(idx, idx.function(GT, "GridTetra." + name))
        S = Frag(f)
        ifm = S.find("if ANY:\n    klist += K.divide(ndiv=2, refine=False)\nelse:\n    klist.append(K)") or \
            S.find("if ANY:\n    klist.extend(K.divide(ndiv=2, refine=False))\nelse:\n    klist.append(K)")
        okS = False
        if ifm:
            fl = enclosing(fctx(f)[2], ifm[0][0], ast.For)
            kv_ = ifm[0][1]["K"]
            okS = fl is not None and kv_ in [norm(x) for x in ([fl.target] + (list(fl.target.elts) if isinstance(fl.target, ast.Tuple) else []))] and \
                (norm(fl.iter) == "self.K_list" or bool(pmatch(fl.iter, "zip(self.K_list, ANY)"))) and S.has("klist = []") and S.has("self.K_list = klist")
        r4.check(okS, f"{name}: a tetrahedron is either split (children kept, parent dropped) or kept", f, f.node,
                 f"{name} no longer replaces a split tetrahedron by its children", stmt=name)

    # ---------------------------------------------------------------- R06.5
    kpoint_action(ctx, "R06.5")

    # ---------------------------------------------------------------- R06.6
    restart_weights(ctx)


def kpoint_action(ctx, rid: str) -> None:
    """k ↦ iTR · iInv · R k (shared by C06 and C07)."""
    idx = ctx.index
    r5 = ctx.rule(rid, "k-point action of a point-group operation carries the TR and inversion signs")
    tr = idx.function(PS, "PointSymmetry.transform_reduced_vector")
    r5.instance(tr.short)
    rv = [s_ for s_ in stmts(tr.node) if isinstance(s_, ast.Return)]
    txt = norm(rv[0].value) if rv else ""
    tcfg, tdu, tpm = fctx(tr)
    facs = set()
    if rv:
        sl, _, _ = tdu.backward_slice(rv[0].value, tcfg.node(rv[0]))
        for e in sl:
            for n in ast.walk(e):
                if isinstance(n, ast.Attribute) and is_name(n.value, "self"):
                    facs.add(n.attr)
    r5.check(len(rv) == 1 and {"iTR", "iInv", "R"} <= facs, "k ↦ iTR · iInv · R k", tr, rv[0] if rv else tr.node,
             f"`{txt}` does not multiply by both self.iTR and self.iInv: time reversal (k → −k) or inversion is not applied to k-points, so for "
             f"magnetic groups the star of a K-point — and with it the irreducible weights — is wrong", stmt=f"return {txt}")
    ini = idx.function(PS, "PointSymmetry.__init__")
    sgn = {}
    for s_ in stmts(ini.node):
        if isinstance(s_, ast.Assign) and norm(s_.targets[0]) in ("self.iTR", "self.iInv"):
            flag = {"self.iTR": "TR", "self.iInv": "Inv"}[norm(s_.targets[0])]
            v = s_.value
            sgn[flag] = isinstance(v, ast.IfExp) and ((norm(v.test) == f"self.{flag}" and const_of(v.body) == -1 and const_of(v.orelse) == 1)
                                                      or (norm(v.test) == f"not self.{flag}" and const_of(v.body) == 1 and const_of(v.orelse) == -1)) \
                or norm(v).replace(" ", "") in (f"1-2*self.{flag}", f"(-1)**self.{flag}", f"1-2*int(self.{flag})")
    r5.check(sgn.get("TR") is True and sgn.get("Inv") is True, "iTR / iInv are −1 exactly for TR / improper operations", ini, ini.node,
             "iTR / iInv are no longer −1 for time-reversal / improper operations", stmt="iTR iInv")
    st = idx.function(PS, "PointGroup.star")
    kp_ = st.params[1]
    r5.check(bool(pmatch(st.node, f"[S_.transform_reduced_vector({kp_}, self.recip_lattice) for S_ in self.symmetries]", {"S_"})
                  or pmatch(st.node, f"(S_.transform_reduced_vector({kp_}, self.recip_lattice) for S_ in self.symmetries)", {"S_"})),
             "the star applies every operation of the group", st, st.node,
             "PointGroup.star no longer applies transform_reduced_vector of every operation", stmt="star")


from ..selftest import V  # noqa: E402

SELFTEST = [
    V("restart: factors padded after they were assigned (seeded C06-m4)", "wannierberri/run_grid.py",
      "        factors = np.hstack([factors, np.zeros(len(K_list) - len(factors))])  # If we have more K-points than factors, add zeros for the new ones\n        for ik, (Kp, fac) in enumerate(zip(K_list, factors)):\n            Kp.set_factor(fac)\n",
      "        for ik, (Kp, fac) in enumerate(zip(K_list, factors)):\n            Kp.set_factor(fac)\n        factors = np.hstack([factors, np.zeros(len(K_list) - len(factors))])\n", "fire", "R06.6"),
    V("neutral: restart padding through np.concatenate and a named count", "wannierberri/run_grid.py",
      "        factors = np.hstack([factors, np.zeros(len(K_list) - len(factors))])  # If we have more K-points than factors, add zeros for the new ones\n",
      "        n_new = len(K_list) - len(factors)\n        factors = np.concatenate((factors, np.zeros(n_new)))\n", "silent"),
    V("time reversal no longer flips k (seeded C06-m1)", PS, "* (self.iTR * self.iInv)", "* self.iInv", "fire", "R06.5"),
    V("refined tetrahedron keeps its weight (seeded C06-m2)", KT,
      "        self.set_factor(0)  # the K-point is \"dead\" but can be used for starting calculation on a different grid  - not implemented\n", "", "fire", "R06.2"),
    V("parallelepiped parent zeroed only when symmetry is used", KP,
      "        self.set_factor(0)  # the K-point is \"dead\" but can be used for restarting again from an intermediate refinement level\n        if use_symmetry and (self.pointgroup is not None):\n            exclude_equiv_points(K_list_add)",
      "        if use_symmetry and (self.pointgroup is not None):\n            self.set_factor(0)\n            exclude_equiv_points(K_list_add)", "fire", "R06.2"),
    V("children weight divided by ndiv[0] only", KP, "newfac = self.factor / np.prod(ndiv)", "newfac = self.factor / ndiv[0]", "fire", "R06.2"),
    V("tetra children weight not divided", KT, "factor=self.factor / ndiv,", "factor=self.factor,", "fire", "R06.2"),
    V("grid point dropped before it is absorbed", GR,
      "                                    KP.absorb(K_list[k[0]][k[1]][k[2]])\n                                    K_list[k[0]][k[1]][k[2]] = None",
      "                                    K_list[k[0]][k[1]][k[2]] = None\n                                    KP.absorb(K_list[k[0]][k[1]][k[2]])", "fire", "R06.1"),
    V("merge: absorb skipped for evaluated partners", KP,
      "                        if K_list[i].equiv(K_list[j]):\n                            exclude.append(j)\n                            K_list[i].absorb(K_list[j])",
      "                        if K_list[i].equiv(K_list[j]):\n                            exclude.append(j)\n                            if not K_list[j].was_evaluated_flag:\n                                K_list[i].absorb(K_list[j])",
      "fire", "R06.1"),
    V("deletion in ascending order", KP, "    for i in sorted(exclude)[-1::-1]:", "    for i in sorted(exclude):", "fire", "R06.1"),
    V("absorb returns early for evaluated points", KP, "                self.set_result(other.get_result())\n        self.add_factor(other.factor)",
      "                self.set_result(other.get_result())\n                return\n        self.add_factor(other.factor)", "fire", "R06.3"),
    V("tetra copy loses the weight", KT, "NKFFT=self.NKFFT, factor=self.factor, basis=self.basis,", "NKFFT=self.NKFFT, basis=self.basis,", "fire", "R06.4"),
    V("neutral: parent zeroed by assignment", KT,
      "        self.set_factor(0)  # the K-point is \"dead\" but can be used for starting calculation on a different grid  - not implemented\n",
      "        self.factor = 0\n", "silent"),
    V("neutral: descending deletion via reverse=True", KP, "    for i in sorted(exclude)[-1::-1]:", "    for i in sorted(exclude, reverse=True):", "silent"),
]
