"""C06 — K-point weights partition the Brillouin zone (conservation by construction).

R06.1 a K-point is removed only after its weight was absorbed by the retained point (initial reduction and merging).
R06.2 subdivision conserves weight: children get factor/ndiv…, their number equals the divisor, the parent is zeroed.
R06.3 absorb() adds the other point's weight on every path that does not leave at the `other is None` guard.
R06.4 tetrahedral grids: initial weights are normalised; the K-list handed to run() consists of copies carrying the weight.
R06.5 the action of a point-group operation on a k-point includes both the time-reversal and the inversion sign.
"""
from __future__ import annotations

import ast
from typing import Dict, List, Optional

from ..index import AnalysisError, call_name, norm, norm1
from .common import calls, enclosing, enclosing_all, fctx, in_body, is_name, method_calls, stmts

LEVEL = "other"
EXPLANATION = (
    "Conservation rules on the code that creates, merges, splits and removes K-points: (R06.1) every removal "
    "(`K_list[…] = None`, `del K_list[i]` of an index put on the exclusion list) sits in the same block as an absorb() of "
    "exactly that element; (R06.2) in both divide() methods the children's factor is self.factor divided by an expression "
    "that equals the number of children created by the loop nest, and self.set_factor(0) lies on every path to the return "
    "(CFG must-pass); (R06.3) absorb() reaches add_factor(other.factor) on every non-guard path; (R06.4) GridTetra "
    "normalises its initial weights and copies carry them; (R06.5) the k-point action multiplies by iTR·iInv. Decides that "
    "no code path creates or destroys weight; does not decide that symmetry images tile the grid (group geometry).")

GR = "wannierberri/grid/grid.py"
KP = "wannierberri/grid/Kpoint.py"
KT = "wannierberri/grid/Kpoint_tetra.py"
GT = "wannierberri/grid/grid_tetra.py"
PS = "wannierberri/symmetry/point_symmetry.py"


def _divide_rule(rule, f, child_cls: str) -> None:
    cfg, du, pm = fctx(f)
    rule.instance(f.short)
    ctor = [c for c in ast.walk(f.node) if isinstance(c, ast.Call) and call_name(c) == child_cls]
    if len(ctor) != 1:
        raise AnalysisError(f"{f.short}: expected one {child_cls}(…) child constructor")
    c = ctor[0]
    fac = next((k.value for k in c.keywords if k.arg == "factor"), None)
    if fac is None:
        rule.violation(f, c, "children are created without a factor (default weight 1 each)", stmt="factor missing")
        return
    facv = du.resolve_local(fac, du.node_of_expr(c))
    loops = [l for l in reversed(enclosing_all(pm, c, ast.For))]
    counts = []
    for l in loops:
        if isinstance(l.iter, ast.Call) and call_name(l.iter) == "range" and len(l.iter.args) == 1:
            counts.append(norm(l.iter.args[0]))
        else:
            raise AnalysisError(f"{f.short}: child loop is not range(n): {norm1(l.iter)}")
    ok = False
    div = None
    if isinstance(facv, ast.BinOp) and isinstance(facv.op, ast.Div) and norm(facv.left) == "self.factor":
        div = norm(facv.right).replace(" ", "")
        if len(counts) == 1:
            ok = div == counts[0].replace(" ", "")
        elif len(counts) == 3:
            base = counts[0].split("[")[0]
            ok = counts == [f"{base}[0]", f"{base}[1]", f"{base}[2]"] and div in (f"np.prod({base})", f"{base}.prod()",
                                                                                     f"{base}[0]*{base}[1]*{base}[2]")
    rule.check(ok, f"children: {len(counts)}-fold loop over {counts}, each with factor self.factor / {div}", f, c,
               f"the children created by the loop nest over {counts} get factor `{norm1(facv)}`: their weights do not add up to "
               f"the parent's weight (total weight changes at every refinement)")
    zero = [cfg.node(enclosing(pm, z, ast.stmt)) for z in method_calls(f.node, "set_factor")
            if is_name(z.func.value, "self") and z.args and norm(z.args[0]) == "0"]
    zero += [cfg.node(s) for s in stmts(f.node) if isinstance(s, ast.Assign) and norm(s.targets[0]) == "self.factor" and norm(s.value) in ("0", "0.0")]
    cnode = cfg.node(enclosing(pm, c, ast.stmt))
    okz = bool(zero) and cfg.must_pass(cnode, zero)
    rule.check(okz, "the parent's weight is set to 0 on every path after its children were created", f, enclosing(pm, c, ast.stmt),
               f"{f.qualname} creates children carrying the parent's weight but does not zero the parent (`self.set_factor(0)`) on every "
               f"path to the return: the refined cell keeps its full weight next to its sub-cells and is counted twice",
               path=cfg.describe_path(cfg.path_avoiding(cnode, cfg.exit, zero) or []))
    rets = [s for s in stmts(f.node) if isinstance(s, ast.Return) and s.value is not None]
    tgt = None
    ap = enclosing(pm, c, ast.Call)
    st = enclosing(pm, c, ast.stmt)
    lst = None
    for a in ast.walk(st):
        if isinstance(a, ast.Call) and isinstance(a.func, ast.Attribute) and a.func.attr == "append" and any(x is c for x in ast.walk(a)):
            lst = norm(a.func.value)
    rule.check(lst is not None and all(norm(r.value) == lst for r in rets), "all children are returned", f, rets[0] if rets else f.node,
               f"divide() collects its children in `{lst}` but returns `{norm1(rets[0].value) if rets else None}`")


def run(ctx) -> None:
    idx = ctx.index

    # ---------------------------------------------------------------- R06.1
    r1 = ctx.rule("R06.1", "weight is absorbed before a K-point is dropped", min_instances=2)
    g = idx.function(GR, "Grid.get_K_list")
    cfg, du, pm = fctx(g)
    drops = [s for s in stmts(g.node) if isinstance(s, ast.Assign) and norm(s.value) == "None" and isinstance(s.targets[0], ast.Subscript)
             and "K_list" in norm(s.targets[0])]
    if len(drops) != 1:
        raise AnalysisError(f"Grid.get_K_list: expected one `K_list[…] = None`, found {len(drops)}")
    d = drops[0]
    r1.instance(f"{g.short}: {norm1(d)}")
    blk = pm[d].body if d in getattr(pm[d], "body", []) else pm[d].orelse
    i = blk.index(d)
    prev = blk[i - 1] if i > 0 else None
    okp = isinstance(prev, ast.Expr) and isinstance(prev.value, ast.Call) and isinstance(prev.value.func, ast.Attribute) \
        and prev.value.func.attr == "absorb" and prev.value.args and norm(prev.value.args[0]) == norm(d.targets[0])
    r1.check(okp, "the dropped grid point is the one just absorbed", g, d,
             f"`{norm1(d)}` removes a grid point whose weight was not transferred by an immediately preceding `.absorb({norm1(d.targets[0])})`: "
             f"the weights of the irreducible points no longer sum to one")
    guard = enclosing(pm, d, ast.If)
    r1.check(guard is not None and norm(guard.test).replace(" ", "") == "k!=(x,y,z)", "a point never absorbs / drops itself", g, guard or d,
             "the self-image of a K-point is not excluded: it would absorb itself and be dropped")
    t = norm(g.node).replace(" ", "")
    r1.check("factor=1.0/np.prod(self.div)" in t and "forzinrange(self.div[2])" in t and "foryinrange(self.div[1])" in t and
             "forxinrange(self.div[0])" in t and "factor=factor" in t, "initial grid: prod(div) points of weight 1/prod(div)", g, g.node,
             "the initial grid is no longer prod(div) points of weight 1/prod(div)", stmt="initial weights")
    r1.check("KP.star*self.div" in t and "%self.div" in t, "images are the star of the point folded onto the grid", g, g.node,
             "symmetry images are no longer taken from KP.star folded modulo the grid", stmt="star")
    r1.check("forKyzinK_listforKzinKyzforKinKzifKisnotNone" in t, "the returned list keeps exactly the points that were not dropped", g, g.node,
             "the final K-list is not 'all grid points that were not dropped'", stmt="flatten")
    ex = idx.function(KP, "exclude_equiv_points")
    ecfg, edu, epm = fctx(ex)
    app = [c for c in method_calls(ex.node, "append") if norm(c.func.value) == "exclude"]
    ab = method_calls(ex.node, "absorb")
    if len(app) != 1 or len(ab) != 1:
        raise AnalysisError("exclude_equiv_points: expected one exclude.append and one absorb")
    r1.instance(f"{ex.short}: {norm1(app[0])} / {norm1(ab[0])}")
    j = norm(app[0].args[0])
    same_block = enclosing(epm, app[0], ast.If) is enclosing(epm, ab[0], ast.If)
    r1.check(same_block and norm(ab[0].args[0]) == f"K_list[{j}]" and norm(ab[0].func.value) != f"K_list[{j}]",
             "every excluded point is absorbed by its partner in the same guarded block", ex, enclosing(epm, app[0], ast.stmt),
             f"index `{j}` is put on the exclusion list but `{norm1(ab[0])}` absorbs a different element: weight is lost or duplicated")
    dl = [s for s in stmts(ex.node) if isinstance(s, ast.Delete)]
    dloop = enclosing(epm, dl[0], ast.For) if dl else None
    r1.check(len(dl) == 1 and dloop is not None and "exclude" in norm(dloop.iter) and norm(dl[0].targets[0]) == f"K_list[{norm(dloop.target)}]",
             "exactly the excluded indices are deleted", ex, dl[0] if dl else ex.node, "the deletion loop does not delete exactly the excluded indices")
    r1.check(dloop is not None and norm(dloop.iter).replace(" ", "") in ("sorted(exclude)[-1::-1]", "sorted(exclude,reverse=True)", "reversed(sorted(exclude))"),
             "deletion runs from the highest index down (indices stay valid)", ex, dloop or ex.node,
             f"indices are deleted in the order `{norm1(dloop.iter) if dloop is not None else None}`: earlier deletions shift later indices and the "
             f"wrong K-points (with non-zero weight) are removed")

    # ---------------------------------------------------------------- R06.2
    r2 = ctx.rule("R06.2", "subdivision conserves weight and zeroes the parent", min_instances=2)
    _divide_rule(r2, idx.function(KP, "KpointBZparallel.divide"), "KpointBZparallel")
    _divide_rule(r2, idx.function(KT, "KpointBZtetra.divide"), "KpointBZtetra")
    td = idx.function(KT, "KpointBZtetra.divide")
    tt = norm(td.node).replace(" ", "")
    r2.check("dv=(self.vertices[edge[1]]-v0)/ndiv" in tt and "v0+i*dv,v0+(i+1)*dv" in tt and "self.vertices[edge_comp[0]],self.vertices[edge_comp[1]]" in tt,
             "tetrahedron children: the split edge is cut into ndiv consecutive segments, the opposite edge is shared", td, td.node,
             "the sub-tetrahedra no longer tile the parent (split edge v0+i·dv … v0+(i+1)·dv with dv = edge/ndiv, opposite edge kept)",
             stmt="tetra tiling")
    pd = idx.function(KP, "KpointBZparallel.divide")
    tp = norm(pd.node).replace(" ", "")
    r2.check("dK_adpt=self.dK/ndiv" in tp and "adpt_shift=(-self.dK+dK_adpt)/2.0" in tp and "K=K0+adpt_shift+dK_adpt*np.array([x,y,z])" in tp and "dK=dK_adpt" in tp,
             "parallelepiped children tile the parent cell (size dK/ndiv, centred sub-cells)", pd, pd.node,
             "the sub-cells of a refined K-point no longer tile the parent cell", stmt="parallelepiped tiling")

    # ---------------------------------------------------------------- R06.3
    r3 = ctx.rule("R06.3", "absorb() adds the absorbed point's weight")
    ab_f = idx.function(KP, "KpointBZparallel.absorb")
    acfg, adu, apm = fctx(ab_f)
    r3.instance(ab_f.short)
    adds = [acfg.node(enclosing(apm, c, ast.stmt)) for c in method_calls(ab_f.node, "add_factor") if norm(c.args[0]) == "other.factor"]
    guards = [s for s in stmts(ab_f.node) if isinstance(s, ast.If) and norm(s.test) == "other is None"]
    okg = len(guards) == 1 and len(guards[0].body) == 1 and isinstance(guards[0].body[0], ast.Return)
    # every normal exit except the guard's return passes add_factor
    rets = [acfg.node(s) for s in stmts(ab_f.node) if isinstance(s, ast.Return)]
    guard_ret = acfg.node(guards[0].body[0]) if okg else None
    ok = bool(adds) and okg and not acfg.reachable(acfg.entry, [acfg.exit], avoiding=adds + ([guard_ret] if guard_ret is not None else []))
    r3.check(ok, "every non-guard path through absorb() passes add_factor(other.factor)", ab_f, ab_f.node,
             "absorb() can return without adding the absorbed point's weight", stmt="absorb paths",
             path=acfg.describe_path(acfg.path_avoiding(acfg.entry, acfg.exit, adds + ([guard_ret] if guard_ret is not None else [])) or []))
    kb = idx.cls(KP, "KpointBZ")
    r3.check("self.factor += factor" in norm(kb.methods["add_factor"].node) and "self.factor = factor" in norm(kb.methods["set_factor"].node),
             "add_factor / set_factor do what their names say", kb.methods["add_factor"], kb.methods["add_factor"].node,
             "KpointBZ.add_factor/set_factor changed meaning", stmt="add/set")
    r3.check("return self.get_result() * self.factor" in norm(kb.methods["get_result_factor"].node), "a K-point contributes result × factor",
             kb.methods["get_result_factor"], kb.methods["get_result_factor"].node, "get_result_factor is not result × factor", stmt="result×factor")

    # ---------------------------------------------------------------- R06.4
    r4 = ctx.rule("R06.4", "tetrahedral grids: normalised initial weights; copies keep the weight", min_instances=2)
    gi = idx.function(GT, "GridTetra.__init__")
    r4.instance(gi.short)
    ti = norm(gi.node).replace(" ", "")
    r4.check("factor=w" in ti and "zip(tetrahedra,weights)" in ti, "each initial tetrahedron gets its own weight", gi, gi.node,
             "initial tetrahedra are not paired with their weights", stmt="zip weights")
    wdefs = [s for s in ast.walk(gi.node) if isinstance(s, ast.Assign) and is_name(s.targets[0], "weights")]
    r4.note("weights definitions: " + " | ".join(norm1(s, 80) for s in wdefs))
    oknorm = any("/" in norm(s.value) and ("sum" in norm(s.value)) for s in wdefs) or "_weights/_weights.sum()" in ti or "/sum(" in ti
    r4.check(oknorm, "initial weights are normalised by their sum", gi, wdefs[0] if wdefs else gi.node,
             "the initial tetrahedron weights are no longer divided by their sum", stmt="normalisation")
    gk = idx.function(GT, "GridTetra.get_K_list")
    r4.instance(gk.short)
    r4.check("[K.copy() for K in self.K_list]" in norm(gk.node), "run() receives copies of all tetrahedra", gk, gk.node,
             "GridTetra.get_K_list no longer returns a copy of every tetrahedron", stmt="copies")
    cp = idx.function(KT, "KpointBZtetra.copy")
    tc = norm(cp.node).replace(" ", "")
    r4.check("factor=self.factor" in tc and "vertices=self.vertices" in tc and "K=self.K" in tc, "copy() carries weight, vertices and position", cp, cp.node,
             "KpointBZtetra.copy drops the weight / vertices / position", stmt="copy fields")
    for name in ("split_tetra_size", "split_tetra_volume"):
        f = idx.function(GT, "GridTetra." + name)
        tf = norm(f.node).replace(" ", "")
        r4.check("klist+=K.divide(ndiv=2,refine=False)" in tf and "else:klist.append(K)" in tf.replace("\n", "") and "self.K_list=klist" in tf,
                 f"{name}: a tetrahedron is either split (children kept, parent dropped) or kept", f, f.node,
                 f"{name} no longer replaces a split tetrahedron by its children", stmt=name)

    # ---------------------------------------------------------------- R06.5
    kpoint_action(ctx, "R06.5")


def kpoint_action(ctx, rid: str) -> None:
    """k ↦ iTR · iInv · R k (shared by C06 and C07)."""
    idx = ctx.index
    r5 = ctx.rule(rid, "k-point action of a point-group operation carries the TR and inversion signs")
    tr = idx.function(PS, "PointSymmetry.transform_reduced_vector")
    r5.instance(tr.short)
    rv = [s for s in stmts(tr.node) if isinstance(s, ast.Return)]
    txt = norm(rv[0].value) if rv else ""
    r5.check("self.iTR" in txt and "self.iInv" in txt and "self.R" in txt, "k ↦ iTR · iInv · R k", tr, rv[0] if rv else tr.node,
             f"`{txt}` does not multiply by both self.iTR and self.iInv: time reversal (k → −k) or inversion is not applied to k-points, so for "
             f"magnetic groups the star of a K-point — and with it the irreducible weights — is wrong", stmt=f"return {txt}")
    ini = idx.function(PS, "PointSymmetry.__init__")
    ti = norm(ini.node).replace(" ", "")
    r5.check("self.iTR=-1ifself.TRelse1" in ti and "self.iInv=-1ifself.Invelse1" in ti, "iTR / iInv are −1 exactly for TR / improper operations", ini, ini.node,
             "iTR / iInv are no longer −1 for time-reversal / improper operations", stmt="iTR iInv")
    st = idx.function(PS, "PointGroup.star")
    r5.check("S.transform_reduced_vector(k, self.recip_lattice) for S in self.symmetries" in norm(st.node), "the star applies every operation of the group", st, st.node,
             "PointGroup.star no longer applies transform_reduced_vector of every operation", stmt="star")


from ..selftest import V  # noqa: E402

SELFTEST = [
    V("time reversal no longer flips k (seeded C06-m1)", PS, "* (self.iTR * self.iInv)", "* self.iInv", "fire", "R06.5"),
    V("refined tetrahedron keeps its weight (seeded C06-m2)", KT,
      "        self.set_factor(0)  # the K-point is \"dead\" but can be used for starting calculation on a different grid  - not implemented\n", "", "fire", "R06.2"),
    V("parallelepiped parent zeroed only when symmetry is used", KP,
      "        self.set_factor(0)  # the K-point is \"dead\" but can be used for restarting again from an intermediate refinement level\n        if use_symmetry and (self.pointgroup is not None):\n            exclude_equiv_points(K_list_add)",
      "        if use_symmetry and (self.pointgroup is not None):\n            self.set_factor(0)\n            exclude_equiv_points(K_list_add)", "fire", "R06.2"),
    V("children weight divided by ndiv[0] only", KP, "newfac = self.factor / np.prod(ndiv)", "newfac = self.factor / ndiv[0]", "fire", "R06.2"),
    V("tetra children weight not divided", KT, "factor=self.factor / ndiv,", "factor=self.factor,", "fire", "R06.2"),
    V("grid point dropped before it is absorbed", GR,
      "                                    KP.absorb(K_list[k[0]][k[1]][k[2]])\n                                    K_list[k[0]][k[1]][k[2]] = None",
      "                                    K_list[k[0]][k[1]][k[2]] = None\n                                    KP.absorb(K_list[k[0]][k[1]][k[2]])", "fire", "R06.1"),
    V("merge: absorb skipped for evaluated partners", KP,
      "                        if K_list[i].equiv(K_list[j]):\n                            exclude.append(j)\n                            K_list[i].absorb(K_list[j])",
      "                        if K_list[i].equiv(K_list[j]):\n                            exclude.append(j)\n                            if not K_list[j].was_evaluated_flag:\n                                K_list[i].absorb(K_list[j])",
      "fire", "R06.1"),
    V("deletion in ascending order", KP, "    for i in sorted(exclude)[-1::-1]:", "    for i in sorted(exclude):", "fire", "R06.1"),
    V("absorb returns early for evaluated points", KP, "                self.set_result(other.get_result())\n        self.add_factor(other.factor)",
      "                self.set_result(other.get_result())\n                return\n        self.add_factor(other.factor)", "fire", "R06.3"),
    V("tetra copy loses the weight", KT, "NKFFT=self.NKFFT, factor=self.factor, basis=self.basis,", "NKFFT=self.NKFFT, basis=self.basis,", "fire", "R06.4"),
    V("neutral: parent zeroed by assignment", KT,
      "        self.set_factor(0)  # the K-point is \"dead\" but can be used for starting calculation on a different grid  - not implemented\n",
      "        self.factor = 0\n", "silent"),
    V("neutral: descending deletion via reverse=True", KP, "    for i in sorted(exclude)[-1::-1]:", "    for i in sorted(exclude, reverse=True):", "silent"),
]
