"""C22 — finite-difference b-vectors satisfy the completeness relation (guard clauses).

R22.1 whatever b-vectors/weights are returned passed the completeness test ‖Σ_s w_s Σ_{b∈s} b bᵀ − 1‖ ≤ bk_complete_tol.
R22.2 whole shells: every vector of a selected shell is returned with the shell's weight; the search box is symmetric
      (closed under b → −b); shells come from one partition by length.
R22.3 neighbours: index and lattice shift are stored together under the integer test (k + b − k') mod mesh = 0, with a
      for/else raise when no neighbour exists.
"""
from __future__ import annotations

import ast
from typing import Dict, List, Optional

from ..index import AnalysisError, call_name, norm, norm1, names_in
from .common import calls, enclosing, enclosing_all, fctx, in_body, is_name, method_calls, pfind, pmatch, stmts

LEVEL = "other"
EXPLANATION = (
    "CFG dominance in BKVectors.get_shell_weights: the success return is reachable only through the fall-through of "
    "`if tol > bk_complete_tol:` whose body leaves on every path, and `tol` is (def-use) the norm of Σ w_s·(Bᵀ B)_s − 1 built "
    "from the very shells that are then expanded into the returned vectors; find_bk_vectors / from_kpoints / from_nnkp return "
    "only values flowing from that success return. Whole-shell expansion, the symmetric search box and the paired "
    "neighbour/G stores under the integer congruence test are structural rules. Decides that whatever is returned satisfies "
    "the completeness relation to the tolerance and k + b = k' + G exactly; does not decide that a solution is found.")

BK = "wannierberri/w90files/bkvectors.py"


def run(ctx) -> None:
    idx = ctx.index
    c = idx.cls(BK, "BKVectors")

    # ---------------------------------------------------------------- R22.1
    r1 = ctx.rule("R22.1", "returned b-vectors passed the completeness test", min_instances=3)
    gw = c.methods.get("get_shell_weights")
    if gw is None:
        raise AnalysisError("BKVectors.get_shell_weights vanished")
    cfg, du, pm = fctx(gw)
    r1.instance(gw.short)
    rets = [s for s in stmts(gw.node) if isinstance(s, ast.Return) and isinstance(s.value, ast.Tuple)]
    if len(rets) != 1:
        raise AnalysisError("get_shell_weights: expected one tuple return (success)")
    ok_ret = rets[0]
    tests = [s for s in stmts(gw.node) if isinstance(s, ast.If) and isinstance(s.test, ast.Compare) and len(s.test.ops) == 1
             and isinstance(s.test.ops[0], (ast.Gt, ast.GtE)) and norm(s.test.comparators[0]) == "bk_complete_tol"]
    if len(tests) != 1:
        r1.violation(gw, ok_ret, "the completeness test `tol > bk_complete_tol` is gone from get_shell_weights: incomplete shell sets are "
                     "returned as if they satisfied Σ_b w_b b_i b_j = δ_ij", stmt="completeness test missing")
    else:
        tst = tests[0]
        tnode = cfg.node(tst)
        # the body of the test must not fall through
        body_nodes = {cfg.node_of[n] for s in tst.body for n in ast.walk(s) if n in cfg.node_of}
        falls = [b for b in body_nodes if any(y not in body_nodes and y not in (cfg.exit, cfg.raise_) for y in cfg.g.successors(b))]
        r1.check(not falls, "a failed completeness test leaves the function (return message / raise)", gw, tst,
                 "when the completeness test fails the function can still fall through to the success return")
        r1.check(cfg.dominates(tnode, cfg.node(ok_ret)), "the success return is dominated by the completeness test", gw, ok_ret,
                 "the success return of get_shell_weights can be reached without passing the completeness test",
                 path=cfg.describe_path(cfg.path_avoiding(cfg.entry, cfg.node(ok_ret), [tnode]) or []))
        # what is tested
        tolname = norm(tst.test.left)
        sl, _, _ = du.backward_slice(tst.test.left, tnode)

        def in_slice(pat, metas, binding=None):
            for e in sl:
                for n_, b_ in pmatch(e, pat, metas, binding):
                    return b_
            return None
        b1 = in_slice("np.linalg.norm(CE - np.eye(3))", {"CE"})
        b2 = in_slice("sum(W * M for W, M in zip(WS, SM))", {"W", "M", "WS", "SM"}) or in_slice("sum(M * W for W, M in zip(WS, SM))", {"W", "M", "WS", "SM"})
        b3 = in_slice("[KC.T.dot(KC) for KC in SKC]", {"KC", "SKC"}) or in_slice("[KC.T @ KC for KC in SKC]", {"KC", "SKC"})
        expanded = pmatch(gw.node, "for W, SKL, SKC in zip(WS, L1, L2):\n    ...", {"W", "SKL", "SKC", "WS", "L1", "L2"})
        if b2 and b3:
            smd = du.single_def(b2["SM"], tnode) if b2["SM"].isidentifier() else None
            if smd is None or smd.value is None or not (pmatch(smd.value, "[KC.T.dot(KC) for KC in SKC]", {"KC", "SKC"}, {"SKC": b3["SKC"]})
                                                         or pmatch(smd.value, "[KC.T @ KC for KC in SKC]", {"KC", "SKC"}, {"SKC": b3["SKC"]})):
                b2 = None
        same_shells = bool(b2 and b3 and expanded) and any(x[1]["WS"] == b2["WS"] and x[1]["L2"] == b3["SKC"] for x in expanded)
        r1.check(bool(b1 and b2 and b3) and same_shells,
                 f"`{tolname}` = ‖Σ_s w_s (Bᵀ B)_s − 1‖ over the candidate shells", gw, tst,
                 f"the tested quantity `{tolname}` is no longer the deviation of Σ_s w_s Σ_b b bᵀ from the identity for the shells that are "
                 f"returned")
    for mname in ("find_bk_vectors", "from_kpoints", "from_nnkp"):
        m = c.methods.get(mname)
        if m is None:
            raise AnalysisError(f"BKVectors.{mname} vanished")
        r1.instance(m.short)
        mcfg, mdu, mpm = fctx(m)
        if mname == "find_bk_vectors":
            rr = [s for s in stmts(m.node) if isinstance(s, ast.Return) and s.value is not None]
            for rt in rr:
                sl, _, _ = mdu.backward_slice(rt.value, mcfg.node(rt))
                src = [e for e in sl if isinstance(e, ast.Call) and call_name(e).endswith("get_shell_weights")]
                guard = [g for g in enclosing_all(mpm, rt, ast.If) if "isinstance(wkbk, str)" in norm(g.test) and in_body(g.orelse, rt)]
                r1.check(bool(src) and bool(guard), "returned (wk, bk_cart, bk_grid) is the success value of get_shell_weights", m, rt,
                         f"find_bk_vectors returns `{norm1(rt.value)}` which is not the (non-message) result of get_shell_weights")
        else:
            w = [x for x in ast.walk(m.node) if isinstance(x, ast.Call) and call_name(x).endswith(("find_bk_vectors", "get_shell_weights"))]
            ctor = [x for x in ast.walk(m.node) if isinstance(x, ast.Call) and norm(x.func) == "cls" and any(k.arg == "wk" for k in x.keywords)]
            okf = bool(w) and bool(ctor)
            if okf:
                kw = {k.arg: k.value for k in ctor[0].keywords}
                for fld in ("wk", "bk_grid"):
                    sl, _, _ = mdu.backward_slice(kw[fld], mdu.node_of_expr(ctor[0]))
                    okf = okf and any(e is w[0] or (isinstance(e, ast.Call) and call_name(e).endswith(("find_bk_vectors", "get_shell_weights"))) for e in sl)
            r1.check(okf, f"{mname}: weights and b-vectors of the object come from the checked solver", m, ctor[0] if ctor else m.node,
                     f"{mname} builds the BKVectors object from weights/vectors that did not pass get_shell_weights")

    # ---------------------------------------------------------------- R22.2
    r2 = ctx.rule("R22.2", "whole shells with one weight; symmetric search box", min_instances=2)
    r2.instance(f"{gw.short}: expansion loop")
    exp = pmatch(gw.node, "for W, SKL, SKC in zip(weight_shell, shell_klatt, shell_kcart):\n    for KL, KC in zip(SKL, SKC):\n        BG.append(KL)\n        BC.append(KC)\n        WK.append(W)",
                 {"W", "SKL", "SKC", "KL", "KC", "BG", "BC", "WK"})
    r2.check(len(exp) == 1, "every vector of every selected shell is returned with its shell's weight", gw, gw.node,
             "the shells are no longer expanded vector by vector with the shell weight (a shell is truncated, or weights are mis-assigned): "
             "the returned set is not closed under b → −b / not made of whole shells", stmt="shell expansion")
    fb = c.methods["find_bk_vectors"]
    r2.instance(f"{fb.short}: search box")
    t = norm(fb.node).replace(" ", "")
    verdict, how = _search_box(fb)
    if verdict is None:
        r2.expect(False, "search box recognised", fb, fb.node, f"find_bk_vectors: the construction of the candidate vectors k_latt is not one of the "
                  f"recognised forms ({how})")
    else:
        r2.check(verdict, f"candidate vectors: the symmetric box −L … L in every direction ({how})", fb, fb.node,
                 f"the search box is not symmetric ({how}): shells are not closed under b → −b, so half shells are selected and the "
                 f"completeness relation is solved with the wrong weights", stmt="search box")
    ks = c.methods["k_to_shells"]
    tk = norm(ks.node).replace(" ", "")
    r2.check("shell_kcart=[k_cart[b1:b2]forb1,b2inzip(brd,brd[1:])]" in tk and "shell_klatt=[k_latt[b1:b2]forb1,b2inzip(brd,brd[1:])]" in tk
             and "select_nonzero=k_length>kmesh_tol" in tk and "srt=np.argsort(k_length)" in tk,
             "shells = consecutive blocks of the length-sorted non-zero vectors (lattice and Cartesian forms cut alike)", ks, ks.node,
             "k_to_shells no longer cuts the sorted vectors into the same blocks for lattice and Cartesian coordinates", stmt="k_to_shells")
    r2.check("basis=recip_lattice/mp_grid[:,None]" in t and "k_cart=k_latt@basis" in t, "Cartesian b = integer coordinates · (reciprocal lattice / mesh)", fb, fb.node,
             "the mesh basis is no longer recip_lattice / mp_grid", stmt="basis")

    # ---------------------------------------------------------------- R22.3
    r3 = ctx.rule("R22.3", "neighbour index and lattice shift satisfy k + b = k' + G")
    fg = c.methods.get("find_G_and_neighbours")
    r3.instance(fg.short)
    gcfg, gdu, gpm = fctx(fg)
    M3 = {"IK2", "NK", "G_", "KNB", "KL", "MP", "NB", "KI", "IB", "GG"}
    full = pmatch(fg.node, "for IK2 in range(NK):\n    G_ = KNB - KL[IK2]\n    if np.all(G_ % MP == 0):\n        NB[KI][IB] = IK2\n"
                  "        GG[KI][IB] = G_ // MP\n        break\nelse:\n    raise ANY", M3)
    search = pmatch(fg.node, "for IK2 in range(NK):\n    ...\n    if ANY:\n        ...\n        break\n    ...\nelse:\n    ...", {"IK2", "NK"}) or \
        pmatch(fg.node, "for IK2 in range(NK):\n    ...\n    if ANY:\n        ...\n        break\n    ...", {"IK2", "NK"}) or \
        pmatch(fg.node, "for IK2 in range(NK):\n    ...\n    if np.all(ANY % ANY == 0):\n        ...", {"IK2", "NK"})
    labels = _label_idiom(fg)
    if search:
        lp = search[0][0]
        r3.idiom("linear search over all k-points under the integer congruence test")
        r3.check(len(full) == 1, "for every candidate k': g = (k+b) − k'; if g ≡ 0 (mod mesh): store neighbour and G = g // mesh together, stop; "
                 "no candidate → raise", fg, lp,
                 "the neighbour search is no longer `g = (k+b) − k'; if all(g % mesh == 0): neighbours[k][b] = k'; G[k][b] = g // mesh; break; else: raise`: "
                 "neighbour index and lattice shift are not stored together under the congruence test, or a missing neighbour is tolerated "
                 "(k + b = k' + G is violated for some entries)")
        if full:
            bb = full[0][1]
            nb = gdu.single_def(bb["KNB"], gcfg.node(lp)) if bb["KNB"].isidentifier() else None
            knb = nb.value if nb is not None else ast.parse(bb["KNB"], mode="eval").body
            okk = bool(pmatch(knb, f"{bb['KL']}[{bb['KI']}] + BKG[{bb['IB']}]", {"BKG"})) and pmatch(knb, f"{bb['KL']}[{bb['KI']}] + BKG[{bb['IB']}]", {"BKG"})[0][0] is knb
            r3.check(okk, "k + b is formed on the integer mesh from the same k and b that index the stores", fg, nb.stmt if nb is not None else lp,
                     f"`{bb['KNB']}` is not {bb['KL']}[{bb['KI']}] + bk_grid[{bb['IB']}]: the stored neighbour belongs to another (k, b) pair")
            kl = gdu.single_def(bb["KL"], gcfg.node(lp)) if bb["KL"].isidentifier() else None
            r3.check(kl is not None and bool(pmatch(kl.value, "np.rint(KR * MP).astype(int)", {"KR", "MP"}, {"MP": bb["MP"]}))
                     or (kl is not None and bool(pmatch(kl.value, "np.rint(KR * MP[None, :]).astype(int)", {"KR", "MP"}, {"MP": bb["MP"]}))),
                     "mesh coordinates are integers (rint of k·mesh)", fg, kl.stmt if kl is not None else lp,
                     "k-points are no longer converted to integer mesh coordinates with rint(k·mesh)")
    elif labels is not None:
        r3.idiom("label search: k-points labelled by a flattened mesh index, neighbours looked up by label")
        ok_l, msg_l, node_l = labels
        r3.check(ok_l, "the flattened label is injective on the mesh (mixed-radix strides) and G is (k+b−k') // mesh", fg, node_l, msg_l)
    else:
        r3.expect(False, "neighbour search recognised", fg, fg.node,
                  "find_G_and_neighbours: neither the linear search under the congruence test nor a label lookup was recognised")


def _search_box(fb):
    """(symmetric?, description) for the candidate-vector box of find_bk_vectors; (None, why) when the form is unknown."""
    from ..algebra import Rat, to_rat
    cfg, du, pm = fctx(fb)
    defs = [s for s in stmts(fb.node) if isinstance(s, ast.Assign) and is_name(s.targets[0], "k_latt")]
    if len(defs) != 1:
        return None, "no single assignment to k_latt"
    st = defs[0]
    at = cfg.node(st)

    def env(x):
        if isinstance(x, ast.Subscript):
            base = du.resolve_local(x.value, at) if isinstance(x.value, ast.Name) else x.value
            sl = x.slice
            if isinstance(sl, ast.Constant) and isinstance(sl.value, int):
                return Rat.sym(f"{norm(x.value)}_{sl.value}")
            # broadcasting subscripts [None, :] do not change the value
            elts = sl.elts if isinstance(sl, ast.Tuple) else [sl]
            if all((isinstance(e, ast.Constant) and e.value is None) or (isinstance(e, ast.Slice) and e.lower is None and e.upper is None and e.step is None) for e in elts):
                return to_rat(x.value, env)
        if isinstance(x, ast.Name):
            d = du.single_def(x.id, at)
            if d is not None and d.kind == "assign" and isinstance(d.value, (ast.BinOp, ast.Subscript, ast.Name, ast.Constant)) \
                    and not any(isinstance(n, ast.Call) for n in ast.walk(d.value)):
                return to_rat(d.value, env)
            return Rat.sym(x.id)
        return None

    v = st.value
    # form A: np.array([(i, j, k) for i in range(lo, hi) for j in … for k in …])
    lc = None
    for n in ast.walk(v):
        if isinstance(n, (ast.ListComp, ast.GeneratorExp)) and len(n.generators) == 3:
            lc = n
    if lc is not None:
        tv = [g.target.id for g in lc.generators if isinstance(g.target, ast.Name)]
        if not (isinstance(lc.elt, ast.Tuple) and [norm(e) for e in lc.elt.elts] == tv and len(tv) == 3):
            return None, "comprehension does not yield the tuple of its three loop variables in order"
        desc = []
        ok = True
        for g in lc.generators:
            if not (isinstance(g.iter, ast.Call) and call_name(g.iter) == "range" and 1 <= len(g.iter.args) <= 2 and not g.ifs):
                return None, f"generator `{norm1(g.iter)}` is not range(lo, hi)"
            lo = to_rat(g.iter.args[0], env) if len(g.iter.args) == 2 else Rat.const(0)
            hi = to_rat(g.iter.args[-1], env)
            sym = (lo + hi - Rat.const(1)).is_zero()
            ok = ok and sym
            desc.append(f"{g.target.id} ∈ [{norm(g.iter.args[0]) if len(g.iter.args) == 2 else 0}, {norm(g.iter.args[-1])})")
        return ok, "; ".join(desc)
    # form B: np.array(list(np.ndindex(*E))) - O
    if isinstance(v, ast.BinOp) and isinstance(v.op, ast.Sub):
        nd = [c_ for c_ in ast.walk(v.left) if isinstance(c_, ast.Call) and call_name(c_).endswith("ndindex")]
        if len(nd) == 1 and len(nd[0].args) == 1 and isinstance(nd[0].args[0], ast.Starred):
            E = to_rat(nd[0].args[0].value, env)
            O = to_rat(v.right, env)
            sym = (E - Rat.const(1) - O - O).is_zero()
            return sym, f"ndindex extent {norm(nd[0].args[0].value)} shifted by {norm(v.right)}"
    return None, f"`{norm1(v, 80)}`"


def _label_idiom(fg):
    """Recognise `labels = (k % mesh) @ strides` neighbour lookup; returns (ok, message, node) or None."""
    from ..algebra import Rat, to_rat
    cfg, du, pm = fctx(fg)
    cand = []
    for n in ast.walk(fg.node):
        if isinstance(n, ast.BinOp) and isinstance(n.op, ast.MatMult) and isinstance(n.left, ast.BinOp) and isinstance(n.left.op, ast.Mod):
            cand.append(n)
    if not cand:
        return None
    res = None
    for n in cand:
        at = du.node_of_expr(n)
        sv = du.resolve_local(n.right, at)
        if isinstance(sv, ast.Call) and call_name(sv) in ("np.array", "numpy.array", "np.asarray") and sv.args:
            sv = sv.args[0]
        if not (isinstance(sv, (ast.List, ast.Tuple)) and len(sv.elts) == 3):
            return None
        mesh = n.left.right
        mname = norm(mesh.value if isinstance(mesh, ast.Subscript) else mesh)

        def env(x, mname=mname):
            if isinstance(x, ast.Subscript) and norm(x.value) == mname and isinstance(x.slice, ast.Constant):
                return Rat.sym(f"n{x.slice.value}")
            return None
        strides = [to_rat(e, env) for e in sv.elts]
        nsym = [Rat.sym(f"n{i}") for i in range(3)]
        import itertools
        inj = False
        for p in itertools.permutations(range(3)):
            if strides[p[0]].equals(Rat.const(1)) and strides[p[1]].equals(nsym[p[0]]) and strides[p[2]].equals(nsym[p[0]] * nsym[p[1]]):
                inj = True
        st = enclosing(pm, n, ast.stmt)
        if not inj:
            return (False, f"the k-point label `{norm1(n)}` with strides {[norm(e) for e in sv.elts]} is not an injective mixed-radix index of the "
                    f"mesh ({mname}[0] × {mname}[1] × {mname}[2]): on anisotropic meshes different k-points share a label, a wrong neighbour is "
                    f"returned and k + b ≠ k' + G", st)
        res = (True, "", st)
    # G must be the exact quotient of (k+b) − k'
    gdef = [s for s in stmts(fg.node) if isinstance(s, ast.Assign) and isinstance(s.targets[0], ast.Subscript) and norm(s.targets[0].value) == "G"]
    okg = any(isinstance(s.value, ast.BinOp) and isinstance(s.value.op, ast.FloorDiv) and isinstance(s.value.left, ast.BinOp)
              and isinstance(s.value.left.op, ast.Sub) for s in gdef)
    if res and not okg:
        return (False, "G is not stored as ((k + b) − k') // mesh next to the neighbour found by label", gdef[0] if gdef else fg.node)
    return res


from ..selftest import V  # noqa: E402

SELFTEST = [
    V("completeness test removed for the message mode", BK,
      "        if tol > bk_complete_tol:\n            if msg_if_fail:\n                return \"incomplete shells\"\n            else:",
      "        if tol > bk_complete_tol:\n            if msg_if_fail:\n                pass\n            else:", "fire", "R22.1"),
    V("tolerance compared with the wrong sign", BK, "        if tol > bk_complete_tol:\n            if msg_if_fail:\n                return \"incomplete shells\"",
      "        if tol < bk_complete_tol:\n            if msg_if_fail:\n                return \"incomplete shells\"", "fire", "R22.1"),
    V("tested matrix built from a different shell list", BK, "check_eye = sum(w * m for w, m in zip(weight_shell, shell_mat))",
      "check_eye = sum(w * m for w, m in zip(weight_shell, shell_mat[:1]))", "fire", "R22.1"),
    V("shell truncated to its first half", BK, "            for kl, kc in zip(sh_klatt, sh_kcart):", "            for kl, kc in zip(sh_klatt[::2], sh_kcart[::2]):", "fire", "R22.2"),
    V("asymmetric search box", BK, "for j in range(-search_limit[1], search_limit[1] + 1)", "for j in range(0, search_limit[1] + 1)", "fire", "R22.2"),
    V("G stored outside the congruence test", BK,
      "                    if np.all(g % mp_grid == 0):\n                        neighbours[kirr][ib] = ik2\n                        G[kirr][ib] = g // mp_grid\n                        break",
      "                    G[kirr][ib] = g // mp_grid\n                    if np.all(g % mp_grid == 0):\n                        neighbours[kirr][ib] = ik2\n                        break", "fire", "R22.3"),
    V("missing neighbour tolerated", BK, "                else:\n                    raise RuntimeError(\n                        f\"Could not find a neighbour for k-point",
      "                else:\n                    print(\n                        f\"Could not find a neighbour for k-point", "fire", "R22.3"),
    V("seeded C22-m2: ndindex box misses the +L layer", BK,
      "        k_latt = np.array([(i, j, k) for i in range(-search_limit[0], search_limit[0] + 1)\n                        for j in range(-search_limit[1], search_limit[1] + 1)\n                        for k in range(-search_limit[2], search_limit[2] + 1)])",
      "        k_latt = np.array(list(np.ndindex(*(2 * search_limit)))) - search_limit[None, :]", "fire", "R22.2"),
    V("neutral: ndindex box with the full 2L+1 extent", BK,
      "        k_latt = np.array([(i, j, k) for i in range(-search_limit[0], search_limit[0] + 1)\n                        for j in range(-search_limit[1], search_limit[1] + 1)\n                        for k in range(-search_limit[2], search_limit[2] + 1)])",
      "        k_latt = np.array(list(np.ndindex(*(2 * search_limit + 1)))) - search_limit[None, :]", "silent"),
    V("neutral: box limits in local names", BK,
      "        k_latt = np.array([(i, j, k) for i in range(-search_limit[0], search_limit[0] + 1)",
      "        L0 = search_limit[0]\n        k_latt = np.array([(i, j, k) for i in range(-L0, 1 + L0)", "silent"),
    V("neutral: renamed variables in the neighbour search", BK,
      "                    g = k_latt_int_nb - k_latt_int[ik2]\n                    if np.all(g % mp_grid == 0):\n                        neighbours[kirr][ib] = ik2\n                        G[kirr][ib] = g // mp_grid\n                        break",
      "                    dk = k_latt_int_nb - k_latt_int[ik2]\n                    if np.all(dk % mp_grid == 0):\n                        neighbours[kirr][ib] = ik2\n                        G[kirr][ib] = dk // mp_grid\n                        break", "silent"),
    V("neighbour stored for the wrong b", BK, "k_latt_int_nb = k_latt_int[kirr] + bk_grid[ib]", "k_latt_int_nb = k_latt_int[kirr] + bk_grid[ib - 1]", "fire", "R22.3"),
    V("neutral: renamed loop variables in the expansion", BK,
      "            for kl, kc in zip(sh_klatt, sh_kcart):\n                bk_grid.append(kl)\n                bk_cart.append(kc)\n                wk.append(w)",
      "            for b_latt, b_cart in zip(sh_klatt, sh_kcart):\n                bk_grid.append(b_latt)\n                bk_cart.append(b_cart)\n                wk.append(w)", "silent"),
]
