"""C22 — finite-difference b-vectors satisfy the completeness relation (guard clauses).

R22.1 whatever b-vectors/weights are returned passed the completeness test ‖Σ_s w_s Σ_{b∈s} b bᵀ − 1‖ ≤ bk_complete_tol.
R22.2 whole shells: every vector of a selected shell is returned with the shell's weight; the search box is symmetric
      (closed under b → −b); shells come from one partition by length.
R22.3 neighbours: index and lattice shift are stored together under the integer test (k + b − k') mod mesh = 0, with a
      for/else raise when no neighbour exists.
"""
from __future__ import annotations

import ast
from typing import Dict, List, Optional

from ..index import AnalysisError, call_name, norm, norm1, names_in
from ..sem import Sem, reachable_helpers
from .common import calls, const_of, enclosing, enclosing_all, fctx, in_body, is_name, kwarg, method_calls, pfind, pmatch, stmts

LEVEL = "other"
EXPLANATION = (
    "CFG dominance in BKVectors.get_shell_weights: the success return is reachable only through the fall-through of "
    "`if tol > bk_complete_tol:` whose body leaves on every path, and `tol` is (def-use) the norm of Σ w_s·(Bᵀ B)_s − 1 built "
    "from the very shells that are then expanded into the returned vectors; find_bk_vectors / from_kpoints / from_nnkp return "
    "only values flowing from that success return. Whole-shell expansion, the symmetric search box and the paired "
    "neighbour/G stores under the integer congruence test are structural rules. Decides that whatever is returned satisfies "
    "the completeness relation to the tolerance and k + b = k' + G exactly; does not decide that a solution is found.")

BK = "wannierberri/w90files/bkvectors.py"


def _canon_it(txt: str) -> str:
    """Rename abstract iteration indices ITn_line in order of appearance (I0, I1, …)."""
    import re
    seen: Dict[str, str] = {}
    def rep(m):
        return seen.setdefault(m.group(0), f"I{len(seen)}")
    return re.sub(r"IT\d+_\d+", rep, txt)


def run(ctx) -> None:
    idx = ctx.index
    c = idx.cls(BK, "BKVectors")

    # ---------------------------------------------------------------- R22.1
    r1 = ctx.rule("R22.1", "returned b-vectors passed the completeness test", min_instances=3)
    gw = c.methods.get("get_shell_weights")
    if gw is None:
        raise AnalysisError("BKVectors.get_shell_weights vanished")
    S = Sem(idx, gw)
    cfg, du, pm = S.cfg, S.du, S.pm
    r1.instance(gw.short)
    params = gw.params
    tolp = next((p_ for p_ in params if "complete" in p_ or p_.endswith("_tol")), None)
    sklp, skcp = (params[1], params[2]) if len(params) > 2 else (None, None)
    rets = [s_ for s_ in stmts(gw.node) if isinstance(s_, ast.Return) and isinstance(s_.value, ast.Tuple) and len(s_.value.elts) == 3]
    if len(rets) != 1 or tolp is None:
        r1.expect(False, "success return located", gw, gw.node, "get_shell_weights: expected one `return wk, bk_cart, bk_grid` and a completeness tolerance parameter")
        return
    ok_ret = rets[0]
    at_ret = cfg.node(ok_ret)
    def shell_elem(e_: ast.AST) -> Optional[str]:
        """canonical element (shell I0, vector I1) of a returned array: loop / comprehension forms through Sem.element, and the numpy idioms
        np.repeat(W, [len(x) for x in SHELLS]) ≡ W[I0],  np.concatenate(SHELLS) ≡ SHELLS[I0][I1]  (dtype conversions ignored)"""
        x_ = S.element(e_, at_ret)
        if x_ is not None:
            return _canon_it(norm(x_))
        r_ = S.resolve(e_, at_ret)
        while True:
            if isinstance(r_, ast.Call) and isinstance(r_.func, ast.Attribute) and r_.func.attr in ("astype", "copy") and call_name(r_) not in ("np.copy",):
                r_ = r_.func.value
            elif isinstance(r_, ast.Call) and call_name(r_) in ("np.array", "np.asarray") and r_.args:
                r_ = r_.args[0]
            else:
                break
        m_ = pmatch(r_, "np.repeat(W_, [len(X_) for X_ in SH_])", {"W_", "X_", "SH_"})
        if m_ and m_[0][0] is r_ and m_[0][1]["SH_"] in (skcp, sklp):
            return f"{m_[0][1]['W_']}[I0]"
        m_ = pmatch(r_, "np.concatenate(SH_)", {"SH_"}) or pmatch(r_, "np.vstack(SH_)", {"SH_"}) or pmatch(r_, "np.concatenate(SH_, axis=0)", {"SH_"})
        if m_ and m_[0][0] is r_:
            return f"{m_[0][1]['SH_']}[I0][I1]"
        return None
    elt = [shell_elem(e_) for e_ in ok_ret.value.elts]
    WS = None
    if all(x is not None for x in elt) and elt[0].endswith("[I0]"):
        WS = elt[0][:-4]
    r2 = ctx.rule("R22.2", "whole shells with one weight; symmetric search box", min_instances=2)
    r2.instance(f"{gw.short}: expansion of the shells")
    if any(x is None for x in elt):
        r2.expect(False, "expansion of the shells into the returned arrays understood", gw, ok_ret,
                  "get_shell_weights: could not follow how the returned (wk, bk_cart, bk_grid) are assembled from the shells")
    else:
        r2.check(WS is not None and elt[1] == f"{skcp}[I0][I1]" and elt[2] == f"{sklp}[I0][I1]",
                 "every vector of every selected shell is returned (Cartesian and lattice form alike) with its shell's weight", gw, ok_ret,
                 f"the returned arrays are not `weight[s]`, `{skcp}[s][v]`, `{sklp}[s][v]` over all shells s and all their vectors v (got wk ↦ …{elt[0][-40:]}, "
                 f"bk_cart ↦ {elt[1][-60:]}, bk_grid ↦ {elt[2][-60:]}): a shell is truncated or weights are mis-assigned, so the returned set is not made of "
                 f"whole shells / not closed under b → −b", stmt="shell expansion")
    tests = [s_ for s_ in stmts(gw.node) if isinstance(s_, ast.If) and isinstance(s_.test, ast.Compare) and len(s_.test.ops) == 1
             and ((isinstance(s_.test.ops[0], (ast.Gt, ast.GtE)) and norm(s_.test.comparators[0]) == tolp)
                  or (isinstance(s_.test.ops[0], (ast.Lt, ast.LtE)) and norm(s_.test.left) == tolp))]
    if len(tests) != 1:
        r1.violation(gw, ok_ret, f"the completeness test `tol > {tolp}` is gone from get_shell_weights: incomplete shell sets are "
                     "returned as if they satisfied Σ_b w_b b_i b_j = δ_ij", stmt="completeness test missing")
    else:
        tst = tests[0]
        tnode = cfg.node(tst)
        from ..sem import _leaves_function
        r1.check(_leaves_function(tst.body), "a failed completeness test leaves the function (return message / raise)", gw, tst,
                 "when the completeness test fails the function can still fall through to the success return")
        r1.check(cfg.dominates(tnode, at_ret) and not any(x is ok_ret for b_ in tst.body for x in ast.walk(b_)),
                 "the success return is dominated by the completeness test", gw, ok_ret,
                 "the success return of get_shell_weights can be reached without passing the completeness test",
                 path=cfg.describe_path(cfg.path_avoiding(cfg.entry, at_ret, [tnode]) or []))
        tq = tst.test.left if norm(tst.test.comparators[0]) == tolp else tst.test.comparators[0]
        tres = S.resolve(tq, tnode)
        okq = False
        verdict = None          # None: unrecognised, True/False decided
        GRAMS = ("KC_.T.dot(KC_)", "KC_.T @ KC_", "np.dot(KC_.T, KC_)", "np.matmul(KC_.T, KC_)")
        SMS = [w_.format(g=g_) for g_ in GRAMS for w_ in ("np.array([{g} for KC_ in SKC])", "[{g} for KC_ in SKC]")]
        SUMS = [f"sum({wm} for W_, M_ in zip(WS_, {sm}))" for wm in ("W_ * M_", "M_ * W_") for sm in SMS] + \
               [f"np.tensordot(WS_, {sm}, axes=1)" for sm in SMS] + [f"np.einsum('s,sij->ij', WS_, {sm})" for sm in SMS] + \
               [f"(WS_[:, None, None] * {sm}).sum(axis=0)" for sm in SMS]
        METAS_ = {"W_", "M_", "WS_", "KC_", "SKC"}
        for sm_ in SUMS:
            for pat in (f"np.linalg.norm({sm_} - np.eye(3))", f"np.linalg.norm(np.eye(3) - {sm_})"):
                m_ = pmatch(tres, pat, METAS_)
                if m_ and m_[0][0] is tres:
                    verdict = m_[0][1]["SKC"] == skcp and WS is not None and m_[0][1]["WS_"] == WS
        if verdict is None:
            # the same shapes with some other matrix list in place of [Bᵀ B for B in shells]: a decided mismatch
            for gen_ in ("sum(W_ * M_ for W_, M_ in zip(WS_, ANY))", "sum(M_ * W_ for W_, M_ in zip(WS_, ANY))", "np.tensordot(WS_, ANY, axes=1)"):
                for pat in (f"np.linalg.norm({gen_} - np.eye(3))", f"np.linalg.norm(np.eye(3) - {gen_})"):
                    m_ = pmatch(tres, pat, {"W_", "M_", "WS_", "ANY"})
                    if m_ and m_[0][0] is tres:
                        verdict = False
        if verdict is None:
            # least-squares form: w, res, rank, sv = np.linalg.lstsq(M.reshape(-1, 9).T, eye.reshape(-1)); the residual is the SQUARED 2-norm
            core = tres
            while isinstance(core, ast.Call) and call_name(core) in ("float", "np.float64") and core.args:
                core = core.args[0]
            rooted = False
            if isinstance(core, ast.Call) and call_name(core) in ("np.sqrt", "math.sqrt", "numpy.sqrt") and core.args:
                core, rooted = core.args[0], True
            elif isinstance(core, ast.BinOp) and isinstance(core.op, ast.Pow) and const_of(core.right) == 0.5:
                core, rooted = core.left, True
            while isinstance(core, ast.Call) and call_name(core) in ("float", "np.float64") and core.args:
                core = core.args[0]
            ls = [c_ for c_ in ast.walk(core) if isinstance(c_, ast.Call) and call_name(c_) in ("np.linalg.lstsq", "numpy.linalg.lstsq")]
            if len(ls) == 1 and pmatch(core, "LS_[1][0]", {"LS_"}) or (len(ls) == 1 and pmatch(core, "LS_[1]", {"LS_"})):
                a_txt = norm(ls[0].args[0]) if ls[0].args else ""
                from_shells = skcp in a_txt and ".T" in a_txt and "reshape(-1, 9)" in a_txt
                wsrc = S.rnorm(ast.parse(WS, mode="eval").body, at_ret) if WS else ""
                same_fit = "np.linalg.lstsq" in wsrc and wsrc.endswith("[0]")
                if from_shells and same_fit:
                    verdict = rooted
                    if not rooted:
                        r1.violation(gw, tst, f"the tested quantity `{norm1(tq)}` is the residual returned by np.linalg.lstsq, i.e. the SQUARED 2-norm of "
                                     f"Σ_s w_s (Bᵀ B)_s − 1; compared with {tolp} it accepts shell sets that miss the identity by up to √{tolp}",
                                     stmt="squared residual")
                        verdict = "reported"
        if verdict is None:
            r1.expect(False, "", gw, tst, f"get_shell_weights: the quantity compared with {tolp}, `{norm1(tres, 100)}`, is in none of the forms the checker knows "
                      f"(‖Σ_s w_s (BᵀB)_s − 1‖ as a sum / tensordot / einsum, or the square root of the lstsq residual)")
        elif verdict != "reported":
            r1.check(bool(verdict), f"the tested quantity is ‖Σ_s w_s (Bᵀ B)_s − 1‖ over the very shells and weights that are returned", gw, tst,
                     f"the tested quantity `{norm1(tq)}` is no longer the deviation of Σ_s w_s Σ_b b bᵀ from the identity for the shells and weights that are returned")
    for mname in ("find_bk_vectors", "from_kpoints", "from_nnkp"):
        m = c.methods.get(mname)
        if m is None:
            raise AnalysisError(f"BKVectors.{mname} vanished")
        r1.instance(m.short)
        if mname != "find_bk_vectors":
            from ..sem import inline_private_helpers as _iph
            m = _iph(idx, m)
        MS = Sem(idx, m)
        mcfg, mdu, mpm = MS.cfg, MS.du, MS.pm
        if mname == "find_bk_vectors":
            rr = [s_ for s_ in stmts(m.node) if isinstance(s_, ast.Return) and s_.value is not None]
            r1.expect(len(rr) >= 1, "find_bk_vectors has a value return", m, m.node, "find_bk_vectors: no return with a value")
            for rt in rr:
                rres = MS.resolve(rt.value, mcfg.node(rt))
                callt = None
                if isinstance(rres, ast.Tuple) and len(rres.elts) == 3 and all(isinstance(x, ast.Subscript) and const_of(x.slice) == i_ for i_, x in enumerate(rres.elts)) \
                        and len({norm(x.value) for x in rres.elts}) == 1:
                    callt = rres.elts[0].value
                elif isinstance(rres, ast.Call):
                    callt = rres
                okc = callt is not None and isinstance(callt, ast.Call) and call_name(callt).endswith("get_shell_weights")
                okg = okc and any(t_ == f"isinstance({norm(callt)}, str)" and p_ is False for t_, p_, _ in MS.conditions(rt))
                r1.check(okc and okg, "returned (wk, bk_cart, bk_grid) is the (non-message) success value of get_shell_weights", m, rt,
                         f"find_bk_vectors returns `{norm1(rt.value)}` which is not the (non-message) result of get_shell_weights")
        else:
            w = [x for x in ast.walk(m.node) if isinstance(x, ast.Call) and call_name(x).endswith(("find_bk_vectors", "get_shell_weights"))]
            ctor = [x for x in ast.walk(m.node) if isinstance(x, ast.Call) and norm(x.func) == "cls" and any(k.arg == "wk" for k in x.keywords)]
            okf = bool(w) and bool(ctor)
            if not ctor or not w:
                r1.expect(False, "", m, m.node, f"{mname}: the solver call / the constructor call `cls(wk=…, bk_grid=…)` was not found (also not in inlined private helpers)")
                continue
            if okf:
                kw = {k.arg: k.value for k in ctor[0].keywords}
                for fld in ("wk", "bk_grid"):
                    sl, _, _ = mdu.backward_slice(kw[fld], mdu.node_of_expr(ctor[0]))
                    okf = okf and any(e is w[0] or (isinstance(e, ast.Call) and call_name(e).endswith(("find_bk_vectors", "get_shell_weights"))) for e in sl)
            # the weights are solved for b-vectors in Cartesian coordinates of ONE lattice; the object recomputes its Cartesian b-vectors from the lattice it is
            # given: both must be the same lattice
            rl_ = kw.get("recip_lattice") if okf else None
            if rl_ is not None and isinstance(rl_, ast.Name):
                solver_calls_ = [x for x in ast.walk(m.node) if isinstance(x, ast.Call) and call_name(x).endswith(("get_shell_weights", "k_to_shells"))]
                lats_ = set()
                for sc_ in solver_calls_:
                    for a_ in list(sc_.args) + [k_.value for k_ in sc_.keywords]:
                        sl_, _, _ = mdu.backward_slice(a_, mdu.node_of_expr(sc_))
                        for e_ in list(sl_) + [a_]:
                            for b_ in ast.walk(e_):
                                if isinstance(b_, ast.BinOp) and isinstance(b_.op, ast.MatMult) and isinstance(b_.right, ast.Name) and "lattice" in b_.right.id:
                                    lats_.add(b_.right.id)
                                elif isinstance(b_, ast.Call) and isinstance(b_.func, ast.Attribute) and b_.func.attr == "dot" and b_.args and isinstance(b_.args[0], ast.Name) \
                                        and "lattice" in b_.args[0].id:
                                    lats_.add(b_.args[0].id)
                if lats_:
                    r1.check(lats_ == {rl_.id}, f"{mname}: the b-vectors are made Cartesian with the lattice the object is built with", m, ctor[0],
                             f"{mname} solves the shell weights for b-vectors converted with `{sorted(lats_)}` but builds the object with `recip_lattice={rl_.id}`: the stored "
                             f"weights belong to another lattice than the stored (recomputed) Cartesian b-vectors, so Σ_b w_b b bᵀ ≠ 1 whenever the two lattices differ")
            kg_ = kw.get("kpt_grid") if okf else None
            if kg_ is not None:
                kgr_ = MS.resolve(kg_, mdu.node_of_expr(ctor[0]))
                folded_ = [b_ for b_ in ast.walk(kgr_) if isinstance(b_, ast.BinOp) and isinstance(b_.op, ast.Mod)] + \
                    [c_ for c_ in ast.walk(kgr_) if isinstance(c_, ast.Call) and call_name(c_) in ("np.mod", "np.remainder", "np.fmod")]
                r1.check(not folded_, f"{mname}: the stored integer k-coordinates are the ones the neighbour search used (not folded into the first cell)", m, ctor[0],
                         f"{mname} stores `kpt_grid = {norm1(kgr_, 90)}`, folded modulo the mesh, while G and the neighbour list were computed from the unfolded "
                         f"coordinates: for k-points given outside [0,1) the stored triple no longer satisfies k + b = k' + G")
            r1.check(okf, f"{mname}: weights and b-vectors of the object come from the checked solver", m, ctor[0] if ctor else m.node,
                     f"{mname} builds the BKVectors object from weights/vectors that did not pass get_shell_weights")
            # …and the *whole* checked set: completeness Σ_b w_b b bᵀ = 1 holds for the set the solver returned, not for a subset selected afterwards
            if okf:
                for fld in ("wk", "bk_grid"):
                    sl, _, _ = mdu.backward_slice(kw[fld], mdu.node_of_expr(ctor[0]))
                    for e_ in sl:
                        for x_ in ast.walk(e_):
                            if isinstance(x_, ast.Subscript) and isinstance(x_.value, ast.Name) and not isinstance(x_.slice, (ast.Constant, ast.Slice)):
                                vs_, _, _ = mdu.backward_slice(x_.value, mdu.node_of_expr(ctor[0]))
                                from_solver = any(isinstance(q_, ast.Call) and call_name(q_).endswith(("find_bk_vectors", "get_shell_weights")) for q_ in vs_)
                                mexp_ = x_.slice
                                if isinstance(mexp_, ast.Name):
                                    try:
                                        d1_ = mdu.single_def(mexp_.id, mdu.node_of_expr(x_))
                                    except AnalysisError:
                                        d1_ = None
                                    mexp_ = d1_.value if d1_ is not None and d1_.kind == "assign" and d1_.value is not None else mexp_
                                is_mask = isinstance(mexp_, ast.Compare) or (isinstance(mexp_, ast.BinOp) and isinstance(mexp_.op, (ast.BitAnd, ast.BitOr))) or \
                                    (isinstance(mexp_, ast.UnaryOp) and isinstance(mexp_.op, ast.Invert)) or \
                                    (isinstance(mexp_, ast.Call) and call_name(mexp_) in ("np.logical_and", "np.logical_or", "np.logical_not", "np.isclose", "np.where", "np.nonzero", "np.flatnonzero"))
                                if from_solver and is_mask:
                                    r1.violation(m, ctor[0], f"{mname}: `{norm1(x_)}` keeps only part of the b-vectors / weights returned by the solver (`{fld}`): the completeness "
                                                 f"relation was verified for the full set (shells with negative weights occur for skewed cells), so the stored set "
                                                 f"no longer satisfies it")

    # ---------------------------------------------------------------- R22.2 (continued)
    fb = c.methods["find_bk_vectors"]
    FS = Sem(idx, fb)
    # the shells are kept twice, in Cartesian and in lattice coordinates; both lists go into get_shell_weights together and the lattice one becomes
    # the returned grid vectors: every block of statements must change the two lists in the same way
    pair = None
    for c_ in ast.walk(fb.node):
        if isinstance(c_, ast.Call) and call_name(c_).endswith("get_shell_weights") and len(c_.args) >= 2:
            bases = []
            for a_ in c_.args[:2]:
                a_ = a_.left if isinstance(a_, ast.BinOp) and isinstance(a_.op, ast.Add) else a_
                if isinstance(a_, ast.Name) and a_.id not in FS._mutated:
                    d1_ = FS.du.single_def(a_.id, FS.du.node_of_expr(c_))      # one step only: `tmp = list + [new]`
                    a_ = d1_.value if d1_ is not None and d1_.kind == "assign" and d1_.value is not None else a_
                a_ = a_.left if isinstance(a_, ast.BinOp) and isinstance(a_.op, ast.Add) else a_
                bases.append(a_.id if isinstance(a_, ast.Name) else None)
            if all(bases) and bases[0] != bases[1]:
                pair = tuple(bases)
    if pair is None:
        r2.note("find_bk_vectors: the two shell lists handed to get_shell_weights were not identified as plain local lists (no lockstep claim on this tree)")
    if pair is not None:
        r2.instance(f"{fb.short}: parallel shell lists {pair}")

        def ops(block):
            cnt = {pair[0]: [], pair[1]: []}
            for st_ in block:
                if isinstance(st_, ast.Expr) and isinstance(st_.value, ast.Call) and isinstance(st_.value.func, ast.Attribute) and isinstance(st_.value.func.value, ast.Name) \
                        and st_.value.func.value.id in cnt and st_.value.func.attr in ("append", "pop", "extend", "insert", "clear", "remove"):
                    cnt[st_.value.func.value.id].append(st_.value.func.attr)
                elif isinstance(st_, ast.AugAssign) and isinstance(st_.target, ast.Name) and st_.target.id in cnt:
                    cnt[st_.target.id].append("+=")
                elif isinstance(st_, ast.Delete) and any(isinstance(t_, ast.Subscript) and isinstance(t_.value, ast.Name) and t_.value.id in cnt for t_ in st_.targets):
                    for t_ in st_.targets:
                        if isinstance(t_, ast.Subscript) and isinstance(t_.value, ast.Name) and t_.value.id in cnt:
                            cnt[t_.value.id].append("del")
            return cnt
        blocks = [fb.node.body] + [getattr(n_, f_) for n_ in ast.walk(fb.node) for f_ in ("body", "orelse", "finalbody") if n_ is not fb.node
                                   and isinstance(getattr(n_, f_, None), list) and getattr(n_, f_) and isinstance(getattr(n_, f_)[0], ast.stmt)]
        bad_blk = None
        for blk in blocks:
            o_ = ops(blk)
            if sorted(o_[pair[0]]) != sorted(o_[pair[1]]):
                bad_blk = (blk, o_)
                break
        r2.check(bad_blk is None, "the Cartesian and the lattice shell list are changed together in every block", fb, bad_blk[0][0] if bad_blk else fb.node,
                 f"a block changes `{pair[0]}` by {bad_blk[1][pair[0]] if bad_blk else None} but `{pair[1]}` by {bad_blk[1][pair[1]] if bad_blk else None}: from then on "
                 f"the two lists describe different shells, the weights are solved for one set and the returned grid vectors come from the other")
    r2.instance(f"{fb.short}: search box")
    verdict, how = _search_box(fb, FS)
    if verdict is None:
        r2.expect(False, "search box recognised", fb, fb.node, f"find_bk_vectors: the construction of the candidate vectors k_latt is not one of the "
                  f"recognised forms ({how})")
    else:
        r2.check(verdict, f"candidate vectors: the symmetric box −L … L in every direction ({how})", fb, fb.node,
                 f"the search box is not symmetric ({how}): shells are not closed under b → −b, so half shells are selected and the "
                 f"completeness relation is solved with the wrong weights", stmt="search box")
    ks = c.methods["k_to_shells"]
    KS = Sem(idx, ks)
    klp, kcp = ks.params[1], ks.params[2]
    krets = [s_ for s_ in stmts(ks.node) if isinstance(s_, ast.Return) and isinstance(s_.value, ast.Tuple) and len(s_.value.elts) == 2]
    if len(krets) != 1:
        r2.expect(False, "k_to_shells return located", ks, ks.node, "k_to_shells: `return shell_klatt, shell_kcart` not found")
    else:
        KS._caller_done = True   # compare in terms of the function's own parameters
        a_, b_ = (KS.rnorm(x, KS.cfg.node(krets[0])) for x in krets[0].value.elts)
        import re
        swap = re.sub(rf"(?<![A-Za-z0-9_]){re.escape(klp)}(?![A-Za-z0-9_])", kcp, a_)
        r2.check(swap == b_ and klp in a_, "lattice and Cartesian vectors are filtered, sorted and cut into shells by one and the same recipe", ks, krets[0],
                 "k_to_shells cuts the lattice-coordinate and the Cartesian vectors differently: the returned integer b-vectors are not the returned Cartesian ones")
        r2.check(any(x in b_ for x in (f"np.argsort(np.linalg.norm({kcp}, axis=1)", f"np.argsort(np.linalg.norm({kcp}[")) and
                 any(x in b_ for x in (f"np.linalg.norm({kcp}, axis=1) > kmesh_tol", f"np.linalg.norm({kcp}, axis=1) > {ks.params[3] if len(ks.params) > 3 else 'kmesh_tol'}")),
                 "shells = runs of the non-zero vectors sorted by Cartesian length", ks, krets[0],
                 "k_to_shells no longer drops the zero vector and sorts by Cartesian length before cutting shells", stmt="k_to_shells")
    kc_call = [x for x in ast.walk(fb.node) if isinstance(x, ast.Call) and call_name(x).endswith("k_to_shells")]
    if len(kc_call) != 1 or len(kc_call[0].args) < 2:
        r2.expect(False, "k_to_shells call located", fb, fb.node, "find_bk_vectors: call of k_to_shells(k_latt, k_cart, …) not found")
    else:
        at_k = FS.du.node_of_expr(kc_call[0])
        la = norm(kc_call[0].args[0])
        cres = FS.resolve(kc_call[0].args[1], at_k)
        ca = norm(cres)
        lar = FS.rnorm(kc_call[0].args[0], at_k)
        mp = fb.params[2]
        bases = [f"{fb.params[1]} / {g_}[:, None]" for g_ in (mp, f"np.array({mp}, dtype=int)", f"np.array({mp})")]
        okb = (isinstance(cres, ast.BinOp) and isinstance(cres.op, ast.MatMult) and norm(cres.left) == lar and norm(cres.right) in bases) or \
            (isinstance(cres, ast.Call) and isinstance(cres.func, ast.Attribute) and cres.func.attr == "dot" and norm(cres.func.value) == lar and len(cres.args) == 1
             and norm(cres.args[0]) in bases)
        r2.check(okb, "Cartesian b = integer coordinates · (reciprocal lattice / mesh)", fb, kc_call[0],
                 f"the Cartesian candidates `{ca[-90:]}` are not the integer candidates times recip_lattice / mp_grid", stmt="basis")

    # ---------------------------------------------------------------- R22.3
    r3 = ctx.rule("R22.3", "neighbour index and lattice shift satisfy k + b = k' + G")
    fg = c.methods.get("find_G_and_neighbours")
    r3.instance(fg.short)
    _neighbour_rule(r3, idx, fg)

    # ---------------------------------------------------------------- R22.4
    check_axis_roles(ctx)


def _neighbour_rule(r3, idx, fg) -> None:
    labels = _label_idiom(fg)
    funcs = [fg] + reachable_helpers(idx, fg)
    tests = []
    for g in funcs:
        for n in ast.walk(g.node):
            if isinstance(n, ast.If):
                m_ = pmatch(n.test, "np.all(X_ % M_ == 0)", {"X_", "M_"}) or pmatch(n.test, "not np.any(X_ % M_)", {"X_", "M_"}) or pmatch(n.test, "(X_ % M_ == 0).all()", {"X_", "M_"})
                if m_ and m_[0][0] is n.test:
                    tests.append((g, n, m_[0][1]))
    if not tests and labels is None and _vector_idiom(r3, idx, fg):
        return
    if not tests:
        if labels is not None:
            r3.idiom("label search: k-points labelled by a flattened mesh index, neighbours looked up by label")
            ok_l, msg_l, node_l = labels
            r3.check(ok_l, "the flattened label is injective on the mesh (mixed-radix strides) and G is (k+b−k') // mesh", fg, node_l, msg_l)
        else:
            r3.expect(False, "neighbour search recognised", fg, fg.node,
                      "find_G_and_neighbours: neither the linear search under the congruence test nor a label lookup was recognised")
        return
    if len(tests) != 1:
        r3.expect(False, "one congruence test", fg, fg.node, "find_G_and_neighbours: more than one congruence test found")
        return
    g, tst, b = tests[0]
    r3.idiom("linear search over all k-points under the integer congruence test" + (f" (in helper {g.qualname})" if g is not fg else ""))
    S = Sem(idx, g)
    at = S.cfg.node(tst)
    xs, ms = ast.parse(b["X_"], mode="eval").body, ast.parse(b["M_"], mode="eval").body
    xres = S.resolve(xs, at)
    mres = S.rnorm(ms, at)
    mp = fg.params[3] if len(fg.params) > 3 else "mp_grid"
    m_ = pmatch(xres, "KL_[K1_] + BG_[IB_] - KL_[K2_]", {"KL_", "K1_", "BG_", "IB_", "K2_"}) or pmatch(xres, "BG_[IB_] + KL_[K1_] - KL_[K2_]", {"KL_", "K1_", "BG_", "IB_", "K2_"})
    okx = bool(m_) and m_[0][0] is xres
    bb = m_[0][1] if okx else {}
    okkl = okx and any(bb["KL_"] == f"np.rint({fg.params[1]} * {g_}).astype(int)" for g_ in (mp, f"{mp}[None, :]", f"np.array({mp}, dtype=int)[None, :]", f"np.array({mp})[None, :]",
                                                                                             f"np.array({mp}, dtype=int)", f"np.array({mp})"))
    okbg = okx and bb["BG_"] == fg.params[2]
    okm = mres in (mp, f"np.array({mp}, dtype=int)", f"np.array({mp})")
    r3.check(okx and okkl and okbg and okm, "the test is ((k + b) − k') ≡ 0 (mod mesh) on the integer mesh coordinates rint(k·mesh)", g, tst,
             f"the congruence test is applied to `{norm(xres)[-110:]}` modulo `{mres}`: not (k + b) − k' in integer mesh coordinates modulo the mesh")
    if not okx:
        return
    k1, ib, k2 = bb["K1_"], bb["IB_"], bb["K2_"]
    # what is recorded under the test
    body_txt = [norm(s_) for s_ in tst.body]
    gq = f"{b['X_']} // {b['M_']}"
    stored_inline = None
    for s_ in tst.body:
        pass
    form_inline = len(tst.body) >= 2 and any(pmatch(s_, f"NB_[A_][B_] = {k2}", {"NB_", "A_", "B_"}) for s_ in tst.body) and \
        any(pmatch(s_, f"GG_[A_][B_] = {gq}", {"GG_", "A_", "B_"}) for s_ in tst.body)
    form_return = len(tst.body) == 1 and isinstance(tst.body[0], ast.Return) and isinstance(tst.body[0].value, ast.Tuple) and \
        [norm(x) for x in tst.body[0].value.elts] == [k2, gq]
    loop = enclosing(S.pm, tst, ast.For)
    from .common import index_domain
    iv, seqs = index_domain(loop) if loop is not None else (None, [])
    k2var = k2 if k2.isidentifier() else None
    cover = loop is not None and (iv == k2 or (isinstance(loop.target, ast.Name) and loop.target.id == k2)) and \
        (any(S.rnorm(ast.parse(q_, mode="eval").body, S.cfg.node(loop)) == bb["KL_"] or q_ == fg.params[1] for q_ in seqs) or
         S.rnorm(loop.iter, S.cfg.node(loop)) in (f"range({fg.params[1]}.shape[0])", f"range(len({fg.params[1]}))"))
    r3.check(cover, "every k-point of the list is a candidate neighbour", g, loop or tst, "the candidate loop does not run over all k-points")
    if form_inline:
        nbm = [pmatch(s_, f"NB_[A_][B_] = {k2}", {"NB_", "A_", "B_"}) for s_ in tst.body if pmatch(s_, f"NB_[A_][B_] = {k2}", {"NB_", "A_", "B_"})][0][0][1]
        ggm = [pmatch(s_, f"GG_[A_][B_] = {gq}", {"GG_", "A_", "B_"}) for s_ in tst.body if pmatch(s_, f"GG_[A_][B_] = {gq}", {"GG_", "A_", "B_"})][0][0][1]
        def rr(t_):
            return S.rnorm(ast.parse(t_, mode="eval").body, at)
        r3.check((rr(nbm["A_"]), rr(nbm["B_"])) == (k1, ib) == (rr(ggm["A_"]), rr(ggm["B_"])) and isinstance(tst.body[-1], ast.Break),
                 "neighbour index and G = g // mesh are stored together for the same (k, b), then the search stops", g, tst,
                 f"under the congruence test the code does {body_txt}: neighbour index and lattice shift are not stored together for the (k, b) pair the "
                 f"test was made for (k + b = k' + G is violated for some entries)")
        r3.check(loop is not None and bool(loop.orelse) and isinstance(loop.orelse[-1], ast.Raise), "a missing neighbour raises", g, loop or tst,
                 "a missing neighbour no longer raises (entry silently left at 0)")
    elif form_return and g is not fg:
        S._bind_caller()
        if S._caller is None:
            r3.expect(False, "helper has one call site", g, g.node, f"{g.qualname}: a single call site was not found")
            return
        CS, call, _ = S._caller
        cst = enclosing(CS.pm, call, ast.stmt)
        found = cst.targets[0].id if isinstance(cst, ast.Assign) and isinstance(cst.targets[0], ast.Name) and cst.value is call else None
        okstore = False
        okraise = False
        if found:
            for s_ in ast.walk(CS.node):
                m2 = pmatch(s_, f"NB_[A_][B_], GG_[A_][B_] = {found}", {"NB_", "GG_", "A_", "B_"}) if isinstance(s_, ast.Assign) else None
                if m2 and m2[0][0] is s_:
                    a2, b2 = m2[0][1]["A_"], m2[0][1]["B_"]
                    okstore = (CS.rnorm(ast.parse(a2, mode="eval").body, CS.cfg.node(s_)), CS.rnorm(ast.parse(b2, mode="eval").body, CS.cfg.node(s_))) == (k1, ib) or (a2, b2) == (k1, ib)
                    okraise = any(t_ == f"{found} is None" and p_ is False for t_, p_, _ in CS.conditions(s_, resolve=False))
        elif isinstance(cst, ast.Assign) and isinstance(cst.targets[0], ast.Tuple) and cst.value is call:
            m2 = pmatch(cst, "NB_[A_][B_], GG_[A_][B_] = ANY", {"NB_", "GG_", "A_", "B_"})
            okstore = bool(m2) and (m2[0][1]["A_"], m2[0][1]["B_"]) == (k1, ib)
        r3.check(okstore, "the helper's (index, G) is stored into neighbours[k][b], G[k][b] of the (k, b) pair it was searched for", CS.fi or fg, cst,
                 "the result of the neighbour search is not stored as (neighbours[k][b], G[k][b]) for the (k, b) pair that was searched")
        tail = g.node.body[-1]
        none_end = isinstance(tail, ast.Return) and (tail.value is None or const_of(tail.value) is None) or not isinstance(tail, (ast.Return, ast.Raise))
        r3.check(okraise or (isinstance(tail, ast.Raise)), "a missing neighbour raises", CS.fi or fg, cst,
                 "a missing neighbour no longer raises (the helper's None / fall-through is not turned into an error)")
    else:
        r3.check(False, "neighbour and G recorded under the test", g, tst,
                 f"under the congruence test the code does {body_txt}: neighbour index and lattice shift g // mesh are not recorded together")


def _vector_idiom(r3, idx, fg) -> bool:
    """Vectorised neighbour search: D[b, k'] = (k + b_b) − k' for all b, k' at once; match mask = all(D % mesh == 0, axis=-1);
    neighbour = first True per row (argmax), G = D[b, neighbour] // mesh; a row without a match raises.  False if not this form."""
    S = Sem(idx, fg)
    mp = fg.params[3] if len(fg.params) > 3 else "mp_grid"
    masks = []
    for st in stmts(fg.node):
        if isinstance(st, ast.Assign) and len(st.targets) == 1 and isinstance(st.targets[0], ast.Name):
            m_ = pmatch(st.value, "np.all(X_ % M_ == 0, axis=AX_)", {"X_", "M_", "AX_"}) or pmatch(st.value, "(X_ % M_ == 0).all(axis=AX_)", {"X_", "M_", "AX_"})
            if m_ and m_[0][0] is st.value:
                masks.append((st, m_[0][1]))
    if len(masks) != 1:
        return False
    mst, b = masks[0]
    mask = mst.targets[0].id
    at = S.cfg.node(mst)
    r3.idiom("vectorised search: difference array over (b, k'), match mask, first match per b by argmax")
    xs = ast.parse(b["X_"], mode="eval").body
    xres = S.resolve(xs, at)
    mres = S.rnorm(ast.parse(b["M_"], mode="eval").body, at)
    bb = None
    for pat in ("(KL_[K1_] + BG_)[:, None, :] - KL_[None, :, :]", "(BG_ + KL_[K1_])[:, None, :] - KL_[None, :, :]",
                "(KL_[K1_] + BG_)[:, np.newaxis, :] - KL_[np.newaxis, :, :]", "(KL_[K1_] + BG_)[:, None] - KL_[None]",
                "(KL_[K1_] + BG_)[:, None, :] - KL_[None]", "(KL_[K1_] + BG_)[:, None] - KL_"):
        m_ = pmatch(xres, pat, {"KL_", "K1_", "BG_"})
        if m_ and m_[0][0] is xres:
            bb = m_[0][1]
            break
    okkl = bb is not None and any(bb["KL_"] == f"np.rint({fg.params[1]} * {g_}).astype(int)" for g_ in (mp, f"{mp}[None, :]", f"np.array({mp}, dtype=int)[None, :]",
                                                                                                    f"np.array({mp})[None, :]", f"np.array({mp}, dtype=int)", f"np.array({mp})"))
    okbg = bb is not None and bb["BG_"] == fg.params[2]
    okm = mres in (mp, f"np.array({mp}, dtype=int)", f"np.array({mp})")
    okax = b["AX_"].replace(" ", "") in ("2", "-1")
    r3.check(bb is not None and okkl and okbg and okm and okax,
             "the mask is ((k + b) − k') ≡ 0 (mod mesh) in all three components, for every (b, k') on the integer mesh coordinates rint(k·mesh)", fg, mst,
             f"the match mask is computed from `{norm(xres)[-120:]}` modulo `{mres}` over axis {b['AX_']}: not (k + b_b) − k' for all b (rows) and k' (columns) "
             f"in integer mesh coordinates modulo the mesh")
    if bb is None:
        return True
    k1 = bb["K1_"]
    firsts = []
    for st in stmts(fg.node):
        if isinstance(st, ast.Assign) and len(st.targets) == 1 and isinstance(st.targets[0], ast.Name):
            m_ = pmatch(st.value, f"{mask}.argmax(axis=AX_)", {"AX_"}) or pmatch(st.value, f"np.argmax({mask}, axis=AX_)", {"AX_"})
            if m_ and m_[0][0] is st.value:
                firsts.append((st, m_[0][1]["AX_"].replace(" ", "")))
    if not r3.expect(len(firsts) == 1, "first match located", fg, mst, f"find_G_and_neighbours: `{mask}.argmax(axis=1)` (first matching k' per b) not found exactly once"):
        return True
    fst, fax = firsts[0]
    first = fst.targets[0].id
    r3.check(fax in ("1", "-1"), "the first match is taken along the k' axis of the mask", fg, fst,
             f"`{norm1(fst)}` takes the arg-max over axis {fax} of the (b, k') mask: that is not the neighbour of each b")
    xname = b["X_"] if b["X_"].isidentifier() else None
    nb_ok = gg_ok = False
    where = fst
    for st in stmts(fg.node):
        if not (isinstance(st, ast.Assign) and len(st.targets) == 1 and isinstance(st.targets[0], ast.Subscript)):
            continue
        tg = st.targets[0]
        base = tg.value if (isinstance(tg.slice, ast.Slice) and tg.slice.lower is None and tg.slice.upper is None) or norm(tg.slice) == "..." else tg
        if not (isinstance(base, ast.Subscript) and isinstance(base.value, ast.Name)):
            continue
        key = S.rnorm(base.slice, S.cfg.node(st))
        if norm(st.value) == first:
            nb_ok = key == k1
            where = st
        else:
            for xn in ([xname] if xname else []) + [b["X_"]]:
                m_ = pmatch(st.value, f"{xn}[IDX_, {first}] // M_", {"IDX_", "M_"})
                if m_ and m_[0][0] is st.value:
                    idxr = S.rnorm(ast.parse(m_[0][1]["IDX_"], mode="eval").body, S.cfg.node(st))
                    gg_ok = key == k1 and idxr.startswith("np.arange(") and S.rnorm(ast.parse(m_[0][1]["M_"], mode="eval").body, S.cfg.node(st)) == mres
    r3.check(nb_ok and gg_ok, "neighbour index = first match and G = D[b, first match] // mesh are stored for the k-point the differences were built for", fg, where,
             "the first match per b and the lattice shift D[b, match] // mesh are not both stored under the k-point the difference array was built for "
             "(k + b = k' + G is violated for some entries)")
    # a b-vector without any match must raise before the stores
    raises = [i_ for i_ in stmts(fg.node) if isinstance(i_, ast.If) and any(isinstance(x, ast.Raise) for x in i_.body)]
    ok_raise = False
    for i_ in raises:
        sl, _, _ = S.du.backward_slice(i_.test, S.cfg.node(i_))
        if any(isinstance(n, ast.Name) and n.id == mask for e in list(sl) + [i_.test] for n in ast.walk(e)) and i_.lineno < where.lineno:
            ok_raise = True
    r3.check(ok_raise, "a missing neighbour raises", fg, where, "a b-vector with no matching k-point no longer raises (argmax of an all-False row is 0: "
             "k-point 0 would silently be stored as neighbour)")
    return True


def _search_box(fb, FS=None):
    """(symmetric?, description) for the candidate-vector box of find_bk_vectors; (None, why) when the form is unknown."""
    from ..algebra import Rat, to_rat
    cfg, du, pm = fctx(fb)
    defs = [s for s in stmts(fb.node) if isinstance(s, ast.Assign) and is_name(s.targets[0], "k_latt")]
    if len(defs) != 1:
        return None, "no single assignment to k_latt"
    st = defs[0]
    at = cfg.node(st)

    def env(x):
        if isinstance(x, ast.Subscript):
            base = du.resolve_local(x.value, at) if isinstance(x.value, ast.Name) else x.value
            sl = x.slice
            if isinstance(sl, ast.Constant) and isinstance(sl.value, int):
                return Rat.sym(f"{norm(x.value)}_{sl.value}")
            # broadcasting subscripts [None, :] do not change the value
            elts = sl.elts if isinstance(sl, ast.Tuple) else [sl]
            if all((isinstance(e, ast.Constant) and e.value is None) or (isinstance(e, ast.Slice) and e.lower is None and e.upper is None and e.step is None) for e in elts):
                return to_rat(x.value, env)
        if isinstance(x, ast.Name):
            d = du.single_def(x.id, at)
            if d is not None and d.kind == "assign" and isinstance(d.value, (ast.BinOp, ast.Subscript, ast.Name, ast.Constant)) \
                    and not any(isinstance(n, ast.Call) for n in ast.walk(d.value)):
                return to_rat(d.value, env)
            return Rat.sym(x.id)
        return None

    v = st.value
    # form A: np.array([(i, j, k) for i in range(lo, hi) for j in … for k in …])
    lc = None
    for n in ast.walk(v):
        if isinstance(n, (ast.ListComp, ast.GeneratorExp)) and len(n.generators) == 3:
            lc = n
    if lc is not None:
        tv = [g.target.id for g in lc.generators if isinstance(g.target, ast.Name)]
        if not (isinstance(lc.elt, ast.Tuple) and [norm(e) for e in lc.elt.elts] == tv and len(tv) == 3):
            return None, "comprehension does not yield the tuple of its three loop variables in order"
        desc = []
        ok = True
        for g in lc.generators:
            if not (isinstance(g.iter, ast.Call) and call_name(g.iter) == "range" and 1 <= len(g.iter.args) <= 2 and not g.ifs):
                return None, f"generator `{norm1(g.iter)}` is not range(lo, hi)"
            lo = to_rat(g.iter.args[0], env) if len(g.iter.args) == 2 else Rat.const(0)
            hi = to_rat(g.iter.args[-1], env)
            sym = (lo + hi - Rat.const(1)).is_zero()
            ok = ok and sym
            desc.append(f"{g.target.id} ∈ [{norm(g.iter.args[0]) if len(g.iter.args) == 2 else 0}, {norm(g.iter.args[-1])})")
        return ok, "; ".join(desc)
    # form C: itertools.product(range, range, range) / product(*[range(lo(i), hi(i)) for i in range(3)])
    pc = [c_ for c_ in ast.walk(v) if isinstance(c_, ast.Call) and call_name(c_) in ("product", "itertools.product")]
    if len(pc) == 1:
        pa = pc[0].args
        rngs = None
        if len(pa) == 3 and all(isinstance(x, ast.Call) and call_name(x) == "range" for x in pa):
            rngs = [(x, None) for x in pa]
        elif len(pa) == 1 and isinstance(pa[0], ast.Starred):
            lst = du.resolve_local(pa[0].value, at)
            if isinstance(lst, ast.ListComp) and len(lst.generators) == 1 and norm(lst.generators[0].iter) == "range(3)" and isinstance(lst.elt, ast.Call) \
                    and call_name(lst.elt) == "range" and isinstance(lst.generators[0].target, ast.Name):
                rngs = [(lst.elt, lst.generators[0].target.id)]
            elif isinstance(lst, (ast.List, ast.Tuple)) and len(lst.elts) == 3 and all(isinstance(x, ast.Call) and call_name(x) == "range" for x in lst.elts):
                rngs = [(x, None) for x in lst.elts]
        if rngs is not None:
            ok = True
            desc = []
            for rc_, ivar in rngs:
                if not 1 <= len(rc_.args) <= 2:
                    return None, f"`{norm1(rc_)}` is not range(lo, hi)"

                def env2(x, ivar=ivar):
                    if ivar is not None and isinstance(x, ast.Subscript) and norm(x.slice) == ivar:
                        return Rat.sym(f"{norm(x.value)}_i")
                    return env(x)
                lo = to_rat(rc_.args[0], env2) if len(rc_.args) == 2 else Rat.const(0)
                hi = to_rat(rc_.args[-1], env2)
                ok = ok and (lo + hi - Rat.const(1)).is_zero()
                desc.append(norm1(rc_))
            return ok, "product of " + ", ".join(desc)
    # form B: np.array(list(np.ndindex(*E))) - O
    if isinstance(v, ast.BinOp) and isinstance(v.op, ast.Sub):
        nd = [c_ for c_ in ast.walk(v.left) if isinstance(c_, ast.Call) and call_name(c_).endswith("ndindex")]
        if len(nd) == 1 and len(nd[0].args) == 1 and isinstance(nd[0].args[0], ast.Starred):
            E = to_rat(nd[0].args[0].value, env)
            O = to_rat(v.right, env)
            sym = (E - Rat.const(1) - O - O).is_zero()
            return sym, f"ndindex extent {norm(nd[0].args[0].value)} shifted by {norm(v.right)}"
    return None, f"`{norm1(v, 80)}`"


def _label_idiom(fg):
    """Recognise `labels = (k % mesh) @ strides` neighbour lookup; returns (ok, message, node) or None."""
    from ..algebra import Rat, to_rat
    cfg, du, pm = fctx(fg)
    cand = []
    for n in ast.walk(fg.node):
        if isinstance(n, ast.BinOp) and isinstance(n.op, ast.MatMult) and isinstance(n.left, ast.BinOp) and isinstance(n.left.op, ast.Mod):
            cand.append(n)
    if not cand:
        return None
    res = None
    for n in cand:
        at = du.node_of_expr(n)
        sv = du.resolve_local(n.right, at)
        if isinstance(sv, ast.Call) and call_name(sv) in ("np.array", "numpy.array", "np.asarray") and sv.args:
            sv = sv.args[0]
        if not (isinstance(sv, (ast.List, ast.Tuple)) and len(sv.elts) == 3):
            return None
        mesh = n.left.right
        mname = norm(mesh.value if isinstance(mesh, ast.Subscript) else mesh)

        def env(x, mname=mname):
            if isinstance(x, ast.Subscript) and norm(x.value) == mname and isinstance(x.slice, ast.Constant):
                return Rat.sym(f"n{x.slice.value}")
            return None
        strides = [to_rat(e, env) for e in sv.elts]
        nsym = [Rat.sym(f"n{i}") for i in range(3)]
        import itertools
        inj = False
        for p in itertools.permutations(range(3)):
            if strides[p[0]].equals(Rat.const(1)) and strides[p[1]].equals(nsym[p[0]]) and strides[p[2]].equals(nsym[p[0]] * nsym[p[1]]):
                inj = True
        st = enclosing(pm, n, ast.stmt)
        if not inj:
            return (False, f"the k-point label `{norm1(n)}` with strides {[norm(e) for e in sv.elts]} is not an injective mixed-radix index of the "
                    f"mesh ({mname}[0] × {mname}[1] × {mname}[2]): on anisotropic meshes different k-points share a label, a wrong neighbour is "
                    f"returned and k + b ≠ k' + G", st)
        res = (True, "", st)
    # G must be the exact quotient of (k+b) − k'
    gdef = [s for s in stmts(fg.node) if isinstance(s, ast.Assign) and isinstance(s.targets[0], ast.Subscript) and norm(s.targets[0].value) == "G"]
    okg = any(isinstance(s.value, ast.BinOp) and isinstance(s.value.op, ast.FloorDiv) and isinstance(s.value.left, ast.BinOp)
              and isinstance(s.value.left.op, ast.Sub) for s in gdef)
    if res and not okg:
        return (False, "G is not stored as ((k + b) − k') // mesh next to the neighbour found by label", gdef[0] if gdef else fg.node)
    return res


def check_axis_roles(ctx) -> None:
    """R22.4 — in bkvectors.py the mesh divisions (one per reciprocal-lattice vector) are only combined with axes that run over lattice
    vectors, and Cartesian b-vectors are lattice coordinates contracted with the lattice-vector axis of recip_lattice / mp_grid."""
    from .roles import RoleMismatch, roles_of
    idx = ctx.index
    r4 = ctx.rule("R22.4", "mesh divisions act on the lattice-vector axis (axis-role typing)", min_instances=3)
    LAT2 = ("lat", "cart")

    def base_for(S, at):
        def base(e):
            t = norm(e)
            short = t[5:] if t.startswith("self.") else t
            if short == "recip_lattice":
                return LAT2
            if short == "mp_grid":
                return ("lat",)
            if short in ("bk_grid", "kpt_grid", "bk_latt", "k_latt", "kpt_latt", "bk_red", "kpt_red", "bk_grid_new"):
                return (None, "lat")
            if short in ("bk_cart", "k_cart", "kpt_cart"):
                return (None, "cart")
            if isinstance(e, ast.Name):
                ds = S.du.reaching(e.id, at)
                if len(ds) == 1 and ds[0].kind == "assign" and ds[0].value is not None and e.id not in S._mutated:
                    try:
                        return roles_of(ds[0].value, base_for(S, ds[0].node))
                    except RoleMismatch:
                        return None
            return None
        return base
    n_sites = 0
    for f in idx.all_functions():
        if f.module.relpath != BK:
            continue
        S = Sem(idx, f)
        for st in stmts(f.node):
            for e in ast.walk(st):
                if not (isinstance(e, (ast.BinOp, ast.Call)) and "mp_grid" in norm(e)):
                    continue
                # only maximal expressions: skip nodes whose parent is also a candidate
                par = S.pm.get(e)
                if isinstance(par, (ast.BinOp, ast.Call)) and "mp_grid" in norm(par) and not isinstance(par, ast.Call) or \
                        (isinstance(par, ast.Attribute) and isinstance(S.pm.get(par), ast.Call)):
                    continue
                try:
                    at = S.cfg.node(st)
                    r_ = roles_of(e, base_for(S, at))
                except RoleMismatch as ex:
                    n_sites += 1
                    r4.instance(f"{f.short}: {norm1(e, 70)}")
                    r4.violation(f, st, f"{f.qualname}: {ex.why}: the mesh divisions (one per reciprocal-lattice vector) are applied to the wrong axis, so the "
                                 f"Cartesian b-vectors are no longer the images of the lattice-coordinate b-vectors (Σ_b w_b b bᵀ ≠ 1 for anisotropic meshes)",
                                 stmt=norm1(ex.node, 80))
                    continue
                if r_ is not None:
                    n_sites += 1
                    r4.instance(f"{f.short}: {norm1(e, 70)} : {r_}")
                    tgt = st.targets[0] if isinstance(st, ast.Assign) and len(st.targets) == 1 and st.value is e else None
                    if tgt is not None and norm(tgt).split(".")[-1] in ("bk_cart",):
                        r4.check(r_[-1] == "cart", "bk_cart carries Cartesian components on its last axis", f, st,
                                 f"`{norm1(st, 80)}` has axis roles {r_}: its last axis is not Cartesian")
                    else:
                        r4.ok(f"{f.short}: `{norm1(e, 60)}` is role-consistent {r_}")
    r4.expect(n_sites >= 3, "expressions with mp_grid typed", BK, None, f"only {n_sites} expressions involving mp_grid could be typed in bkvectors.py")


from ..selftest import V  # noqa: E402

SELFTEST = [
    V("b-vectors with positive weight only kept after the completeness check (seeded C22-m5)", BK,
      "            search_supercell=search_supercell)\n        G, neighbours = cls.find_G_and_neighbours(kpoints_red, bk_grid, mp_grid, kptirr=kptirr)\n",
      "            search_supercell=search_supercell)\n        keep = wk > 1e-8\n        wk, bk_cart, bk_grid = wk[keep], bk_cart[keep], bk_grid[keep]\n        G, neighbours = cls.find_G_and_neighbours(kpoints_red, bk_grid, mp_grid, kptirr=kptirr)\n",
      "fire", "R22.1"),
    V("lattice shell list not updated with its Cartesian twin (seeded C22-m6)", BK,
      "                    shell_list_cart.append(shell_new_cart)\n                    shell_list_latt.append(shell_new_latt)\n",
      "                    shell_list_cart.append(shell_new_cart)\n", "fire", "R22.2"),
    V("completeness test removed for the message mode", BK,
      "        if tol > bk_complete_tol:\n            if msg_if_fail:\n                return \"incomplete shells\"\n            else:",
      "        if tol > bk_complete_tol:\n            if msg_if_fail:\n                pass\n            else:", "fire", "R22.1"),
    V("mesh divisions applied to the Cartesian axis of recip_lattice (seeded C22-m4)", BK, "self.bk_cart = bk_grid.dot(recip_lattice / self.mp_grid[:, None])",
      "self.bk_cart = bk_grid.dot(recip_lattice / self.mp_grid[None, :])", "fire", "R22.4"),
    V("squared lstsq residual compared with the tolerance (seeded C22-m3)", BK,
      "        check_eye = sum(w * m for w, m in zip(weight_shell, shell_mat))\n        tol = np.linalg.norm(check_eye - np.eye(3))\n",
      "        check_eye = sum(w * m for w, m in zip(weight_shell, shell_mat))\n        weight_shell, _res, _rk, _sv = np.linalg.lstsq(shell_mat.reshape(-1, 9).T, np.eye(3).reshape(-1), rcond=None)\n        tol = float(_res[0])\n",
      "fire", "R22.1"),
    V("tolerance compared with the wrong sign", BK, "        if tol > bk_complete_tol:\n            if msg_if_fail:\n                return \"incomplete shells\"",
      "        if tol < bk_complete_tol:\n            if msg_if_fail:\n                return \"incomplete shells\"", "fire", "R22.1"),
    V("tested matrix built from a different shell list", BK, "check_eye = sum(w * m for w, m in zip(weight_shell, shell_mat))",
      "check_eye = sum(w * m for w, m in zip(weight_shell, shell_mat[:1]))", "fire", "R22.1"),
    V("shell truncated to its first half", BK, "            for kl, kc in zip(sh_klatt, sh_kcart):", "            for kl, kc in zip(sh_klatt[::2], sh_kcart[::2]):", "fire", "R22.2"),
    V("asymmetric search box", BK, "for j in range(-search_limit[1], search_limit[1] + 1)", "for j in range(0, search_limit[1] + 1)", "fire", "R22.2"),
    V("G stored outside the congruence test", BK,
      "                    if np.all(g % mp_grid == 0):\n                        neighbours[kirr][ib] = ik2\n                        G[kirr][ib] = g // mp_grid\n                        break",
      "                    G[kirr][ib] = g // mp_grid\n                    if np.all(g % mp_grid == 0):\n                        neighbours[kirr][ib] = ik2\n                        break", "fire", "R22.3"),
    V("missing neighbour tolerated", BK, "                else:\n                    raise RuntimeError(\n                        f\"Could not find a neighbour for k-point",
      "                else:\n                    print(\n                        f\"Could not find a neighbour for k-point", "fire", "R22.3"),
    V("seeded C22-m2: ndindex box misses the +L layer", BK,
      "        k_latt = np.array([(i, j, k) for i in range(-search_limit[0], search_limit[0] + 1)\n                        for j in range(-search_limit[1], search_limit[1] + 1)\n                        for k in range(-search_limit[2], search_limit[2] + 1)])",
      "        k_latt = np.array(list(np.ndindex(*(2 * search_limit)))) - search_limit[None, :]", "fire", "R22.2"),
    V("neutral: ndindex box with the full 2L+1 extent", BK,
      "        k_latt = np.array([(i, j, k) for i in range(-search_limit[0], search_limit[0] + 1)\n                        for j in range(-search_limit[1], search_limit[1] + 1)\n                        for k in range(-search_limit[2], search_limit[2] + 1)])",
      "        k_latt = np.array(list(np.ndindex(*(2 * search_limit + 1)))) - search_limit[None, :]", "silent"),
    V("neutral: box limits in local names", BK,
      "        k_latt = np.array([(i, j, k) for i in range(-search_limit[0], search_limit[0] + 1)",
      "        L0 = search_limit[0]\n        k_latt = np.array([(i, j, k) for i in range(-L0, 1 + L0)", "silent"),
    V("neutral: renamed variables in the neighbour search", BK,
      "                    g = k_latt_int_nb - k_latt_int[ik2]\n                    if np.all(g % mp_grid == 0):\n                        neighbours[kirr][ib] = ik2\n                        G[kirr][ib] = g // mp_grid\n                        break",
      "                    dk = k_latt_int_nb - k_latt_int[ik2]\n                    if np.all(dk % mp_grid == 0):\n                        neighbours[kirr][ib] = ik2\n                        G[kirr][ib] = dk // mp_grid\n                        break", "silent"),
    V("neighbour stored for the wrong b", BK, "k_latt_int_nb = k_latt_int[kirr] + bk_grid[ib]", "k_latt_int_nb = k_latt_int[kirr] + bk_grid[ib - 1]", "fire", "R22.3"),
    V("neutral: renamed loop variables in the expansion", BK,
      "            for kl, kc in zip(sh_klatt, sh_kcart):\n                bk_grid.append(kl)\n                bk_cart.append(kc)\n                wk.append(w)",
      "            for b_latt, b_cart in zip(sh_klatt, sh_kcart):\n                bk_grid.append(b_latt)\n                bk_cart.append(b_cart)\n                wk.append(w)", "silent"),
]
