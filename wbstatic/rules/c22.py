"""C22 — finite-difference b-vectors satisfy the completeness relation (guard clauses).

R22.1 whatever b-vectors/weights are returned passed the completeness test ‖Σ_s w_s Σ_{b∈s} b bᵀ − 1‖ ≤ bk_complete_tol.
R22.2 whole shells: every vector of a selected shell is returned with the shell's weight; the search box is symmetric
      (closed under b → −b); shells come from one partition by length.
R22.3 neighbours: index and lattice shift are stored together under the integer test (k + b − k') mod mesh = 0, with a
      for/else raise when no neighbour exists.
"""
from __future__ import annotations

import ast
from typing import Dict, List, Optional

from ..index import AnalysisError, call_name, norm, norm1, names_in
from .common import calls, enclosing, enclosing_all, fctx, in_body, is_name, method_calls, pfind, pmatch, stmts

LEVEL = "other"
EXPLANATION = (
    "CFG dominance in BKVectors.get_shell_weights: the success return is reachable only through the fall-through of "
    "`if tol > bk_complete_tol:` whose body leaves on every path, and `tol` is (def-use) the norm of Σ w_s·(Bᵀ B)_s − 1 built "
    "from the very shells that are then expanded into the returned vectors; find_bk_vectors / from_kpoints / from_nnkp return "
    "only values flowing from that success return. Whole-shell expansion, the symmetric search box and the paired "
    "neighbour/G stores under the integer congruence test are structural rules. Decides that whatever is returned satisfies "
    "the completeness relation to the tolerance and k + b = k' + G exactly; does not decide that a solution is found.")

BK = "wannierberri/w90files/bkvectors.py"


def run(ctx) -> None:
    idx = ctx.index
    c = idx.cls(BK, "BKVectors")

    # ---------------------------------------------------------------- R22.1
    r1 = ctx.rule("R22.1", "returned b-vectors passed the completeness test", min_instances=3)
    gw = c.methods.get("get_shell_weights")
    if gw is None:
        raise AnalysisError("BKVectors.get_shell_weights vanished")
    cfg, du, pm = fctx(gw)
    r1.instance(gw.short)
    rets = [s for s in stmts(gw.node) if isinstance(s, ast.Return) and isinstance(s.value, ast.Tuple)]
    if len(rets) != 1:
        raise AnalysisError("get_shell_weights: expected one tuple return (success)")
    ok_ret = rets[0]
    tests = [s for s in stmts(gw.node) if isinstance(s, ast.If) and isinstance(s.test, ast.Compare) and len(s.test.ops) == 1
             and isinstance(s.test.ops[0], (ast.Gt, ast.GtE)) and norm(s.test.comparators[0]) == "bk_complete_tol"]
    if len(tests) != 1:
        r1.violation(gw, ok_ret, "the completeness test `tol > bk_complete_tol` is gone from get_shell_weights: incomplete shell sets are "
                     "returned as if they satisfied Σ_b w_b b_i b_j = δ_ij", stmt="completeness test missing")
    else:
        tst = tests[0]
        tnode = cfg.node(tst)
        # the body of the test must not fall through
        body_nodes = {cfg.node_of[n] for s in tst.body for n in ast.walk(s) if n in cfg.node_of}
        falls = [b for b in body_nodes if any(y not in body_nodes and y not in (cfg.exit, cfg.raise_) for y in cfg.g.successors(b))]
        r1.check(not falls, "a failed completeness test leaves the function (return message / raise)", gw, tst,
                 "when the completeness test fails the function can still fall through to the success return")
        r1.check(cfg.dominates(tnode, cfg.node(ok_ret)), "the success return is dominated by the completeness test", gw, ok_ret,
                 "the success return of get_shell_weights can be reached without passing the completeness test",
                 path=cfg.describe_path(cfg.path_avoiding(cfg.entry, cfg.node(ok_ret), [tnode]) or []))
        # what is tested
        tolname = norm(tst.test.left)
        sl, _, _ = du.backward_slice(tst.test.left, tnode)
        txt = " ".join(norm(e) for e in sl).replace(" ", "")
        r1.check("np.linalg.norm(check_eye-np.eye(3))" in txt and "sum((w*mforw,minzip(weight_shell,shell_mat)))" in txt
                 and "kcart.T.dot(kcart)forkcartinshell_kcart" in txt,
                 f"`{tolname}` = ‖Σ_s w_s (Bᵀ B)_s − 1‖ over the candidate shells", gw, tst,
                 f"the tested quantity `{tolname}` is no longer the deviation of Σ_s w_s Σ_b b bᵀ from the identity for the shells that are "
                 f"returned")
    for mname in ("find_bk_vectors", "from_kpoints", "from_nnkp"):
        m = c.methods.get(mname)
        if m is None:
            raise AnalysisError(f"BKVectors.{mname} vanished")
        r1.instance(m.short)
        mcfg, mdu, mpm = fctx(m)
        if mname == "find_bk_vectors":
            rr = [s for s in stmts(m.node) if isinstance(s, ast.Return) and s.value is not None]
            for rt in rr:
                sl, _, _ = mdu.backward_slice(rt.value, mcfg.node(rt))
                src = [e for e in sl if isinstance(e, ast.Call) and call_name(e).endswith("get_shell_weights")]
                guard = [g for g in enclosing_all(mpm, rt, ast.If) if "isinstance(wkbk, str)" in norm(g.test) and in_body(g.orelse, rt)]
                r1.check(bool(src) and bool(guard), "returned (wk, bk_cart, bk_grid) is the success value of get_shell_weights", m, rt,
                         f"find_bk_vectors returns `{norm1(rt.value)}` which is not the (non-message) result of get_shell_weights")
        else:
            w = [x for x in ast.walk(m.node) if isinstance(x, ast.Call) and call_name(x).endswith(("find_bk_vectors", "get_shell_weights"))]
            ctor = [x for x in ast.walk(m.node) if isinstance(x, ast.Call) and norm(x.func) == "cls" and any(k.arg == "wk" for k in x.keywords)]
            okf = bool(w) and bool(ctor)
            if okf:
                kw = {k.arg: k.value for k in ctor[0].keywords}
                for fld in ("wk", "bk_grid"):
                    sl, _, _ = mdu.backward_slice(kw[fld], mdu.node_of_expr(ctor[0]))
                    okf = okf and any(e is w[0] or (isinstance(e, ast.Call) and call_name(e).endswith(("find_bk_vectors", "get_shell_weights"))) for e in sl)
            r1.check(okf, f"{mname}: weights and b-vectors of the object come from the checked solver", m, ctor[0] if ctor else m.node,
                     f"{mname} builds the BKVectors object from weights/vectors that did not pass get_shell_weights")

    # ---------------------------------------------------------------- R22.2
    r2 = ctx.rule("R22.2", "whole shells with one weight; symmetric search box", min_instances=2)
    r2.instance(f"{gw.short}: expansion loop")
    exp = pmatch(gw.node, "for W, SKL, SKC in zip(weight_shell, shell_klatt, shell_kcart):\n    for KL, KC in zip(SKL, SKC):\n        BG.append(KL)\n        BC.append(KC)\n        WK.append(W)",
                 {"W", "SKL", "SKC", "KL", "KC", "BG", "BC", "WK"})
    r2.check(len(exp) == 1, "every vector of every selected shell is returned with its shell's weight", gw, gw.node,
             "the shells are no longer expanded vector by vector with the shell weight (a shell is truncated, or weights are mis-assigned): "
             "the returned set is not closed under b → −b / not made of whole shells", stmt="shell expansion")
    fb = c.methods["find_bk_vectors"]
    r2.instance(f"{fb.short}: search box")
    t = norm(fb.node).replace(" ", "")
    box_ok = all(f"range(-search_limit[{i}],search_limit[{i}]+1)" in t for i in range(3))
    r2.check(box_ok, "candidate vectors: the symmetric box −L … L in every direction", fb, fb.node,
             "the search box is not symmetric (range(−L, L+1) in every direction): shells are not closed under b → −b", stmt="search box")
    ks = c.methods["k_to_shells"]
    tk = norm(ks.node).replace(" ", "")
    r2.check("shell_kcart=[k_cart[b1:b2]forb1,b2inzip(brd,brd[1:])]" in tk and "shell_klatt=[k_latt[b1:b2]forb1,b2inzip(brd,brd[1:])]" in tk
             and "select_nonzero=k_length>kmesh_tol" in tk and "srt=np.argsort(k_length)" in tk,
             "shells = consecutive blocks of the length-sorted non-zero vectors (lattice and Cartesian forms cut alike)", ks, ks.node,
             "k_to_shells no longer cuts the sorted vectors into the same blocks for lattice and Cartesian coordinates", stmt="k_to_shells")
    r2.check("basis=recip_lattice/mp_grid[:,None]" in t and "k_cart=k_latt@basis" in t, "Cartesian b = integer coordinates · (reciprocal lattice / mesh)", fb, fb.node,
             "the mesh basis is no longer recip_lattice / mp_grid", stmt="basis")

    # ---------------------------------------------------------------- R22.3
    r3 = ctx.rule("R22.3", "neighbour index and lattice shift satisfy k + b = k' + G")
    fg = c.methods.get("find_G_and_neighbours")
    r3.instance(fg.short)
    gcfg, gdu, gpm = fctx(fg)
    tests = [s for s in ast.walk(fg.node) if isinstance(s, ast.If) and norm(s.test).replace(" ", "") == "np.all(g%mp_grid==0)"]
    if len(tests) != 1:
        raise AnalysisError("find_G_and_neighbours: congruence test `np.all(g % mp_grid == 0)` not found")
    tst = tests[0]
    body = [norm(s).replace(" ", "") for s in tst.body]
    r3.check("neighbours[kirr][ib]=ik2" in body and "G[kirr][ib]=g//mp_grid" in body and body[-1] == "break",
             "neighbour and G are stored together under the congruence test, then the search stops", fg, tst,
             f"under the congruence test the code does {body}: neighbour index and lattice shift are not stored together (k + b = k' + G "
             f"is violated for some entries)")
    gd = gdu.single_def("g", gcfg.node(tst))
    nb = gdu.single_def("k_latt_int_nb", gd.node) if gd is not None else None
    r3.check(gd is not None and norm(gd.value).replace(" ", "") == "k_latt_int_nb-k_latt_int[ik2]" and nb is not None and
             norm(nb.value).replace(" ", "") == "k_latt_int[kirr]+bk_grid[ib]", "g = (k + b) − k' in integer mesh coordinates", fg, gd.stmt if gd else tst,
             "g is no longer (k + b) − k' on the integer mesh")
    lp = enclosing(gpm, tst, ast.For)
    r3.check(lp is not None and lp.orelse and isinstance(lp.orelse[0], ast.Raise) and norm(lp.iter) == "range(NK)",
             "all k-points are candidates and a missing neighbour raises", fg, lp or tst, "a missing neighbour no longer raises (entry silently left at 0)")
    t = norm(fg.node).replace(" ", "")
    r3.check("k_latt_int=np.rint(kpoints_red*mp_grid).astype(int)" in t, "mesh coordinates are integers (rint)", fg, fg.node,
             "k-points are no longer converted to integer mesh coordinates", stmt="rint")


from ..selftest import V  # noqa: E402

SELFTEST = [
    V("completeness test removed for the message mode", BK,
      "        if tol > bk_complete_tol:\n            if msg_if_fail:\n                return \"incomplete shells\"\n            else:",
      "        if tol > bk_complete_tol:\n            if msg_if_fail:\n                pass\n            else:", "fire", "R22.1"),
    V("tolerance compared with the wrong sign", BK, "        if tol > bk_complete_tol:\n            if msg_if_fail:\n                return \"incomplete shells\"",
      "        if tol < bk_complete_tol:\n            if msg_if_fail:\n                return \"incomplete shells\"", "fire", "R22.1"),
    V("tested matrix built from a different shell list", BK, "check_eye = sum(w * m for w, m in zip(weight_shell, shell_mat))",
      "check_eye = sum(w * m for w, m in zip(weight_shell, shell_mat[:1]))", "fire", "R22.1"),
    V("shell truncated to its first half", BK, "            for kl, kc in zip(sh_klatt, sh_kcart):", "            for kl, kc in zip(sh_klatt[::2], sh_kcart[::2]):", "fire", "R22.2"),
    V("asymmetric search box", BK, "for j in range(-search_limit[1], search_limit[1] + 1)", "for j in range(0, search_limit[1] + 1)", "fire", "R22.2"),
    V("G stored outside the congruence test", BK,
      "                    if np.all(g % mp_grid == 0):\n                        neighbours[kirr][ib] = ik2\n                        G[kirr][ib] = g // mp_grid\n                        break",
      "                    G[kirr][ib] = g // mp_grid\n                    if np.all(g % mp_grid == 0):\n                        neighbours[kirr][ib] = ik2\n                        break", "fire", "R22.3"),
    V("missing neighbour tolerated", BK, "                else:\n                    raise RuntimeError(\n                        f\"Could not find a neighbour for k-point",
      "                else:\n                    print(\n                        f\"Could not find a neighbour for k-point", "fire", "R22.3"),
    V("neutral: renamed loop variables in the expansion", BK,
      "            for kl, kc in zip(sh_klatt, sh_kcart):\n                bk_grid.append(kl)\n                bk_cart.append(kc)\n                wk.append(w)",
      "            for b_latt, b_cart in zip(sh_klatt, sh_kcart):\n                bk_grid.append(b_latt)\n                bk_cart.append(b_cart)\n                wk.append(w)", "silent"),
]
