"""C23 — Monkhorst-Pack mesh detection / point selection (guard clauses).

R23.1 selection: an index is selected only when its integer mesh coordinate was not seen before (test, add and append in one
      guarded block); both returns are dominated by the two cardinality tests, so |selected| = ∏ grid with pairwise distinct
      on-grid coordinates ⇒ every mesh point exactly once; incomplete meshes raise.
R23.2 detection: the mesh size per direction is the denominator of the smallest non-zero coordinate, and every point is then
      verified to lie on that mesh.
"""
from __future__ import annotations

import ast

from ..index import AnalysisError, call_name, norm, norm1
from .common import enclosing, fctx, in_body, is_name, method_calls, pfind, pmatch, stmts

LEVEL = "other"
EXPLANATION = (
    "CFG dominance and same-block pairing in w90files.utility.grid_from_kpoints: `selected.append(i)`, `seen.add(kint)` and "
    "the membership test `kint not in seen` form one guarded block, `kint` derives from round(k·grid), and both return "
    "statements are dominated by `if n < ∏grid: raise` and `if n > ∏grid: raise`. Distinct on-grid integer coordinates whose "
    "count equals the mesh size are exactly the mesh points, each once. get_mp_grid's final on-mesh assertion is checked "
    "structurally. Not decided: the floating-point fraction arithmetic of the detection.")

UT = "wannierberri/w90files/utility.py"


def run(ctx) -> None:
    idx = ctx.index
    f = idx.function(UT, "grid_from_kpoints")
    cfg, du, pm = fctx(f)

    r1 = ctx.rule("R23.1", "each mesh point selected exactly once; incomplete meshes rejected")
    r1.instance(f.short)
    app = [c for c in method_calls(f.node, "append") if norm(c.func.value) == "selected_kpoints"]
    if len(app) != 1:
        raise AnalysisError("grid_from_kpoints: selected_kpoints.append not found")
    a = app[0]
    g = enclosing(pm, a, ast.If)
    seen = None
    ok = False
    if g is not None and isinstance(g.test, ast.Compare) and isinstance(g.test.ops[0], ast.NotIn) and in_body(g.body, a):
        key, seen = norm(g.test.left), norm(g.test.comparators[0])
        adds = [c for c in method_calls(g, "add") if norm(c.func.value) == seen and norm(c.args[0]) == key and in_body(g.body, c)]
        ok = bool(adds)
        kd = du.single_def(key, cfg.node(g)) if key.isidentifier() else None
        okk = kd is not None and "np.round(k * npgrid)" in norm(kd.value) and "astype(int)" in norm(kd.value)
        r1.check(okk, "the uniqueness key is the integer mesh coordinate round(k·grid)", f, kd.stmt if kd else g,
                 f"uniqueness is tested on `{norm1(kd.value) if kd else key}`, not on the integer mesh coordinate of the k-point")
    r1.check(ok, "test `kint not in seen`, seen.add(kint) and selected.append(i) form one guarded block", f, enclosing(pm, a, ast.stmt),
             "a k-point index is selected without the 'not seen before' test / without recording its mesh coordinate: a mesh point can be "
             "selected twice")
    lp = enclosing(pm, a, ast.For)
    r1.check(lp is not None and norm(lp.iter) == "enumerate(kpoints)" and norm(a.args[0]) == norm(lp.target.elts[0]),
             "the selected value is the index of the k-point in the input order", f, lp or a, "the selected value is not the input index of the k-point")
    og = [x for x in ast.walk(lp) if isinstance(x, ast.If) and "is_round(k * npgrid" in norm(x.test)] if lp is not None else []
    r1.check(len(og) == 1 and in_body(og[0].body, a), "only points lying on the mesh are candidates", f, og[0] if og else (lp or a),
             "points that are not on the requested mesh can be selected")
    rets = [s for s in stmts(f.node) if isinstance(s, ast.Return)]
    lt = [s for s in stmts(f.node) if isinstance(s, ast.If) and norm(s.test).replace(" ", "") in ("num_selected<num_k_grid", "num_k_grid>num_selected") and isinstance(s.body[-1], ast.Raise)]
    gt = [s for s in stmts(f.node) if isinstance(s, ast.If) and norm(s.test).replace(" ", "") in ("num_selected>num_k_grid", "num_k_grid<num_selected") and isinstance(s.body[-1], ast.Raise)]
    r1.check(len(lt) == 1 and len(gt) == 1 and all(cfg.dominates(cfg.node(t), cfg.node(r)) for t in lt + gt for r in rets) and len(rets) == 2,
             "both returns are dominated by the 'too few' and 'too many' tests", f, rets[0] if rets else f.node,
             "a return of grid_from_kpoints is reachable without the cardinality tests: an incomplete (or over-complete) mesh is accepted")
    t = norm(f.node).replace(" ", "")
    r1.check("num_selected=len(selected_kpoints)" in t and "num_k_grid=np.prod(npgrid)" in t and "npgrid=np.array(grid)" in t,
             "the tests compare |selected| with ∏ grid", f, f.node, "the cardinality tests no longer compare the number of selected points with the mesh size", stmt="cardinalities")

    r2 = ctx.rule("R23.2", "detected mesh is verified against every point")
    gm = idx.function(UT, "get_mp_grid")
    r2.instance(gm.short)
    tg = norm(gm.node).replace(" ", "")
    r2.check("kmin=min(kfrac)" in tg and "mp_grid[i]=kmin.denominator" in tg and "assertkmin.numerator==1" in tg and "kfrac=[kforkinkfracifk!=0]" in tg,
             "mesh size = denominator of the smallest non-zero coordinate (numerator 1 required)", gm, gm.node,
             "get_mp_grid no longer derives the mesh from the smallest non-zero fractional coordinate", stmt="kmin")
    asserts = [s for s in stmts(gm.node) if isinstance(s, ast.Assert) and "% 1" in norm(s.test)]
    rt = [s for s in stmts(gm.node) if isinstance(s, ast.Return)]
    gcfg = fctx(gm)[0]
    r2.check(len(asserts) == 1 and all(gcfg.dominates(gcfg.node(asserts[0]), gcfg.node(r)) for r in rt) and "kpoints*mp_grid[None,:]" in tg,
             "every k-point is asserted to lie on the detected mesh before it is returned", gm, asserts[0] if asserts else gm.node,
             "the detected mesh is returned without verifying that all k-points lie on it")
    r2.check("kpoints=np.round(np.array(kpoints),8)%1" in tg, "coordinates are reduced to [0,1) first", gm, gm.node, "coordinates are no longer reduced modulo 1", stmt="mod 1")


from ..selftest import V  # noqa: E402

SELFTEST = [
    V("repeated points are selected again", UT, "            if kint not in kpoints_unique:\n                kpoints_unique.add(kint)\n                selected_kpoints.append(i)\n            else:\n                warnings.warn(f\"k-point {k} is repeated\")",
      "            kpoints_unique.add(kint)\n            selected_kpoints.append(i)", "fire", "R23.1"),
    V("seen-set never updated", UT, "                kpoints_unique.add(kint)\n", "", "fire", "R23.1"),
    V("incomplete mesh only warned about", UT, "        raise ValueError(f\"Some k-points are missing {num_selected} < {num_k_grid}\")", "        warnings.warn(f\"Some k-points are missing {num_selected} < {num_k_grid}\")",
      "fire", "R23.1"),
    V("early return of the grid before the tests", UT, "    num_selected = len(selected_kpoints)\n", "    if returngrid:\n        return grid\n    num_selected = len(selected_kpoints)\n", "fire", "R23.1"),
    V("mesh returned unverified", UT, "    assert np.allclose(np.round(k1, 6) % 1, 0), (\n        f\"some kpoints are not on the Monkhorst-Pack grid {mp_grid}:\\n {k1}\")\n", "", "fire", "R23.2"),
    V("neutral: renamed seen-set", UT, "kpoints_unique", "seen_kpoints", "skip"),
]
