"""C23 — Monkhorst-Pack mesh detection / point selection (guard clauses).

R23.1 selection: an index is selected only when its integer mesh coordinate was not seen before (test, add and append in one
      guarded block); both returns are dominated by the two cardinality tests, so |selected| = ∏ grid with pairwise distinct
      on-grid coordinates ⇒ every mesh point exactly once; incomplete meshes raise.
R23.2 detection: the mesh size per direction is the denominator of the smallest non-zero coordinate, and every point is then
      verified to lie on that mesh.
"""
from __future__ import annotations

import ast

from ..index import AnalysisError, call_name, norm, norm1
from ..sem import Sem, reachable_helpers
from .common import Frag, const_of, enclosing, fctx, in_body, is_name, kwarg, method_calls, pfind, pmatch, stmts

LEVEL = "other"
EXPLANATION = (
    "CFG dominance and same-block pairing in w90files.utility.grid_from_kpoints: `selected.append(i)`, `seen.add(kint)` and "
    "the membership test `kint not in seen` form one guarded block, `kint` derives from round(k·grid), and both return "
    "statements are dominated by `if n < ∏grid: raise` and `if n > ∏grid: raise`. Distinct on-grid integer coordinates whose "
    "count equals the mesh size are exactly the mesh points, each once. get_mp_grid's final on-mesh assertion is checked "
    "structurally. Not decided: the floating-point fraction arithmetic of the detection.")

UT = "wannierberri/w90files/utility.py"


def run(ctx) -> None:
    idx = ctx.index
    f = idx.function(UT, "grid_from_kpoints")
    S = Sem(idx, f)
    cfg, du, pm = S.cfg, S.du, S.pm
    kpp, gridp = f.params[0], f.params[1]

    r1 = ctx.rule("R23.1", "each mesh point selected exactly once; incomplete meshes rejected")
    r1.instance(f.short)
    # whatever the formulation: the selected indices refer to the k-point list that was passed in, never to a mask-filtered copy of it
    from ..taint import masked_index_escapes
    for n_, m_, why_ in masked_index_escapes(f.node, fctx(f)[1]):
        r1.violation(f, n_, f"grid_from_kpoints: {why_}: when the list contains points that are not on the requested mesh (before on-mesh ones) the "
                     f"returned indices point at other k-points", stmt="positions in a filtered list")
    loops = [s_ for s_ in stmts(f.node) if isinstance(s_, ast.For) and norm(s_.iter) == f"enumerate({kpp})" and isinstance(s_.target, ast.Tuple) and len(s_.target.elts) == 2]
    if len(loops) != 1:
        r1.expect(False, "selection loop located", f, f.node, f"grid_from_kpoints: `for i, k in enumerate({kpp})` not found")
        return
    lp = loops[0]
    iv, kv = norm(lp.target.elts[0]), norm(lp.target.elts[1])
    # the statement that records index i: `selected.append(i)` (list + seen-set) or `first[kint] = i` (dict, first occurrence wins)
    rec = []
    for s_ in ast.walk(lp):
        if isinstance(s_, ast.Expr) and isinstance(s_.value, ast.Call) and isinstance(s_.value.func, ast.Attribute) and s_.value.func.attr == "append" \
                and s_.value.args and norm(s_.value.args[0]) == iv:
            rec.append(("list", s_, norm(s_.value.func.value), None))
        if isinstance(s_, ast.Assign) and isinstance(s_.targets[0], ast.Subscript) and norm(s_.value) == iv and isinstance(s_.targets[0].value, ast.Name):
            rec.append(("dict", s_, norm(s_.targets[0].value), s_.targets[0].slice))
    if len(rec) != 1:
        r1.expect(False, "selection store located", f, lp, "grid_from_kpoints: the single statement recording the selected index (`selected.append(i)` or `first[kint] = i`) was not found")
        return
    kind, a, sel, keynode = rec[0]
    conds = S.conditions(a, resolve=False)
    GRID_OK = (f"np.array({gridp})", f"np.asarray({gridp})", gridp)

    def grid_like(txt: str) -> bool:
        e_ = ast.parse(txt, mode="eval").body
        alts = {txt}
        try:
            alts |= {norm(x) for x in S.alternatives(e_, cfg.node(a))}
        except Exception:
            pass
        return any(x in GRID_OK or any(x == f"np.array({y})" for y in ("tuple(", )) for x in alts) or any(x.startswith("np.array(") for x in alts)
    # membership test on the integer mesh coordinate
    seen, key = None, None
    for t_, p_, _ in conds:
        m_ = pmatch(ast.parse(t_, mode="eval").body, "KEY_ in SEEN_", {"KEY_", "SEEN_"})
        if m_ and p_ is False and isinstance(m_[0][0], ast.Compare) and m_[0][0] is not None and t_ == f"{m_[0][1]['KEY_']} in {m_[0][1]['SEEN_']}":
            key, seen = m_[0][1]["KEY_"], m_[0][1]["SEEN_"]
    ok = False
    if key is not None:
        if kind == "list":
            blk = next((b_ for b_ in (getattr(pm[a], "body", []), getattr(pm[a], "orelse", [])) if a in b_), [])
            ok = any(isinstance(x, ast.Expr) and isinstance(x.value, ast.Call) and norm(x.value.func) == f"{seen}.add" and x.value.args and norm(x.value.args[0]) == key for x in blk)
        else:
            ok = seen == sel and norm(keynode) == key
        kres = S.resolve(ast.parse(key, mode="eval").body, cfg.node(a))
        okk = False
        KV = (kv, f"{kpp}[{iv}]")
        for pat in [p_ for k_ in KV for p_ in (f"tuple(np.round({k_} * G_).astype(int))", f"tuple(np.rint({k_} * G_).astype(int))", f"tuple(np.round({k_} * G_).astype(int) % G_)")]:
            m_ = pmatch(kres, pat, {"G_"})
            if m_ and m_[0][0] is kres and (m_[0][1]["G_"] in GRID_OK or grid_like(m_[0][1]["G_"])):
                okk = True
        r1.check(okk, "the uniqueness key is the integer mesh coordinate round(k·grid)", f, a,
                 f"uniqueness is tested on `{norm1(kres, 90)}`, not on the integer mesh coordinate round(k·grid) of the k-point")
        sd = [d for ds in du.defs_at.values() for d in ds if d.name == seen]
        r1.check(len(sd) == 1 and sd[0].value is not None and norm(sd[0].value) in ("set()", "{}", "dict()") and cfg.dominates(sd[0].node, cfg.node(lp)) and enclosing(pm, sd[0].stmt, ast.For) is None,
                 "the seen-container starts empty, once, before the loop", f, sd[0].stmt if sd else a, f"`{seen}` is re-initialised / not empty before the selection loop")
    r1.check(ok, "test `kint not in seen`, recording kint and selecting i form one guarded block", f, a,
             "a k-point index is selected without the 'not seen before' test / without recording its mesh coordinate: a mesh point can be "
             "selected twice")
    # only points on the mesh are candidates
    on_ok, tol = False, None
    for t_, p_, _ in S.conditions(a, resolve=True):
        if not p_:
            continue
        e_ = ast.parse(t_, mode="eval").body
        for k_ in (kv, f"{kpp}[{iv}]"):
            m1 = pmatch(e_, f"is_round({k_} * G_, prec=TOL_)", {"G_", "TOL_"})
            m2 = pmatch(e_, f"np.linalg.norm({k_} * G_ - np.round({k_} * G_)) < TOL_", {"G_", "TOL_"})
            for m_ in (m1, m2):
                if m_ and m_[0][0] is e_:
                    on_ok = True
                    tol = const_of(ast.parse(m_[0][1]["TOL_"], mode="eval").body)
            m3 = pmatch(e_, f"is_round({k_} * G_)", {"G_"})
            if m3 and m3[0][0] is e_:
                on_ok, tol = True, 1e-8
    r1.check(on_ok, "only points lying on the mesh are candidates", f, a, "points that are not on the requested mesh can be selected")
    if on_ok:
        r1.check(isinstance(tol, float) and 0 < tol < 0.5, f"on-mesh tolerance {tol} cannot merge neighbouring mesh points (< 1/2)", f, a,
                 f"the on-mesh tolerance {tol} is so large that off-mesh points round onto mesh points")
    rets = [s_ for s_ in stmts(f.node) if isinstance(s_, ast.Return)]
    SEL_FORMS = (f"len({sel})", f"len(list({sel}.values()))", f"len({sel}.values())", f"len({sel}.keys())")

    def card_test(s_):
        if not (isinstance(s_, ast.If) and isinstance(s_.test, ast.Compare) and len(s_.test.ops) == 1 and s_.body and isinstance(s_.body[-1], ast.Raise)):
            return None
        at = cfg.node(s_)

        def counts_selected(nm: str) -> bool:
            """`nm` starts at 0 and is incremented by one exactly next to every `sel.append(...)` (a running len(sel))"""
            asg = [x for x in ast.walk(f.node) if isinstance(x, ast.Assign) and any(isinstance(t_, ast.Name) and t_.id == nm for t_ in x.targets)]
            aug = [x for x in ast.walk(f.node) if isinstance(x, ast.AugAssign) and isinstance(x.target, ast.Name) and x.target.id == nm]
            apps = [x for x in ast.walk(f.node) if isinstance(x, ast.Expr) and isinstance(x.value, ast.Call) and isinstance(x.value.func, ast.Attribute)
                    and x.value.func.attr == "append" and norm(x.value.func.value) == sel]
            if len(asg) != 1 or const_of(asg[0].value) != 0 or not aug or len(aug) != len(apps):
                return False
            for a_ in aug:
                if not (isinstance(a_.op, ast.Add) and const_of(a_.value) == 1):
                    return False
                blk_ = next((b_ for n_ in ast.walk(f.node) for b_ in (getattr(n_, "body", None), getattr(n_, "orelse", None)) if isinstance(b_, list) and a_ in b_), None)
                if blk_ is None:
                    return False
                i_ = blk_.index(a_)
                if not any(0 <= j_ < len(blk_) and blk_[j_] in apps for j_ in (i_ - 1, i_ + 1)):
                    return False
            return True

        def kind_of(e):
            if isinstance(e, ast.Name) and counts_selected(e.id):
                return "sel"
            r_ = S.resolve(e, at)
            t_ = norm(r_)
            if t_ in SEL_FORMS:
                return "sel"
            for pat in ("np.prod(G_)", "G_.prod()"):
                m2 = pmatch(r_, pat, {"G_"})
                if m2 and m2[0][0] is r_ and (m2[0][1]["G_"] in GRID_OK or grid_like(m2[0][1]["G_"])):
                    return "mesh"
            return None
        kl, kr = kind_of(s_.test.left), kind_of(s_.test.comparators[0])
        op = s_.test.ops[0]
        if (kl, kr) == ("sel", "mesh"):
            return "<" if isinstance(op, ast.Lt) else ">" if isinstance(op, ast.Gt) else "!=" if isinstance(op, ast.NotEq) else None
        if (kl, kr) == ("mesh", "sel"):
            return "<" if isinstance(op, ast.Gt) else ">" if isinstance(op, ast.Lt) else "!=" if isinstance(op, ast.NotEq) else None
        return None
    tests = {}
    for s_ in stmts(f.node):
        k_ = card_test(s_)
        if k_:
            tests.setdefault(k_, []).append(s_)
    have_lt = tests.get("<", []) + tests.get("!=", [])
    have_gt = tests.get(">", []) + tests.get("!=", [])
    r1.check(bool(have_lt) and bool(have_gt) and bool(rets) and all(any(cfg.dominates(cfg.node(t_), cfg.node(r_)) for t_ in have_lt) and
                                                                   any(cfg.dominates(cfg.node(t_), cfg.node(r_)) for t_ in have_gt) for r_ in rets),
             "every return is dominated by `|selected| < ∏grid → raise` and `|selected| > ∏grid → raise`", f, rets[0] if rets else f.node,
             "a return of grid_from_kpoints is reachable without comparing the number of SELECTED points with the mesh size ∏grid in both directions: an "
             "incomplete (or over-complete) selection is accepted", stmt="cardinalities")
    SEL_RET = (sel, f"list({sel}.values())", f"list({sel})")

    def ret_ok(v) -> bool:
        if v is None:
            return False
        if isinstance(v, ast.IfExp):
            return ret_ok(v.body) and ret_ok(v.orelse)
        t_ = norm(v)
        if t_ == gridp or t_ in SEL_RET:
            return True
        return isinstance(v, ast.Tuple) and all(ret_ok(x) for x in v.elts)

    def has_sel(v) -> bool:
        return v is not None and any(norm(x) in SEL_RET for x in ast.walk(v) if isinstance(x, ast.expr))
    r1.check(any(has_sel(r_.value) for r_ in rets) and all(ret_ok(r_.value) for r_ in rets),
             "the selected indices are what is returned", f, rets[0] if rets else f.node, f"grid_from_kpoints does not return the selection `{sel}`")
    seld = [d for ds in du.defs_at.values() for d in ds if d.name == sel]
    r1.check(len(seld) == 1 and norm(seld[0].value) in ("[]", "list()", "{}", "dict()") and enclosing(pm, seld[0].stmt, ast.For) is None, "the selection starts empty, once", f,
             seld[0].stmt if seld else f.node, f"`{sel}` is rebound / not empty before the loop")

    r2 = ctx.rule("R23.2", "detected mesh is verified against every point")
    gm = idx.function(UT, "get_mp_grid")
    r2.instance(gm.short)
    kp2 = gm.params[0]
    GMS = Sem(idx, gm)
    # the three directions are independent: inside the loop over the directions every value that is read must have been computed in the same
    # pass (a name assigned only on some path of the body would carry the previous direction's value into this one)
    for lp_ in [x for x in ast.walk(gm.node) if isinstance(x, ast.For)]:
        if not (isinstance(lp_.iter, ast.Call) and call_name(lp_.iter) == "range" and len(lp_.iter.args) == 1 and norm(lp_.iter.args[0]) == "3"):
            continue
        assigned_ = {}
        for b_ in lp_.body:
            for st_ in ast.walk(b_):
                if isinstance(st_, ast.Assign):
                    for t_ in st_.targets:
                        if isinstance(t_, ast.Name):
                            assigned_.setdefault(t_.id, []).append(st_)
        first_ = GMS.cfg.node(lp_.body[0])
        reported_ = set()
        for b_ in lp_.body:
            for st_ in ast.walk(b_):
                if not isinstance(st_, ast.stmt):
                    continue
                hdr_ = [st_.test] if isinstance(st_, (ast.If, ast.While)) else [st_.iter] if isinstance(st_, ast.For) else [st_] if not isinstance(st_, (ast.With, ast.Try)) else []
                try:
                    use_ = GMS.cfg.node(st_)
                except Exception:
                    continue
                for h_ in hdr_:
                    for nm_ in ast.walk(h_):
                        if not (isinstance(nm_, ast.Name) and isinstance(nm_.ctx, ast.Load) and nm_.id in assigned_ and nm_.id not in reported_):
                            continue
                        defs_ = {GMS.cfg.node(d_) for d_ in assigned_[nm_.id]} - {use_}
                        if first_ in defs_:
                            continue                      # assigned by the first statement of every pass
                        if use_ == first_ or GMS.cfg.reachable(first_, [use_], avoiding=list(defs_)):
                            reported_.add(nm_.id)
                            r2.violation(gm, st_, f"`{nm_.id}` is read in `{norm1(st_, 70)}` on a path of the loop over the three directions on which this pass has "
                                         f"not assigned it: the value of the previous direction (or the one set before the loop) is used, so a direction "
                                         f"with a single k-point inherits the mesh size of the direction before it")
    site = None
    for h in [gm] + reachable_helpers(idx, gm):
        for c_ in ast.walk(h.node):
            if isinstance(c_, ast.Call) and call_name(c_) == "min" and len(c_.args) == 1:
                site = (h, c_) if site is None else "many"
    if site is None or site == "many":
        r2.expect(False, "smallest coordinate located", gm, gm.node, "get_mp_grid: a single `min(<fractions>)` (in it or its private helpers) was not found")
        return
    h, mn = site
    HS = Sem(idx, h)
    HS.keep_names = {kp2}
    GMS.keep_names = {kp2}
    at = HS.du.node_of_expr(mn)
    cand = HS.resolve(mn.args[0], at)
    ctxt = norm(cand)
    lim = [c_ for c_ in ast.walk(cand) if isinstance(c_, ast.Call) and isinstance(c_.func, ast.Attribute) and c_.func.attr == "limit_denominator"]
    r2.expect(len(lim) >= 1, "rational reconstruction located", h, mn, "get_mp_grid: Fraction(k).limit_denominator(N) not found in the definition of the candidates")
    nmax = const_of(lim[0].args[0] if lim and lim[0].args else None, 1000000) if lim else None
    bad, nz = [], 0
    for c_ in ast.walk(cand):
        if isinstance(c_, ast.Compare) and len(c_.ops) == 1 and isinstance(c_.comparators[0], ast.Constant) and isinstance(c_.comparators[0].value, (int, float)) \
                and not isinstance(c_.comparators[0].value, bool):
            v = c_.comparators[0].value
            if v == 0 and isinstance(c_.ops[0], (ast.NotEq, ast.Gt)):
                nz += 1
            elif isinstance(nmax, int) and 0 < abs(v) < 1.0 / nmax and isinstance(c_.ops[0], (ast.Gt, ast.GtE)):
                nz += 1
            else:
                bad.append(c_)
        if isinstance(c_, ast.BinOp) and isinstance(c_.op, ast.Sub) and isinstance(c_.right, ast.Set) and [const_of(x) for x in c_.right.elts] == [0]:
            nz += 1
    r2.check(not bad and nz >= 1, f"only exact zeros are excluded before the smallest coordinate 1/N (N ≤ {nmax}) is taken", h, enclosing(HS.pm, mn, ast.stmt),
             f"`{norm1(bad[0]) if bad else 'no zero filter'}`: coordinates are discarded by a threshold that is not below 1/{nmax} (the largest mesh the rational "
             f"reconstruction supports): for meshes with 1/N under the threshold the smallest coordinate is lost and a coarser mesh is detected",
             stmt="kmin")
    kst = enclosing(HS.pm, mn, ast.stmt)
    kname = kst.targets[0].id if isinstance(kst, ast.Assign) and isinstance(kst.targets[0], ast.Name) and kst.value is mn else None
    if kname is None:
        r2.expect(False, "kmin assignment", h, kst, "get_mp_grid: `kmin = min(…)` not recognised")
        return
    # which column feeds direction i
    cols = [n for n in ast.walk(cand) if isinstance(n, ast.Subscript) and norm(n.value) in (kp2, f"{kp2}.T")]
    dirv = None
    okcol = bool(cols)
    for n in cols:
        sl = n.slice
        if norm(n.value) == kp2 and isinstance(sl, ast.Tuple) and len(sl.elts) == 2 and isinstance(sl.elts[0], ast.Slice) and isinstance(sl.elts[1], ast.Name):
            dirv = dirv or sl.elts[1].id
            okcol = okcol and sl.elts[1].id == dirv
        elif norm(n.value) == f"{kp2}.T" and isinstance(sl, ast.Name):
            dirv = dirv or sl.id
            okcol = okcol and sl.id == dirv
        else:
            okcol = False
    # the direction loop: `for i in range(3)` / `for i, col in enumerate(kpoints.T)` / comprehension over range(3) around the helper call
    dir_ok = False
    if dirv is not None:
        for fn_ in (h, gm):
            for n in ast.walk(fn_.node):
                if isinstance(n, ast.For) and ((isinstance(n.target, ast.Name) and n.target.id == dirv and norm(n.iter) == "range(3)") or
                                               (isinstance(n.target, ast.Tuple) and norm(n.target.elts[0]) == dirv and norm(n.iter) == f"enumerate({kp2}.T)")):
                    dir_ok = True
                if isinstance(n, (ast.ListComp, ast.GeneratorExp)) and any(isinstance(g_.target, ast.Name) and g_.target.id == dirv and norm(g_.iter) == "range(3)" for g_ in n.generators):
                    dir_ok = True
    r2.check(okcol and dir_ok, "direction i uses column i of the k-points, i = 0, 1, 2", h, kst,
             f"the candidates of direction {dirv} are not taken from column {dirv} of the k-points for the three directions")
    asn = [s_ for s_ in ast.walk(h.node) if isinstance(s_, ast.Assert) and norm(s_.test) in (f"{kname}.numerator == 1", f"1 == {kname}.numerator")]
    # the mesh size of direction i is kmin.denominator: stored into MG[i] (possibly through a temporary) or returned by the helper
    HS.keep_names = HS.keep_names | {kname}
    size_ok, mgn = False, None
    for s_ in ast.walk(h.node):
        if isinstance(s_, ast.Assign) and isinstance(s_.targets[0], ast.Subscript) and dirv is not None and norm(s_.targets[0].slice) == dirv:
            alts = {norm(x) for x in HS.alternatives(s_.value, HS.cfg.node(s_))}
            if f"{kname}.denominator" in alts and alts <= {f"{kname}.denominator", "1"}:
                size_ok, mgn = True, norm(s_.targets[0].value)
            elif norm(s_.value) == f"{kname}.denominator":
                size_ok, mgn = True, norm(s_.targets[0].value)
    if not size_ok:
        # sizes collected direction by direction in a list that becomes the mesh: L.append(kmin.denominator) / L.append(1); MG = np.array(L)
        apps = [c_ for c_ in ast.walk(h.node) if isinstance(c_, ast.Call) and isinstance(c_.func, ast.Attribute) and c_.func.attr == "append" and len(c_.args) == 1
                and isinstance(c_.func.value, ast.Name)]
        lists_ = {c_.func.value.id for c_ in apps if norm(c_.args[0]) == f"{kname}.denominator"}
        for L_ in lists_:
            vals_ = {norm(c_.args[0]) for c_ in apps if c_.func.value.id == L_}
            if vals_ <= {f"{kname}.denominator", "1"}:
                for s_ in stmts(gm.node):
                    if isinstance(s_, ast.Assign) and isinstance(s_.targets[0], ast.Name) and isinstance(s_.value, ast.Call) \
                            and call_name(s_.value) in ("np.array", "np.asarray", "tuple", "list") and s_.value.args and norm(s_.value.args[0]) == L_:
                        size_ok, mgn = True, s_.targets[0].id
    if not size_ok and h is not gm:
        hrets = [s_ for s_ in ast.walk(h.node) if isinstance(s_, ast.Return) and s_.value is not None]
        if hrets and {norm(r_.value) for r_ in hrets} <= {f"{kname}.denominator", "1"} and any(norm(r_.value) == f"{kname}.denominator" for r_ in hrets):
            for s_ in stmts(gm.node):
                if isinstance(s_, ast.Assign) and isinstance(s_.targets[0], ast.Name) and any(isinstance(c_, ast.Call) and norm(c_.func).endswith(h.name) for c_ in ast.walk(s_.value)):
                    size_ok, mgn = True, s_.targets[0].id
    r2.check(size_ok and len(asn) == 1, "mesh size = denominator of the smallest non-zero coordinate (numerator 1 required)", h, kst,
             "get_mp_grid no longer sets the mesh size to the denominator of the smallest non-zero coordinate after asserting its numerator is 1", stmt="denominator")
    gcfg, gdu, gpm = GMS.cfg, GMS.du, GMS.pm
    asserts = [s_ for s_ in gm.node.body if isinstance(s_, ast.Assert)]
    rt = [s_ for s_ in stmts(gm.node) if isinstance(s_, ast.Return)]
    okv = False
    av = None
    if mgn:
        GMS.keep_names = GMS.keep_names | {mgn}
    for cand_a in asserts:
        tres = GMS.resolve(cand_a.test, gcfg.node(cand_a))
        for pat in ("np.allclose(np.round(X_, ANY) % 1, 0)", "np.allclose(X_.round(ANY) % 1, 0)", "np.allclose(X_, np.round(X_))", "np.allclose(X_ % 1, 0)"):
            m_ = pmatch(tres, pat, {"X_"})
            if m_ and m_[0][0] is tres and mgn:
                x_ = m_[0][1]["X_"]
                if any(q in x_ for q in (f"{kp2} * {mgn}[None, :]", f"{kp2} * {mgn}")) or any(q in GMS.rnorm(ast.parse(x_, mode="eval").body, gcfg.node(cand_a)) for q in (f" * {mgn}[None, :]", f" * {mgn}")):
                    av = cand_a
                    okv = all(gcfg.dominates(gcfg.node(av), gcfg.node(r_)) for r_ in rt) and bool(rt) and all(mgn in norm(r_.value) for r_ in rt)
    r2.check(okv, "every k-point is asserted to lie on the detected mesh before the mesh is returned", gm, av or gm.node,
             "the detected mesh is returned without verifying that all k-points (k·mesh integer) lie on it")
    red = gdu.reaching(kp2, gcfg.node(rt[0])) if rt else []
    okr = len(red) == 1 and red[0].value is not None and isinstance(red[0].value, ast.BinOp) and isinstance(red[0].value.op, ast.Mod) and const_of(red[0].value.right) == 1
    r2.check(okr, "coordinates are reduced to [0,1) first", gm, red[0].stmt if red and red[0].stmt is not None else gm.node, "coordinates are no longer reduced modulo 1 before the mesh is detected", stmt="mod 1")


from ..selftest import V  # noqa: E402

SELFTEST = [
    V("smallest coordinate carried over from the previous direction (seeded C23-m5)", UT,
      "        if len(kfrac) == 0:\n            mp_grid[i] = 1\n        else:\n            kmin = min(kfrac)\n",
      "        if len(kfrac) > 0:\n            kmin = min(kfrac)\n        if True:\n", "fire", "R23.2",
      edits=[(UT, "    mp_grid = np.array([None, None, None])\n", "    mp_grid = np.array([None, None, None])\n    kmin = Fraction(1, 1)\n")]),
    V("repeated points are selected again", UT, "            if kint not in kpoints_unique:\n                kpoints_unique.add(kint)\n                selected_kpoints.append(i)\n            else:\n                warnings.warn(f\"k-point {k} is repeated\")",
      "            kpoints_unique.add(kint)\n            selected_kpoints.append(i)", "fire", "R23.1"),
    V("seen-set never updated", UT, "                kpoints_unique.add(kint)\n", "", "fire", "R23.1"),
    V("incomplete mesh only warned about", UT, "        raise ValueError(f\"Some k-points are missing {num_selected} < {num_k_grid}\")", "        warnings.warn(f\"Some k-points are missing {num_selected} < {num_k_grid}\")",
      "fire", "R23.1"),
    V("early return of the grid before the tests", UT, "    num_selected = len(selected_kpoints)\n", "    if returngrid:\n        return grid\n    num_selected = len(selected_kpoints)\n", "fire", "R23.1"),
    V("mesh returned unverified", UT, "    assert np.allclose(np.round(k1, 6) % 1, 0), (\n        f\"some kpoints are not on the Monkhorst-Pack grid {mp_grid}:\\n {k1}\")\n", "", "fire", "R23.2"),
    V("seeded C23-m1: repeated points appended, test counts the seen-set", UT,
      "            if kint not in kpoints_unique:\n                kpoints_unique.add(kint)\n                selected_kpoints.append(i)\n            else:\n                warnings.warn(f\"k-point {k} is repeated\")\n\n    num_selected = len(selected_kpoints)",
      "            if kint in kpoints_unique:\n                warnings.warn(f\"k-point {k} is repeated\")\n            kpoints_unique.add(kint)\n            selected_kpoints.append(i)\n\n    num_selected = len(kpoints_unique)", "fire", "R23.1"),
    V("cardinality test counts the seen-set only", UT, "    num_selected = len(selected_kpoints)", "    num_selected = len(kpoints_unique)", "fire", "R23.1"),
    V("seeded C23-m2: float threshold 1e-2 drops the coordinate 1/100", UT,
      "        kfrac = [Fraction(k).limit_denominator(100) for k in kpoints[:, i]]\n        kfrac = [k for k in kfrac if k != 0]",
      "        knonzero = kpoints[:, i][kpoints[:, i] > 1e-2]\n        kfrac = [Fraction(k).limit_denominator(100) for k in knonzero]", "fire", "R23.2"),
    V("mesh size taken from the numerator", UT, "mp_grid[i] = kmin.denominator", "mp_grid[i] = kmin.numerator", "fire", "R23.2"),
    V("always column 0", UT, "for k in kpoints[:, i]]", "for k in kpoints[:, 0]]", "fire", "R23.2"),
    V("neutral: renamed seen-set", UT, "kpoints_unique", "seen_kpoints", "silent", replace_all=True),
    V("neutral: renamed selection list", UT, "selected_kpoints", "chosen", "silent", replace_all=True),
    V("neutral: renamed kfrac/kmin", UT, "kmin", "k_least", "silent", replace_all=True),
    V("neutral: float pre-filter below 1/100", UT,
      "        kfrac = [Fraction(k).limit_denominator(100) for k in kpoints[:, i]]\n        kfrac = [k for k in kfrac if k != 0]",
      "        kfrac = [Fraction(k).limit_denominator(100) for k in kpoints[:, i] if k > 1e-3]\n        kfrac = [k for k in kfrac if k != 0]", "silent"),
    V("neutral: membership test inverted with else", UT,
      "            if kint not in kpoints_unique:\n                kpoints_unique.add(kint)\n                selected_kpoints.append(i)\n            else:\n                warnings.warn(f\"k-point {k} is repeated\")",
      "            if kint in kpoints_unique:\n                warnings.warn(f\"k-point {k} is repeated\")\n            else:\n                kpoints_unique.add(kint)\n                selected_kpoints.append(i)", "silent"),
]
