"""C23 — Monkhorst-Pack mesh detection / point selection (guard clauses).

R23.1 selection: an index is selected only when its integer mesh coordinate was not seen before (test, add and append in one
      guarded block); both returns are dominated by the two cardinality tests, so |selected| = ∏ grid with pairwise distinct
      on-grid coordinates ⇒ every mesh point exactly once; incomplete meshes raise.
R23.2 detection: the mesh size per direction is the denominator of the smallest non-zero coordinate, and every point is then
      verified to lie on that mesh.
"""
from __future__ import annotations

import ast

from ..index import AnalysisError, call_name, norm, norm1
from .common import Frag, const_of, enclosing, fctx, in_body, is_name, kwarg, method_calls, pfind, pmatch, stmts

LEVEL = "other"
EXPLANATION = (
    "CFG dominance and same-block pairing in w90files.utility.grid_from_kpoints: `selected.append(i)`, `seen.add(kint)` and "
    "the membership test `kint not in seen` form one guarded block, `kint` derives from round(k·grid), and both return "
    "statements are dominated by `if n < ∏grid: raise` and `if n > ∏grid: raise`. Distinct on-grid integer coordinates whose "
    "count equals the mesh size are exactly the mesh points, each once. get_mp_grid's final on-mesh assertion is checked "
    "structurally. Not decided: the floating-point fraction arithmetic of the detection.")

UT = "wannierberri/w90files/utility.py"


def run(ctx) -> None:
    idx = ctx.index
    f = idx.function(UT, "grid_from_kpoints")
    cfg, du, pm = fctx(f)
    kpp, gridp = f.params[0], f.params[1]

    r1 = ctx.rule("R23.1", "each mesh point selected exactly once; incomplete meshes rejected")
    r1.instance(f.short)
    loops = [s_ for s_ in stmts(f.node) if isinstance(s_, ast.For) and norm(s_.iter) == f"enumerate({kpp})" and isinstance(s_.target, ast.Tuple) and len(s_.target.elts) == 2]
    if len(loops) != 1:
        r1.expect(False, "selection loop located", f, f.node, f"grid_from_kpoints: `for i, k in enumerate({kpp})` not found")
        return
    lp = loops[0]
    iv, kv = norm(lp.target.elts[0]), norm(lp.target.elts[1])
    app = [c for c in method_calls(lp, "append") if c.args and norm(c.args[0]) == iv]
    if len(app) != 1:
        r1.expect(False, "selection append located", f, lp, "grid_from_kpoints: the single `selected.append(i)` of the loop was not found")
        return
    a = app[0]
    sel = norm(a.func.value)
    g = enclosing(pm, a, ast.If)
    ok = False
    seen = None
    if g is not None and isinstance(g.test, ast.Compare) and len(g.test.ops) == 1 and \
            ((isinstance(g.test.ops[0], ast.NotIn) and in_body(g.body, a)) or (isinstance(g.test.ops[0], ast.In) and in_body(g.orelse, a))):
        key, seen = norm(g.test.left), norm(g.test.comparators[0])
        arm = g.body if isinstance(g.test.ops[0], ast.NotIn) else g.orelse
        adds = [c for c in method_calls(ast.Module(body=arm, type_ignores=[]), "add") if norm(c.func.value) == seen and c.args and norm(c.args[0]) == key]
        ok = bool(adds)
        kd = du.single_def(key, cfg.node(g)) if key.isidentifier() else None
        npg = None
        okk = False
        if kd is not None and kd.value is not None:
            m_ = pmatch(kd.value, f"tuple(np.round({kv} * G).astype(int))", {"G"}) or pmatch(kd.value, f"tuple(np.rint({kv} * G).astype(int))", {"G"}) \
                or pmatch(kd.value, f"tuple(np.round({kv} * G).astype(int) % G)", {"G"})
            if m_ and m_[0][0] is kd.value:
                npg = m_[0][1]["G"]
                gd = du.resolve_local(ast.Name(id=npg, ctx=ast.Load()), kd.node) if npg.isidentifier() else None
                okk = gd is not None and norm(gd) in (f"np.array({gridp})", f"np.asarray({gridp})", gridp)
        r1.check(okk, "the uniqueness key is the integer mesh coordinate round(k·grid)", f, kd.stmt if kd else g,
                 f"uniqueness is tested on `{norm1(kd.value) if kd else key}`, not on the integer mesh coordinate round(k·grid) of the k-point")
        sd = [d for ds in du.defs_at.values() for d in ds if d.name == seen]
        r1.check(len(sd) == 1 and sd[0].value is not None and norm(sd[0].value) == "set()" and cfg.dominates(sd[0].node, cfg.node(lp)) and enclosing(pm, sd[0].stmt, ast.For) is None,
                 "the seen-set starts empty, once, before the loop", f, sd[0].stmt if sd else g, f"`{seen}` is re-initialised / not an empty set before the selection loop")
    r1.check(ok, "test `kint not in seen`, seen.add(kint) and selected.append(i) form one guarded block", f, enclosing(pm, a, ast.stmt),
             "a k-point index is selected without the 'not seen before' test / without recording its mesh coordinate: a mesh point can be "
             "selected twice")
    og = [x for x in ast.walk(lp) if isinstance(x, ast.If) and any(call_name(c) == "is_round" for c in ast.walk(x.test) if isinstance(c, ast.Call))]
    okog = len(og) == 1 and in_body(og[0].body, a) and bool(pmatch(og[0].test, f"is_round({kv} * G, prec=ANY)", {"G"}) or pmatch(og[0].test, f"is_round({kv} * G)", {"G"}))
    r1.check(okog, "only points lying on the mesh are candidates", f, og[0] if og else lp,
             "points that are not on the requested mesh can be selected")
    if okog:
        pv = const_of(kwarg([c for c in ast.walk(og[0].test) if isinstance(c, ast.Call) and call_name(c) == "is_round"][0], "prec", 1), 1e-8)
        r1.check(isinstance(pv, float) and 0 < pv < 0.5, f"on-mesh tolerance {pv} cannot merge neighbouring mesh points (< 1/2)", f, og[0],
                 f"the on-mesh tolerance {pv} is so large that off-mesh points round onto mesh points")
    rets = [s_ for s_ in stmts(f.node) if isinstance(s_, ast.Return)]

    def card_test(s_):
        """'<' / '>' if s_ is `if |selected| < ∏grid: raise` / `> …: raise`, else None."""
        if not (isinstance(s_, ast.If) and isinstance(s_.test, ast.Compare) and len(s_.test.ops) == 1 and isinstance(s_.body[-1], ast.Raise)):
            return None
        at = cfg.node(s_)
        l_, r_ = du.resolve_local(s_.test.left, at), du.resolve_local(s_.test.comparators[0], at)

        def kind(e):
            if norm(e) == f"len({sel})":
                return "sel"
            m2 = pmatch(e, "np.prod(G)", {"G"})
            if m2 and m2[0][0] is e:
                gsrc = du.resolve_local(ast.Name(id=m2[0][1]["G"], ctx=ast.Load()), at) if m2[0][1]["G"].isidentifier() else None
                if gsrc is not None and norm(gsrc) in (f"np.array({gridp})", f"np.asarray({gridp})", gridp):
                    return "mesh"
            return None
        kl, kr = kind(l_), kind(r_)
        op = s_.test.ops[0]
        if (kl, kr) == ("sel", "mesh"):
            return "<" if isinstance(op, ast.Lt) else ">" if isinstance(op, ast.Gt) else "!=" if isinstance(op, ast.NotEq) else None
        if (kl, kr) == ("mesh", "sel"):
            return "<" if isinstance(op, ast.Gt) else ">" if isinstance(op, ast.Lt) else "!=" if isinstance(op, ast.NotEq) else None
        return None
    tests = {}
    for s_ in stmts(f.node):
        k_ = card_test(s_)
        if k_:
            tests.setdefault(k_, []).append(s_)
    have_lt = tests.get("<", []) + tests.get("!=", [])
    have_gt = tests.get(">", []) + tests.get("!=", [])
    r1.check(bool(have_lt) and bool(have_gt) and bool(rets) and all(any(cfg.dominates(cfg.node(t_), cfg.node(r_)) for t_ in have_lt) and
                                                                   any(cfg.dominates(cfg.node(t_), cfg.node(r_)) for t_ in have_gt) for r_ in rets),
             "every return is dominated by `|selected| < ∏grid → raise` and `|selected| > ∏grid → raise`", f, rets[0] if rets else f.node,
             "a return of grid_from_kpoints is reachable without comparing the number of SELECTED points with the mesh size ∏grid in both directions: an "
             "incomplete (or over-complete) selection is accepted", stmt="cardinalities")
    rv = [r_ for r_ in rets if r_.value is not None and sel in [norm(x) for x in ([r_.value] + (list(r_.value.elts) if isinstance(r_.value, ast.Tuple) else []))]]
    r1.check(len(rv) >= 1 and all(r_ in rv or norm(r_.value) == gridp for r_ in rets),
             "the selected indices are what is returned", f, rv[0] if rv else f.node, f"grid_from_kpoints does not return `{sel}`")
    seld = [d for ds in du.defs_at.values() for d in ds if d.name == sel]
    r1.check(len(seld) == 1 and norm(seld[0].value) in ("[]", "list()") and enclosing(pm, seld[0].stmt, ast.For) is None, "the selection starts empty, once", f,
             seld[0].stmt if seld else f.node, f"`{sel}` is rebound / not empty before the loop")

    r2 = ctx.rule("R23.2", "detected mesh is verified against every point")
    gm = idx.function(UT, "get_mp_grid")
    r2.instance(gm.short)
    gcfg, gdu, gpm = fctx(gm)
    kp2 = gm.params[0]
    mins = [c for c in ast.walk(gm.node) if isinstance(c, ast.Call) and call_name(c) == "min" and len(c.args) == 1]
    if len(mins) != 1:
        r2.expect(False, "smallest coordinate located", gm, gm.node, "get_mp_grid: `min(<fractions>)` not found")
        return
    mn = mins[0]
    at = gdu.node_of_expr(mn)
    sl, _, defs = gdu.backward_slice(mn.args[0], at)
    lim = [c for e in sl for c in ast.walk(e) if isinstance(c, ast.Call) and isinstance(c.func, ast.Attribute) and c.func.attr == "limit_denominator"]
    r2.expect(len(lim) >= 1, "rational reconstruction located", gm, mn, "get_mp_grid: Fraction(k).limit_denominator(N) not found in the definition of the candidates")
    nmax = const_of(lim[0].args[0] if lim and lim[0].args else None, 1000000) if lim else None
    # every threshold comparison on the way from the coordinates to the candidates must only remove exact zeros
    bad = []
    nz = 0
    for e in sl:
        for c in ast.walk(e):
            if isinstance(c, ast.Compare) and len(c.ops) == 1 and isinstance(c.comparators[0], ast.Constant) and isinstance(c.comparators[0].value, (int, float)) \
                    and not isinstance(c.comparators[0].value, bool):
                v = c.comparators[0].value
                if v == 0 and isinstance(c.ops[0], (ast.NotEq, ast.Gt)):
                    nz += 1
                elif isinstance(nmax, int) and 0 < abs(v) < 1.0 / nmax and isinstance(c.ops[0], (ast.Gt, ast.GtE)):
                    nz += 1
                else:
                    bad.append(c)
    r2.check(not bad and nz >= 1, f"only exact zeros are excluded before the smallest coordinate 1/N (N ≤ {nmax}) is taken", gm, gpm and enclosing(gpm, (bad or [mn])[0], ast.stmt),
             f"`{norm1(bad[0]) if bad else 'no zero filter'}`: coordinates are discarded by a threshold that is not below 1/{nmax} (the largest mesh the rational "
             f"reconstruction supports): for meshes with 1/N under the threshold the smallest coordinate is lost and a coarser mesh is detected",
             stmt="kmin")
    kmn = gpm.get(mn)
    kst = enclosing(gpm, mn, ast.stmt)
    kname = kst.targets[0].id if isinstance(kst, ast.Assign) and isinstance(kst.targets[0], ast.Name) and kst.value is mn else None
    lpi = enclosing(gpm, mn, ast.For)
    if kname is None or lpi is None or not isinstance(lpi.target, ast.Name):
        r2.expect(False, "kmin assignment inside the direction loop", gm, kst, "get_mp_grid: `kmin = min(…)` inside `for i in range(3)` not recognised")
        return
    ii = lpi.target.id
    cols = [n for e in sl for n in ast.walk(e) if isinstance(n, ast.Subscript) and norm(n.value) == kp2]
    src = [n for n in cols if pmatch(n, f"{kp2}[:, {ii}]") and pmatch(n, f"{kp2}[:, {ii}]")[0][0] is n]
    src = src if len(src) == len(cols) else []
    r2.check(bool(src) and norm(lpi.iter) == "range(3)", "direction i uses column i of the k-points, i = 0, 1, 2", gm, lpi,
             f"the candidates of direction {ii} are not taken from column {ii} of the k-points for the three directions")
    G = Frag(gm)
    stq = [s_ for s_ in ast.walk(lpi) if isinstance(s_, ast.Assign) and pmatch(s_, f"MG[{ii}] = {kname}.denominator", {"MG"})]
    asn = [s_ for s_ in ast.walk(lpi) if isinstance(s_, ast.Assert) and norm(s_.test) in (f"{kname}.numerator == 1", f"1 == {kname}.numerator")]
    r2.check(len(stq) == 1 and len(asn) == 1, "mesh size = denominator of the smallest non-zero coordinate (numerator 1 required)", gm, kst,
             "get_mp_grid no longer sets the mesh size to the denominator of the smallest non-zero coordinate after asserting its numerator is 1", stmt="denominator")
    mgn = pmatch(stq[0], f"MG[{ii}] = {kname}.denominator", {"MG"})[0][1]["MG"] if stq else None
    asserts = [s_ for s_ in gm.node.body if isinstance(s_, ast.Assert) and any(call_name(c) in ("np.allclose", "np.all") for c in ast.walk(s_.test) if isinstance(c, ast.Call))]
    rt = [s_ for s_ in stmts(gm.node) if isinstance(s_, ast.Return)]
    okv = False
    if len(asserts) == 1 and mgn:
        av = asserts[0]
        sl2, _, _ = gdu.backward_slice(av.test, gcfg.node(av))
        prod_ok = any(pmatch(e, f"{kp2} * {mgn}[None, :]") or pmatch(e, f"{kp2} * {mgn}") for e in sl2)
        mod_ok = bool(pmatch(av.test, "np.allclose(np.round(X, ANY) % 1, 0)", {"X"}) or pmatch(av.test, "np.allclose(X, np.round(X))", {"X"}) or pmatch(av.test, "np.allclose(X % 1, 0)", {"X"}))
        okv = prod_ok and mod_ok and all(gcfg.dominates(gcfg.node(av), gcfg.node(r_)) for r_ in rt) and bool(rt) and all(mgn in norm(r_.value) for r_ in rt)
    r2.check(okv, "every k-point is asserted to lie on the detected mesh before the mesh is returned", gm, asserts[0] if asserts else gm.node,
             "the detected mesh is returned without verifying that all k-points (k·mesh integer) lie on it")
    red = gdu.reaching(kp2, gcfg.node(lpi))
    okr = len(red) == 1 and red[0].value is not None and isinstance(red[0].value, ast.BinOp) and isinstance(red[0].value.op, ast.Mod) and const_of(red[0].value.right) == 1
    r2.check(okr, "coordinates are reduced to [0,1) first", gm, red[0].stmt if red and red[0].stmt is not None else gm.node, "coordinates are no longer reduced modulo 1 before the mesh is detected", stmt="mod 1")


from ..selftest import V  # noqa: E402

SELFTEST = [
    V("repeated points are selected again", UT, "            if kint not in kpoints_unique:\n                kpoints_unique.add(kint)\n                selected_kpoints.append(i)\n            else:\n                warnings.warn(f\"k-point {k} is repeated\")",
      "            kpoints_unique.add(kint)\n            selected_kpoints.append(i)", "fire", "R23.1"),
    V("seen-set never updated", UT, "                kpoints_unique.add(kint)\n", "", "fire", "R23.1"),
    V("incomplete mesh only warned about", UT, "        raise ValueError(f\"Some k-points are missing {num_selected} < {num_k_grid}\")", "        warnings.warn(f\"Some k-points are missing {num_selected} < {num_k_grid}\")",
      "fire", "R23.1"),
    V("early return of the grid before the tests", UT, "    num_selected = len(selected_kpoints)\n", "    if returngrid:\n        return grid\n    num_selected = len(selected_kpoints)\n", "fire", "R23.1"),
    V("mesh returned unverified", UT, "    assert np.allclose(np.round(k1, 6) % 1, 0), (\n        f\"some kpoints are not on the Monkhorst-Pack grid {mp_grid}:\\n {k1}\")\n", "", "fire", "R23.2"),
    V("seeded C23-m1: repeated points appended, test counts the seen-set", UT,
      "            if kint not in kpoints_unique:\n                kpoints_unique.add(kint)\n                selected_kpoints.append(i)\n            else:\n                warnings.warn(f\"k-point {k} is repeated\")\n\n    num_selected = len(selected_kpoints)",
      "            if kint in kpoints_unique:\n                warnings.warn(f\"k-point {k} is repeated\")\n            kpoints_unique.add(kint)\n            selected_kpoints.append(i)\n\n    num_selected = len(kpoints_unique)", "fire", "R23.1"),
    V("cardinality test counts the seen-set only", UT, "    num_selected = len(selected_kpoints)", "    num_selected = len(kpoints_unique)", "fire", "R23.1"),
    V("seeded C23-m2: float threshold 1e-2 drops the coordinate 1/100", UT,
      "        kfrac = [Fraction(k).limit_denominator(100) for k in kpoints[:, i]]\n        kfrac = [k for k in kfrac if k != 0]",
      "        knonzero = kpoints[:, i][kpoints[:, i] > 1e-2]\n        kfrac = [Fraction(k).limit_denominator(100) for k in knonzero]", "fire", "R23.2"),
    V("mesh size taken from the numerator", UT, "mp_grid[i] = kmin.denominator", "mp_grid[i] = kmin.numerator", "fire", "R23.2"),
    V("always column 0", UT, "for k in kpoints[:, i]]", "for k in kpoints[:, 0]]", "fire", "R23.2"),
    V("neutral: renamed seen-set", UT, "kpoints_unique", "seen_kpoints", "silent", replace_all=True),
    V("neutral: renamed selection list", UT, "selected_kpoints", "chosen", "silent", replace_all=True),
    V("neutral: renamed kfrac/kmin", UT, "kmin", "k_least", "silent", replace_all=True),
    V("neutral: float pre-filter below 1/100", UT,
      "        kfrac = [Fraction(k).limit_denominator(100) for k in kpoints[:, i]]\n        kfrac = [k for k in kfrac if k != 0]",
      "        kfrac = [Fraction(k).limit_denominator(100) for k in kpoints[:, i] if k > 1e-3]\n        kfrac = [k for k in kfrac if k != 0]", "silent"),
    V("neutral: membership test inverted with else", UT,
      "            if kint not in kpoints_unique:\n                kpoints_unique.add(kint)\n                selected_kpoints.append(i)\n            else:\n                warnings.warn(f\"k-point {k} is repeated\")",
      "            if kint in kpoints_unique:\n                warnings.warn(f\"k-point {k} is repeated\")\n            else:\n                kpoints_unique.add(kint)\n                selected_kpoints.append(i)", "silent"),
]
