"""C33 — tetrahedron / parallelepiped corner energies are the band energies at the corners (structural clauses).

R33.1 phase provenance: every Fourier transform at a corner multiplies object X's Hamiltonian by a phase array built
      from X's own R-vector list and transforms it with X's own rvec.
R33.2 exhaustiveness: every Data_K class that run() can select defines both corner methods concretely.
R33.3 corner offsets: fast path (phase factors) and reference path (`*_test`, k.p) denote the same corner k-points.
R33.4 band selection and the phonon sqrt map are applied to the corner energies as to the centre energies.
"""
from __future__ import annotations

import ast
from fractions import Fraction
from typing import Dict, List, Optional

from ..algebra import Rat, to_rat
from ..index import AnalysisError, call_name, dotted, norm, norm1, names_in
from ..sem import Sem, inline_private_helpers, unroll_finite_loops
from .common import calls, enclosing, fctx, is_name, method_calls, stmts
from .spin import chain_parts, channel_of_name, loop_owner_vars, owned_leaves, stride2_slots

LEVEL = "other"
EXPLANATION = (
    "Def-use provenance with an owner domain {self, spin-up sub-object, spin-down sub-object}: for every "
    "`X.rvec.R_to_k(M)` in the corner-energy methods, all R-indexed arrays flowing into M (Hamiltonian, phase factors) "
    "must belong to X, because they are indexed by X's R-vector list; the spin block written must match X's channel. "
    "Exhaustiveness over the classes returned by get_data_k_class_from_system via the MRO. Corner offsets of the fast "
    "path are extracted as exact rationals (exponent of exp(2πi R·dK·c), c=∓1/2 by list position) and compared with the "
    "(i−1/2)·dK offsets of the reference and k.p implementations. Not decided: numerical equality of energies.")

DKR = "wannierberri/data_K/data_K_R.py"
DKS = "wannierberri/data_K/data_K_soc.py"
DKK = "wannierberri/data_K/data_K_k.py"
DK = "wannierberri/data_K/data_K.py"
DKI = "wannierberri/data_K/__init__.py"

CORNER_METHODS = ("E_K_corners_tetra", "E_K_corners_parallel")


def reachable_helpers_c33(idx, f):
    from ..sem import reachable_helpers
    return reachable_helpers(idx, f)


def _rtok_owner(c: ast.Call, loopvars) -> Optional[str]:
    p = chain_parts(c.func)
    # [..., 'rvec', 'R_to_k']
    if len(p) >= 3 and p[-1] == "R_to_k" and p[-2] == "rvec":
        if p[0] == "self" and len(p) == 3:
            return "self"
        if p[0] == "self" and len(p) == 4:
            return channel_of_name(p[1]) or "?"
        if p[0] in loopvars and len(p) == 3:
            return "loop:" + p[0]
    return None


def check_owner_consistency(ctx, rule, fi, want_slots: bool):
    """Shared by C33 (R33.1) and C25 (R25.1/2): R_to_k calls in `fi` (private helpers inlined)."""
    from .spin import propagate_channel_aliases
    fi = propagate_channel_aliases(unroll_finite_loops(ctx.index, inline_private_helpers(ctx.index, fi)))
    cfg, du, pm = fctx(fi)
    loopvars = loop_owner_vars(fi.node)
    n = 0
    rtok_calls = list(method_calls(fi.node, "R_to_k"))
    alias_of: Dict[int, ast.AST] = {}
    for c in ast.walk(fi.node):
        # a bound method kept in a local:  f = X.rvec.R_to_k ; f(M)
        if isinstance(c, ast.Call) and isinstance(c.func, ast.Name):
            try:
                d_ = du.single_def(c.func.id, du.node_of_expr(c))
            except AnalysisError:
                d_ = None
            if d_ is not None and d_.kind == "assign" and isinstance(d_.value, ast.Attribute) and d_.value.attr == "R_to_k":
                rtok_calls.append(c)
                alias_of[id(c)] = d_.value
    for c in rtok_calls:
        owner = _rtok_owner(c if id(c) not in alias_of else ast.Call(func=alias_of[id(c)], args=c.args, keywords=c.keywords), loopvars)
        if owner is None:
            rule.expect(False, "", fi, c, f"{fi.short}: cannot tell whose R-vectors `{norm1(c.func)}` uses (receiver is neither self, a spin "
                        f"channel of self, nor a loop variable over an enumerable list of channels)")
            continue
        if not c.args:
            raise AnalysisError(f"{fi.short}: R_to_k without positional matrix argument")
        n += 1
        at = du.node_of_expr(c)
        leaves = owned_leaves(du, c.args[0], at, loopvars)
        rule.instance(f"{fi.short}: {norm1(c.func)}(…) [{owner}]")
        if not leaves:
            raise AnalysisError(f"{fi.short}: no R-indexed source found for the argument of {norm1(c, 60)}")
        bad = [(o, t) for o, t, _ in leaves if o != owner]
        st = enclosing(pm, c, ast.stmt)
        if bad:
            rule.violation(fi, st, f"the matrix transformed with the R-vectors of `{owner}` is built from "
                           f"{', '.join(f'`{t}` (belongs to `{o}`)' for o, t in bad)}: arrays indexed by different "
                           f"R-vector lists are mixed (wrong phases, or a shape error when the lists differ)",
                           owner=owner, sources=[t for _, t, _ in leaves])
        else:
            rule.ok(f"{fi.short}: all R-indexed sources of the `{owner}` transform belong to `{owner}`",
                    [t for _, t, _ in leaves])
        if want_slots and isinstance(st, ast.Assign) and isinstance(st.targets[0], ast.Subscript):
            slots = stride2_slots(st.targets[0])
            if slots:
                exp = None
                if owner in ("up", "down"):
                    exp = 0 if owner == "up" else 1
                    okslot = all(s == exp for s in slots)
                elif owner.startswith("loop:"):
                    # enumerate([... up, down]) → index variable i ↔ position
                    okslot = loopvars[owner[5:]] == ["up", "down"] and all(isinstance(s, str) for s in slots) and \
                        len(set(slots)) == 1
                else:
                    okslot = False
                if okslot:
                    rule.ok(f"{fi.short}: spin block {slots} ↔ channel `{owner}`")
                else:
                    rule.violation(fi, st, f"the `{owner}` channel is written into the interlaced block with offsets "
                                   f"{slots} (convention: even indices = up, odd indices = down, both axes alike)")
    return n


def _exp_factor(fi, ctx, rule) -> Optional[List[Fraction]]:
    """For expdK_corners_parallel: the list of offsets c_i such that element i is exp(2πi·R·dK·c_i)."""
    cfg, du, pm = fctx(fi)
    rets = [s for s in stmts(fi.node) if isinstance(s, ast.Return)]
    if len(rets) != 1:
        raise AnalysisError(f"{fi.short}: expected one return")
    rv = rets[0].value
    if not (isinstance(rv, ast.Call) and call_name(rv) in ("np.array", "numpy.array") and isinstance(rv.args[0], (ast.List, ast.Tuple))):
        raise AnalysisError(f"{fi.short}: return is not np.array([..., ...])")
    at = cfg.node(rets[0])

    def exponent_of(e: ast.AST, n: int) -> Rat:
        """exponent (as rational in symbols) of an expression that is a power of one np.exp(...)"""
        e = du.resolve_local(e, n)
        if isinstance(e, ast.Call) and call_name(e) in ("np.exp", "numpy.exp"):
            def env(x):
                if isinstance(x, ast.Constant) and isinstance(x.value, complex):
                    return Rat.sym("I") * Rat.const(Fraction(str(x.value.imag)))
                if isinstance(x, ast.Attribute) and dotted(x) in ("np.pi", "numpy.pi", "math.pi"):
                    return Rat.sym("PI")
                if isinstance(x, ast.Name) and x.id == "pi":
                    return Rat.sym("PI")
                if isinstance(x, ast.Subscript):
                    return to_rat(x.value, env)  # broadcasting subscripts [None, :] are value-neutral
                if isinstance(x, ast.Name):
                    d = du.single_def(x.id, du.node_of_expr(e))
                    if d is not None and d.kind == "assign":
                        return to_rat(d.value, env)
                    return Rat.sym(x.id)
                if isinstance(x, ast.Attribute):
                    return Rat.sym(dotted(x))
                return None
            return to_rat(e.args[0], env)
        if isinstance(e, ast.BinOp) and isinstance(e.op, ast.Div):
            num = e.left
            if isinstance(num, ast.Constant) and num.value in (1, 1.0):
                return -exponent_of(e.right, n)
        if isinstance(e, ast.BinOp) and isinstance(e.op, ast.Pow) and isinstance(e.right, (ast.Constant, ast.UnaryOp)):
            k = ast.literal_eval(e.right)
            return exponent_of(e.left, n) * Rat.const(k)
        if isinstance(e, ast.Call) and isinstance(e.func, ast.Attribute) and e.func.attr in ("conj", "conjugate"):
            return -exponent_of(e.func.value, n)
        if isinstance(e, ast.Call) and call_name(e) in ("np.conj", "np.conjugate") and e.args:
            return -exponent_of(e.args[0], n)
        raise AnalysisError(f"{fi.short}: cannot read the phase exponent of `{norm1(e)}`")

    unit = Rat.const(2) * Rat.sym("I") * Rat.sym("PI") * Rat.sym("self.rvec.iRvec") * Rat.sym("self.Kpoint.dK_fullBZ")
    out = []
    for el in rv.args[0].elts:
        ex = exponent_of(el, at)
        ratio = ex / unit
        p = ratio.as_poly() if ratio.d.as_const() is not None else None
        # cross-multiply: ex == c * unit  for rational constant c
        c = None
        for cand in (Fraction(-1, 2), Fraction(1, 2), Fraction(-1), Fraction(1), Fraction(0)):
            if ex.equals(unit * Rat.const(cand)):
                c = cand
        if c is None:
            raise AnalysisError(f"{fi.short}: phase exponent `{ex}` is not a rational multiple of 2πi·R·dK")
        out.append(c)
    return out


_WRONG_STEP: list = []


def _half_offsets(fi, varnames=("ix", "iy", "iz")) -> Optional[List[Fraction]]:
    """For the reference / k.p implementations: offsets c_i with corner shift (i + c)·dK → [c(0), c(1)]."""
    cfg, du, pm = fctx(fi)
    for s in stmts(fi.node):
        if isinstance(s, ast.Assign) and isinstance(s.value, ast.BinOp) and isinstance(s.value.op, ast.Mult):
            for a, b in ((s.value.left, s.value.right), (s.value.right, s.value.left)):
                if isinstance(a, ast.BinOp) and isinstance(a.op, (ast.Sub, ast.Add)) and isinstance(a.left, ast.Call) \
                        and call_name(a.left) in ("np.array", "numpy.array") and isinstance(a.left.args[0], (ast.List, ast.Tuple)) \
                        and [norm(x) for x in a.left.args[0].elts] == list(varnames):
                    def env(x):
                        return None
                    shift = to_rat(a.right, env).as_poly().as_const()
                    if isinstance(a.op, ast.Sub):
                        shift = -shift
                    bb = du.resolve_local(b, cfg.node(s))
                    if "dK_fullBZ" not in norm(bb):
                        _WRONG_STEP.append((fi, s, norm1(bb, 70)))
                    return [Fraction(0) + shift, Fraction(1) + shift]
                # vectorised: (corners − c)·dK with `corners` the table of all (ix, iy, iz) ∈ {0,1}³ in C order (rows = corners)
                if isinstance(a, ast.BinOp) and isinstance(a.op, (ast.Sub, ast.Add)) and isinstance(a.left, ast.Name):
                    tab = norm(du.resolve_local(a.left, cfg.node(s))).replace(" ", "")
                    if tab in _CORNER_TABLES:
                        try:
                            shift = to_rat(a.right, lambda x: None).as_poly().as_const()
                        except AnalysisError:
                            continue
                        if isinstance(a.op, ast.Sub):
                            shift = -shift
                        bb = du.resolve_local(b, cfg.node(s))
                        if "dK_fullBZ" not in norm(bb):
                            _WRONG_STEP.append((fi, s, norm1(bb, 70)))
                        return [Fraction(0) + shift, Fraction(1) + shift]
    return None


# all corners (ix, iy, iz) of the unit cube, one per row, last index fastest (the order of a C-order reshape to (2, 2, 2))
_CORNER_TABLES = {
    "np.indices((2,2,2)).reshape(3,8).T", "np.indices((2,2,2)).reshape(3,-1).T", "np.indices((2,2,2)).reshape((3,8)).T",
    "np.array(list(np.ndindex(2,2,2)))", "np.array(list(np.ndindex((2,2,2))))",
    "np.array(list(itertools.product((0,1),repeat=3)))", "np.array(list(product((0,1),repeat=3)))",
    "np.array(list(itertools.product([0,1],repeat=3)))", "np.array(list(product([0,1],repeat=3)))",
    "np.array(list(itertools.product(range(2),repeat=3)))", "np.array(list(product(range(2),repeat=3)))",
}


def run(ctx) -> None:
    idx = ctx.index

    # ---------------------------------------------------------------- R33.1
    r1 = ctx.rule("R33.1", "phase / Hamiltonian / rvec of one corner transform belong to the same object", min_instances=8)
    for rel, cname in ((DKR, "Data_K_R"), (DKS, "Data_K_soc")):
        c = idx.cls(rel, cname)
        for m in CORNER_METHODS:
            if m in c.methods:
                nn = check_owner_consistency(ctx, r1, c.methods[m], want_slots=True)
                if nn == 0:
                    # look one level down: private helpers that could not be inlined (early returns, comprehensions)
                    for h_ in reachable_helpers_c33(idx, c.methods[m]):
                        nn += check_owner_consistency(ctx, r1, h_, want_slots=True)
                if nn == 0:
                    r1.expect(False, "", c.methods[m], c.methods[m].node, f"{cname}.{m}: no `….rvec.R_to_k(…)` call found (also not in its private helpers)")
    # the two phase providers must be built from the object's own R-vectors
    for m in ("expdK_corners_tetra", "expdK_corners_parallel"):
        f = idx.function(DKR, f"Data_K_R.{m}")
        r1.instance(f.short)
        txt = norm(f.node)
        r1.check("self.rvec.iRvec" in txt, f"{m} uses self.rvec.iRvec", f, f.node.body[-1],
                 f"{m} is not built from the object's own R-vector list", )

    # ---------------------------------------------------------------- R33.2
    r2 = ctx.rule("R33.2", "every selectable Data_K class defines both corner methods", min_instances=3)
    sel = idx.function(DKI, "get_data_k_class_from_system")
    returned = [s.value for s in stmts(sel.node) if isinstance(s, ast.Return) and s.value is not None]
    for rv in returned:
        c = idx.resolve_expr(sel.module, rv)
        if c is None or not hasattr(c, "methods"):
            raise AnalysisError(f"get_data_k_class_from_system returns unresolved `{norm1(rv)}`")
        r2.instance(c.fq)
        for m in CORNER_METHODS:
            f = idx.find_method(c, m)
            concrete = f is not None and not _only_raises(f.node)
            r2.check(concrete, f"{c.name}.{m} resolves to {f.short if f else None}", f"{c.module.relpath}:{c.name}", c.node,
                     f"{c.name} has no concrete `{m}`: the tetrahedron method fails or silently uses another class's "
                     f"corners for this kind of system", stmt=f"class {c.name}: {m}")

    # ---------------------------------------------------------------- R33.3
    r3 = ctx.rule("R33.3", "corner offsets: fast path ≡ reference path", min_instances=4)
    fpar = idx.function(DKR, "Data_K_R.expdK_corners_parallel")
    offs = _exp_factor(fpar, ctx, r3)
    r3.instance(f"{fpar.short}: offsets {[str(x) for x in offs]}")
    ref = idx.function(DK, "Data_K.E_K_corners_parallel_test")
    kp = idx.function(DKK, "Data_K_k.E_K_corners_parallel")
    for f in (ref, kp):
        _WRONG_STEP.clear()
        ho = _half_offsets(f)
        for f_w, st_w, txt_w in _WRONG_STEP:
            r3.violation(f_w, st_w, f"{f_w.qualname}: the corner offsets are multiplied by `{txt_w}`, not by the K-point's own cell size "
                         f"`self.Kpoint.dK_fullBZ`: for a K-point created by adaptive refinement (smaller cell) the corner energies are taken at the "
                         f"corners of another cell than the one the fast path and the tetrahedron weights use", stmt="corner step")
        if ho is None:
            r3.expect(False, "", f, f.node, f"{f.short}: corner shift `(np.array([ix, iy, iz]) - 1/2) * dK_fullBZ` (or its vectorised form over the table of all corners) not recognised")
            continue
        r3.instance(f"{f.short}: offsets {[str(x) for x in ho]}")
        r3.check(ho == offs, f"{f.name} corners (i−1/2)·dK equal the phase-factor corners", f, f.node,
                 f"corner offsets differ: phase factors give {[str(x) for x in offs]}·dK for index 0/1, "
                 f"{f.qualname} uses {[str(x) for x in ho]}·dK", stmt=f"offsets {[str(x) for x in ho]}")
    # index ↔ axis pairing in every parallel-corner method using the phase table
    for rel, q in ((DKR, "Data_K_R.E_K_corners_parallel"), (DKS, "Data_K_soc.E_K_corners_parallel")):
        f = idx.function(rel, q)
        cfg, du, pm = fctx(f)
        fi_ = unroll_finite_loops(idx, inline_private_helpers(idx, f))
        class _P:      # a product expression wherever it stands (assignment, return of a local closure, call argument)
            def __init__(self, value, lineno):
                self.value, self.lineno = value, lineno
        prods = []
        for root_ in (f.node, fi_.node):
            pm_ = fctx(root_)[2]
            for b_ in ast.walk(root_):
                if isinstance(b_, ast.BinOp) and isinstance(b_.op, ast.Mult) and not (isinstance(pm_.get(b_), ast.BinOp) and isinstance(pm_.get(b_).op, ast.Mult)):
                    subs_ = [x for x in ast.walk(b_) if isinstance(x, ast.Subscript)]
                    if len(subs_) == 3 and all(isinstance(x.slice, ast.Tuple) and len(x.slice.elts) == 3 for x in subs_):
                        prods.append(_P(b_, getattr(b_, "lineno", 0)))
            if prods:
                break
        if not prods:
            # a private helper of the class that builds the corner phase (possibly with an early `return None`)
            for h_ in reachable_helpers_c33(idx, f):
                pm_ = fctx(h_.node)[2]
                for b_ in ast.walk(h_.node):
                    if isinstance(b_, ast.BinOp) and isinstance(b_.op, ast.Mult) and not (isinstance(pm_.get(b_), ast.BinOp) and isinstance(pm_.get(b_).op, ast.Mult)):
                        subs_ = [x for x in ast.walk(b_) if isinstance(x, ast.Subscript)]
                        if len(subs_) == 3 and all(isinstance(x.slice, ast.Tuple) and len(x.slice.elts) == 3 for x in subs_):
                            prods.append(_P(b_, getattr(b_, "lineno", 0)))
        def phase_subs(e_):
            return [x for x in ast.walk(e_) if isinstance(x, ast.Subscript) and isinstance(x.slice, ast.Tuple) and len(x.slice.elts) == 3
                    and norm(x.slice.elts[1]) == ":" and isinstance(x.slice.elts[2], ast.Constant) and isinstance(x.slice.elts[2].value, int)]
        if not prods:
            # the product accumulated through named partial products (e.g. one factor per loop level): resolve the operands
            S_ = Sem(idx, fi_)
            S_.keep_names = {n_.id for l_ in ast.walk(fi_.node) if isinstance(l_, ast.For) for n_ in ast.walk(l_.target) if isinstance(n_, ast.Name)}
            pm_ = S_.pm
            seen_ = set()
            for b_ in ast.walk(fi_.node):
                if isinstance(b_, ast.BinOp) and isinstance(b_.op, ast.Mult) and not (isinstance(pm_.get(b_), ast.BinOp) and isinstance(pm_.get(b_).op, ast.Mult)):
                    try:
                        r_ = S_.resolve(b_, S_.du.node_of_expr(b_))
                    except AnalysisError:
                        continue
                    ps_ = phase_subs(r_)
                    key_ = tuple(sorted(norm(x) for x in ps_))
                    if len(ps_) == 3 and key_ not in seen_:
                        seen_.add(key_)
                        prods.append(_P(r_, getattr(b_, "lineno", 0)))
        bprods = []
        if not prods:
            # all eight corners at once by broadcasting: e[:, None, None, :, 0] * e[None, :, None, :, 1] * e[None, None, :, :, 2]
            def bsub(x):
                """(corner-axis position, Cartesian axis) of a broadcast factor, or None"""
                if not (isinstance(x, ast.Subscript) and isinstance(x.slice, ast.Tuple) and len(x.slice.elts) == 5):
                    return None
                e5 = x.slice.elts
                full = [k_ for k_ in range(3) if isinstance(e5[k_], ast.Slice) and e5[k_].lower is None and e5[k_].upper is None and e5[k_].step is None]
                none = [k_ for k_ in range(3) if (isinstance(e5[k_], ast.Constant) and e5[k_].value is None) or norm(e5[k_]) == "np.newaxis"]
                if len(full) == 1 and len(none) == 2 and norm(e5[3]) == ":" and isinstance(e5[4], ast.Constant) and isinstance(e5[4].value, int):
                    return full[0], e5[4].value
                return None
            for b_ in ast.walk(fi_.node):
                if isinstance(b_, ast.BinOp) and isinstance(b_.op, ast.Mult):
                    fs_ = [x for x in ast.walk(b_) if bsub(x) is not None]
                    if len(fs_) == 3 and not any(isinstance(p_, ast.BinOp) and isinstance(p_.op, ast.Mult) and len([x for x in ast.walk(p_) if bsub(x) is not None]) == 3
                                                 and p_ is not b_ and any(y is b_ for y in ast.walk(p_)) for p_ in ast.walk(fi_.node)):
                        bprods.append((b_, fs_))
            for b_, fs_ in bprods:
                r3.instance(f"{f.short}: {norm1(b_, 90)}")
                pairs_ = sorted(bsub(x) for x in fs_)
                bases_ = {norm(x.value) for x in fs_}
                r3.check(pairs_ == [(0, 0), (1, 1), (2, 2)] and len(bases_) == 1,
                         "broadcast phase product: corner axis k (of ix, iy, iz) carries the factor of Cartesian axis k of one phase table", f, b_,
                         f"broadcast phase product pairs (corner axis, Cartesian axis) = {pairs_} of tables {sorted(bases_)}: corner (ix,iy,iz) gets the "
                         f"phase of a different corner")
        if not prods and not bprods:
            r3.expect(False, "", f, f.node, f"{f.short}: phase product `e[ix,:,0]*e[iy,:,1]*e[iz,:,2]` not found")
        for s in prods:
            subs = phase_subs(s.value) if len(phase_subs(s.value)) == 3 else [x for x in ast.walk(s.value) if isinstance(x, ast.Subscript)]
            pairs = sorted((norm(x.slice.elts[0]), norm(x.slice.elts[2])) for x in subs)
            bases = {norm(x.value) for x in subs}
            r3.instance(f"{f.short}: {norm1(s.value, 90)}")
            r3.check(pairs == [("ix", "0"), ("iy", "1"), ("iz", "2")] and len(bases) == 1,
                     "corner index ix/iy/iz pairs with Cartesian axis 0/1/2 of one phase table", f, s.value,
                     f"phase product pairs {pairs} of tables {sorted(bases)}: corner (ix,iy,iz) gets the phase of a "
                     f"different corner")
        # target slot order
        tg = [s for s in stmts(f.node) if isinstance(s, ast.Assign) and isinstance(s.targets[0], ast.Subscript)
              and norm(s.targets[0].value) == "Ecorners" and isinstance(s.targets[0].slice, ast.Tuple)
              and len(s.targets[0].slice.elts) == 5]
        for s in tg:
            order = [norm(x) for x in s.targets[0].slice.elts[1:4]]
            r3.check(order == ["ix", "iy", "iz"], "energies stored at Ecorners[:, ix, iy, iz, :]", f, s,
                     f"corner energies stored at index order {order}")
    # tetra: same vertex list, same order
    ft = idx.function(DKR, "Data_K_R.expdK_corners_tetra")
    txt = norm(ft.node)
    r3.instance(ft.short)
    r3.check("self.Kpoint.vertices_fullBZ" in txt and "2j * np.pi" in txt.replace("numpy", "np") and ".T" in txt,
             "tetra phases are exp(+2πi R·v) over Kpoint.vertices_fullBZ, one row per vertex", ft, ft.node.body[-1],
             "tetrahedron corner phases are not exp(+2πi R·vertices_fullBZ) per vertex")

    # ---------------------------------------------------------------- R33.5
    # the corner energies of a spinor system are the eigenvalues of the full (interlaced) matrix: the eigenvalues of one spin block are not
    # "the even (odd) bands" — band order is by energy, not by spin
    r5 = ctx.rule("R33.5", "corner energies are eigenvalues of the whole spinor matrix, never per-spin eigenvalues put on alternate bands")
    socc = idx.cls(DKS, "Data_K_soc")
    n5 = 0
    for m_ in socc.methods.values():
        for st_ in stmts(m_.node):
            if isinstance(st_, ast.Assign) and len(st_.targets) == 1 and isinstance(st_.targets[0], ast.Subscript) \
                    and any(isinstance(c_, ast.Call) and call_name(c_).split(".")[-1] in ("eigvalsh", "eigvals", "eigh") for c_ in ast.walk(st_.value)):
                n5 += 1
                r5.instance(f"{m_.short}: {norm1(st_, 70)}")
                slots = stride2_slots(st_.targets[0])
                r5.check(not slots, "eigenvalues are stored on a whole band axis", m_, st_,
                         f"`{norm1(st_, 90)}` writes eigenvalues of a spin block onto every second band (offsets {slots}): the i-th corner band is then not the "
                         f"i-th eigenvalue of the spinor Hamiltonian at the corner, while the centre energies are sorted — tetrahedron weights mix bands")
    for m_ in socc.methods.values():
        for st_ in stmts(m_.node):
            if isinstance(st_, ast.Return) and st_.value is not None and any(isinstance(c_, ast.Call) and call_name(c_).split(".")[-1] in ("eigvalsh", "eigvals", "eigh")
                                                                             for c_ in ast.walk(st_.value)):
                n5 += 1
                r5.instance(f"{m_.short}: {norm1(st_, 70)}")
                r5.ok(f"{m_.short}: eigenvalues of a whole matrix are returned")
    r5.expect(n5 >= 1, "eigenvalue stores located", f"{DKS}:Data_K_soc", socc.node, f"Data_K_soc: no store of eigenvalues into a corner array found")

    # ---------------------------------------------------------------- R33.4
    r4 = ctx.rule("R33.4", "band selection and phonon map applied to corner energies", min_instances=6)
    for rel, cname in ((DKR, "Data_K_R"), (DKS, "Data_K_soc"), (DKK, "Data_K_k")):
        c = idx.cls(rel, cname)
        for m in CORNER_METHODS:
            f = c.methods.get(m)
            if f is None:
                continue
            r4.instance(f.short)
            f = inline_private_helpers(idx, f)
            cfg, du, pm = fctx(f)
            rets = [s for s in stmts(f.node) if isinstance(s, ast.Return)]
            for rt in rets:
                sl, _, _ = du.backward_slice(rt.value, cfg.node(rt))
                texts = " ".join(norm(e) for e in sl)
                r4.check("phonon_freq_from_square" in texts, f"{f.qualname}: phonon sqrt map applied", f, rt,
                         "corner energies are returned without `phonon_freq_from_square`: for phonon systems the corners "
                         "are squared frequencies while the centre is a frequency")
                allsrc = norm(f.node)
                r4.check("self.select_K" in allsrc and "self.select_B" in allsrc,
                         f"{f.qualname}: k- and band-selection masks applied", f, rt,
                         "corner energies are not restricted with select_K/select_B like E_K")
            sb = method_calls(f.node, "select_bands")
            touchE = "self.E_K" in norm(f.node)
            r4.check(bool(sb) or touchE, f"{f.qualname}: selection masks exist before use", f, f.node.body[0],
                     "select_K/select_B are used without select_bands()/E_K having defined them")


def _only_raises(fn: ast.AST) -> bool:
    body = [s for s in fn.body if not (isinstance(s, ast.Expr) and isinstance(s.value, ast.Constant))]
    return all(isinstance(s, (ast.Raise, ast.Pass)) for s in body) or not body


from ..selftest import V  # noqa: E402

SELFTEST = [
    V("per-spin eigenvalues written to alternate bands (seeded C33-m3)", DKS, "            _Ecorners[:, iv, :] = np.linalg.eigvalsh(_HH_K_full)\n",
      "            _Ecorners[:, iv, 0::2] = np.linalg.eigvalsh(_HH_K_full[:, 0::2, 0::2])\n            _Ecorners[:, iv, 1::2] = np.linalg.eigvalsh(_HH_K_full[:, 1::2, 1::2])\n",
      "fire", "R33.5"),
    V("k.p corner cell taken from the initial grid (seeded C33-m4)", DKK, "        dK = self.Kpoint.dK_fullBZ\n", "        dK = 1. / self.grid.dense\n", "fire", "R33.3"),
    V("down-spin tetra phases taken from the up channel (original defect)", DKS,
      "expdK_down = self.data_K_down.expdK_corners_tetra", "expdK_down = self.data_K_up.expdK_corners_tetra", "fire", "R33.1"),
    V("down-spin parallel phases taken from the up channel (original defect)", DKS,
      "expdK_down = self.data_K_down.expdK_corners_parallel", "expdK_down = self.data_K_up.expdK_corners_parallel",
      "fire", "R33.1"),
    V("down block transformed with the up R-vectors", DKS,
      "            _HH_K_full[:, 1::2, 1::2] = self.data_K_down.rvec.R_to_k(_Ham_R, hermitian=True)\n            if self.has_soc:",
      "            _HH_K_full[:, 1::2, 1::2] = self.data_K_up.rvec.R_to_k(_Ham_R, hermitian=True)\n            if self.has_soc:",
      "fire", "R33.1"),
    V("SOC term phased with the up-channel table", DKS,
      "        expdK = self.expdK_corners_tetra if self.has_soc else None",
      "        expdK = self.data_K_up.expdK_corners_tetra if self.has_soc else None", "fire", "R33.1"),
    V("up Hamiltonian written to the odd block", DKS,
      "            _HH_K_full[:, ::2, ::2] = self.data_K_up.rvec.R_to_k(_Ham_R, hermitian=True)\n            _Ham_R = self.data_K_down.Ham_R[:, :, :] * expdK_down[iv]",
      "            _HH_K_full[:, 1::2, 1::2] = self.data_K_up.rvec.R_to_k(_Ham_R, hermitian=True)\n            _Ham_R = self.data_K_down.Ham_R[:, :, :] * expdK_down[iv]",
      "fire", "R33.1"),
    V("corner methods removed from the k.p class", DKK, "    def E_K_corners_tetra(self):", "    def E_K_corners_tetra_disabled(self):",
      "fire", "R33.2"),
    V("phase table order swapped (+dK/2 first)", DKR, "return np.array([1. / expdK, expdK])", "return np.array([expdK, 1. / expdK])",
      "fire", "R33.3"),
    V("half step forgotten", DKR, "dK2 = self.Kpoint.dK_fullBZ / 2", "dK2 = self.Kpoint.dK_fullBZ", "fire", "R33.3"),
    V("k.p corners shifted by (i)·dK instead of (i−1/2)·dK", DKK, "v = (np.array([ix, iy, iz]) - 0.5) * dK",
      "v = (np.array([ix, iy, iz]) - 1) * dK", "fire", "R33.3"),
    V("axis pairing of the phase product mixed", DKR,
      "_expdK = expdK[ix, :, 0] * expdK[iy, :, 1] * expdK[iz, :, 2]", "_expdK = expdK[ix, :, 0] * expdK[iy, :, 2] * expdK[iz, :, 1]",
      "fire", "R33.3"),
    V("phonon map dropped for SOC corners", DKS,
      "        Ecorners = Ecorners[self.select_K, :, :, :, :][:, :, :, :, self.select_B]\n        Ecorners = self.phonon_freq_from_square(Ecorners)\n",
      "        Ecorners = Ecorners[self.select_K, :, :, :, :][:, :, :, :, self.select_B]\n", "fire", "R33.4"),
    V("neutral: conj instead of reciprocal in the phase table", DKR, "return np.array([1. / expdK, expdK])",
      "return np.array([expdK.conj(), expdK])", "silent"),
    V("neutral: renamed temporaries in the SOC tetra corners", DKS,
      "            _Ham_R = self.data_K_down.Ham_R[:, :, :] * expdK_down[iv][:, None, None]\n            _HH_K_full[:, 1::2, 1::2] = self.data_K_down.rvec.R_to_k(_Ham_R, hermitian=True)",
      "            _Ham_R_dn = self.data_K_down.Ham_R[:, :, :] * expdK_down[iv][:, None, None]\n            _HH_K_full[:, 1::2, 1::2] = self.data_K_down.rvec.R_to_k(_Ham_R_dn, hermitian=True)",
      "silent"),
    V("neutral: inline phase provider", DKS,
      "        expdK_up = self.data_K_up.expdK_corners_parallel\n",
      "        expdK_up = self.data_K_up.expdK_corners_parallel.copy()\n", "silent"),
]
