"""C07 — symmetry reduction / symmetrisation exact for symmetric systems (plumbing clauses + C08).

R07.1 every Result class transforms its data with its OWN rank / transformTR / transformInv and carries them unchanged;
      tabulated k-points are mapped with the same operation.
R07.2 the group average runs over all operations and divides by their number.
R07.3 in run(): irreducible K-points force symmetrisation before the per-K function is configured; the per-K result is
      symmetrised with the system's point group; the initial reduction and the refinement use the same flag.
R07.4 = C08 (the declared parities that symmetrisation consumes are the parities of the evaluated expressions).
R07.5 role agreement: wherever a TR-transform or an inversion-transform is handed over (keyword, positional constructor
      argument, attribute store), the value handed to the `transformTR` slot does not name the inversion transform and
      vice versa — over the whole package.
R07.6 = R06.5 (the k-point action of an operation carries the TR and inversion signs).
"""
from __future__ import annotations

import ast

from ..index import AnalysisError, call_name, norm, norm1, names_in
from . import c08
from .c06 import kpoint_action
from ..index import ClassInfo, FunctionInfo
from ..sem import desugar_shallow_copy, Sem
import re
from .common import calls, const_of, kwarg, enclosing, fctx, in_body, is_name, method_calls, pfind, pmatch, stmts

LEVEL = "other"
EXPLANATION = (
    "The behaviour (irreducible-wedge result = full-grid result) is numerical; what is decided statically is that a wrong "
    "parity or weight cannot enter through plumbing: every Result.transform hands the object's own rank and declared "
    "transforms to PointSymmetry.transform_tensor and rebuilds the result with the same fields (keyword-level def-use), "
    "TABresult.transform maps its k-points with the same operation, the group average divides by the number of operations it "
    "sums over, run() forces symmetrisation when irreducible K-points are used (CFG dominance before the remote parameters are "
    "frozen), and — through the C08 grade interpreter — the declarations themselves are right for all inferable formulas. "
    "Not decided: numerical equality of irreducible and full-grid integrals.")

ER = "wannierberri/result/energyresult.py"
KB = "wannierberri/result/kbandresult.py"
TAB = "wannierberri/result/tabresult.py"
RD = "wannierberri/result/resultdict.py"
PS = "wannierberri/symmetry/point_symmetry.py"
RG = "wannierberri/run_grid.py"


_SLOT = {"transformTR": "TR", "transformInv": "Inv", "transform_TR": "TR", "transform_Inv": "Inv", "transform_I": "Inv"}
_TR_TOKEN = re.compile(r"(?:^|_|transform)TR$|^TR_|time_?reversal", re.I)
_INV_TOKEN = re.compile(r"(?:^|_|transform)Inv$|transform_I$|^Inv_|inversion", re.I)


def _roles(e: ast.AST) -> set:
    """Kinds (TR / Inv) named by the identifiers and string keys of an expression handed to a transform slot."""
    out = set()
    for n in ast.walk(e):
        tok = None
        if isinstance(n, ast.Name):
            tok = n.id
        elif isinstance(n, ast.Attribute):
            tok = n.attr
        elif isinstance(n, ast.Constant) and isinstance(n.value, str):
            tok = n.value
        if tok is None:
            continue
        if _TR_TOKEN.search(tok):
            out.add("TR")
        if _INV_TOKEN.search(tok):
            out.add("Inv")
    return out


def _product_order_rule(ctx, r2) -> None:
    """`product([A, B, …])` (used for generator strings "A*B") is A·B·…: the fold is evaluated on the two-letter word [A, B] — operations do not commute."""
    idx = ctx.index
    try:
        pf = idx.function(PS, "product")
    except Exception:
        return
    lstp = pf.params[0] if pf.params else "lst"
    r2.instance(pf.short)

    def order_of(it: ast.AST) -> Optional[List[str]]:
        t = norm(it).replace(" ", "")
        if t == lstp or t == f"list({lstp})":
            return ["A", "B"]
        if t in (f"{lstp}[-1::-1]", f"{lstp}[::-1]", f"reversed({lstp})", f"list(reversed({lstp}))"):
            return ["B", "A"]
        return None

    def step(expr: ast.AST, acc: str, op: str, word: List[str], x: str) -> Optional[List[str]]:
        if isinstance(expr, ast.BinOp) and isinstance(expr.op, (ast.Mult, ast.MatMult)):
            l, r = norm(expr.left), norm(expr.right)
            if (l, r) == (op, acc):
                return [x] + word
            if (l, r) == (acc, op):
                return word + [x]
        return None
    word = None
    node = pf.node
    for st in pf.node.body:
        if isinstance(st, ast.For) and isinstance(st.target, ast.Name) and len(st.body) == 1 and isinstance(st.body[0], ast.Assign) and isinstance(st.body[0].targets[0], ast.Name):
            seq = order_of(st.iter)
            acc, op = st.body[0].targets[0].id, st.target.id
            if seq is not None:
                w: Optional[List[str]] = []
                for x in seq:
                    w = step(st.body[0].value, acc, op, w, x) if w is not None else None
                word, node = w, st
        for c in ast.walk(st):
            if isinstance(c, ast.Call) and call_name(c) in ("reduce", "functools.reduce") and len(c.args) >= 2 and isinstance(c.args[0], ast.Lambda) and len(c.args[0].args.args) == 2:
                seq = order_of(c.args[1])
                acc, op = (a.arg for a in c.args[0].args.args)
                if seq is not None:
                    w = [] if len(c.args) == 3 else None
                    if w is None:
                        w, seq = [seq[0]], seq[1:]
                    for x in seq:
                        w = step(c.args[0].body, acc, op, w, x) if w is not None else None
                    word, node = w, c
    if word is None:
        r2.expect(False, "", pf, pf.node, "product(): the fold over the list of operations is neither a `for` accumulation nor a reduce(lambda …) the rule can evaluate")
    else:
        r2.check(word == ["A", "B"], "product([A, B]) = A·B (list order; the right-most operation acts first)", pf, node,
                 f"product([A, B]) is evaluated as {'·'.join(word)}: a generator declared as \"A*B\" yields another operation whenever A and B do not commute, so the "
                 f"declared group is not the system's symmetry group and irreducible-K runs / symmetrisation use wrong operations", stmt="product order")


def _matmul_chain(e: ast.AST):
    """([matrix factors in order], [scalar factors]) of an expression built from @ / .dot / np.dot and `* scalar`; None if other operators occur.
    A product in parentheses multiplied by a scalar scales the whole chain; scalar factors are products of names / attributes (no matrices)."""
    mats: List[str] = []
    scal: List[str] = []

    def is_scalar(x):
        return not any(isinstance(n, ast.BinOp) and isinstance(n.op, ast.MatMult) for n in ast.walk(x)) and \
            not any(isinstance(n, ast.Call) for n in ast.walk(x)) and all(isinstance(n, (ast.BinOp, ast.Mult, ast.Attribute, ast.Name, ast.Load, ast.Constant, ast.UnaryOp, ast.USub))
                                                                           for n in ast.walk(x)) and \
            all(n.attr.startswith("i") or n.attr in ("sign",) for n in ast.walk(x) if isinstance(n, ast.Attribute))

    def go(x) -> bool:
        if isinstance(x, ast.BinOp) and isinstance(x.op, ast.MatMult):
            return go(x.left) and go(x.right)
        if isinstance(x, ast.Call) and isinstance(x.func, ast.Attribute) and x.func.attr == "dot" and len(x.args) == 1:
            return go(x.func.value) and go(x.args[0])
        if isinstance(x, ast.Call) and call_name(x) in ("np.dot", "np.matmul") and len(x.args) == 2:
            return go(x.args[0]) and go(x.args[1])
        if isinstance(x, ast.BinOp) and isinstance(x.op, ast.Mult):
            for m_, s_ in ((x.left, x.right), (x.right, x.left)):
                if is_scalar(s_) and not is_scalar(m_):
                    for f_ in (s_.left, s_.right) if isinstance(s_, ast.BinOp) and isinstance(s_.op, ast.Mult) else (s_,):
                        scal.append(norm(f_))
                    return go(m_)
            return False
        if isinstance(x, ast.ListComp) and len(x.generators) == 1 and not x.generators[0].ifs and norm(x.elt) == norm(x.generators[0].target):
            return go(x.generators[0].iter)         # [k for k in X] is X
        if isinstance(x, ast.Call) and call_name(x) in ("list", "np.array", "np.asarray", "np.copy") and len(x.args) == 1:
            return go(x.args[0])
        if isinstance(x, (ast.Name, ast.Attribute)) or (isinstance(x, ast.Call) and call_name(x) in ("np.linalg.inv", "np.transpose")):
            mats.append(norm(x))
            return True
        return False
    return (mats, scal) if go(e) else None


def run(ctx) -> None:
    idx = ctx.index

    # ---------------------------------------------------------------- R07.1
    r1 = ctx.rule("R07.1", "Result.transform uses and carries the object's own rank and declared transforms", min_instances=4)
    for rel, cn in ((ER, "EnergyResult"), (KB, "K__Result")):
        m = idx.cls(rel, cn).methods.get("transform")
        if m is None:
            raise AnalysisError(f"{cn}.transform vanished")
        from ..sem import inline_private_helpers
        m = desugar_shallow_copy(idx, inline_private_helpers(idx, m))
        r1.instance(m.short)
        tc = [c for c in method_calls(m.node, "transform_tensor")]
        if len(tc) != 1:
            raise AnalysisError(f"{cn}.transform: expected one transform_tensor call")
        c = tc[0]
        sym = m.node.args.args[1].arg
        args = {k.arg: norm(k.value) for k in c.keywords}
        pos = [norm(a) for a in c.args]
        rank = args.get("rank") or (pos[1] if len(pos) > 1 else None)
        r1.check(is_name(c.func.value, sym) and rank == "self.rank" and args.get("transformTR") == "self.transformTR"
                 and args.get("transformInv") == "self.transformInv",
                 f"{cn}: data transformed by the given operation with self.rank / self.transformTR / self.transformInv", m, c,
                 f"{cn}.transform calls `{norm1(c, 120)}`: the tensor is not transformed with the result's own rank and declared "
                 f"TR/inversion transforms, so symmetry images get the wrong sign or the wrong axes are rotated")
        ctor = [x for x in ast.walk(m.node) if isinstance(x, ast.Call) and norm(x.func) == "self.__class__"]
        kw = {k.arg: norm(k.value) for k in ctor[0].keywords} if ctor else {}
        r1.check(bool(ctor) and all(kw.get(f) == f"self.{f}" for f in ("transformTR", "transformInv", "rank")),
                 f"{cn}: the transformed result keeps rank and declared transforms", m, ctor[0] if ctor else m.node,
                 f"{cn}.transform rebuilds the result with {kw}: a second operation (group products) would use other transforms")
    tt = idx.cls(TAB, "TABresult").methods.get("transform")
    r1.instance(tt.short)
    from .c16 import _dict_normal as _dn
    TTS = Sem(idx, tt)
    symp = tt.params[1]
    okres = okk = False
    for n_ in ast.walk(tt.node):
        if isinstance(n_, ast.DictComp):
            nf = _dn(TTS, n_, TTS.cfg.node(enclosing(TTS.pm, n_, ast.stmt)))
            if nf is not None and nf[2] == "self.results" and nf[1] == f"self.results[{nf[0]}].transform({symp})" and not nf[3]:
                okres = True
        if isinstance(n_, (ast.ListComp, ast.GeneratorExp)) and len(n_.generators) == 1 and norm(n_.generators[0].iter) == "self.kpoints" and isinstance(n_.generators[0].target, ast.Name):
            kv_ = n_.generators[0].target.id
            if pmatch(n_.elt, f"{symp}.transform_reduced_vector({kv_}, self.recip_lattice)"):
                okk = True
    if okres and not okk:
        # vectorised mapping of the k-points: compare the matrix-product chain with the one of PointSymmetry.transform_reduced_vector
        ref = idx.cls(PS, "PointSymmetry").methods.get("transform_reduced_vector")
        ctor_ = [c_ for c_ in ast.walk(tt.node) if isinstance(c_, ast.Call) and call_name(c_).split(".")[-1] in ("TABresult", "__class__")]
        kq = kwarg(ctor_[0], "kpoints") if ctor_ else None
        if ref is not None and kq is not None:
            RS_ = Sem(idx, ref)
            rret = [s_ for s_ in stmts(ref.node) if isinstance(s_, ast.Return) and s_.value is not None]
            ch_ref = _matmul_chain(RS_.resolve(rret[0].value, RS_.cfg.node(rret[0]))) if len(rret) == 1 else None
            ch_new = _matmul_chain(TTS.resolve(kq, TTS.du.node_of_expr(ctor_[0])))
            if ch_ref is not None and ch_new is not None:
                vecp, basp = ref.params[1], ref.params[2]
                sub = {vecp: "self.kpoints", basp: "self.recip_lattice", "self": symp}

                def ren(t):
                    import re as _re
                    out_t = _re.sub(r"\bself\b", "\0SELF\0", t)
                    out_t = _re.sub(rf"\b{vecp}\b", "self.kpoints", out_t)
                    out_t = _re.sub(rf"\b{basp}\b", "self.recip_lattice", out_t)
                    return out_t.replace("\0SELF\0", symp)
                ref_m, ref_s = [ren(x) for x in ch_ref[0]], sorted(ren(x) for x in ch_ref[1])
                new_m, new_s = ch_new[0], sorted(ch_new[1])
                okk = True
                r1.check(ref_m == new_m and ref_s == new_s, "vectorised k-point map = the matrix chain of transform_reduced_vector", tt, ctor_[0],
                         f"the k-points are mapped with the chain {' @ '.join(new_m)} (scalars {new_s}), PointSymmetry.transform_reduced_vector uses "
                         f"{' @ '.join(ref_m)} (scalars {ref_s}): the transformed values are stored at other k-points than the ones they belong to")
        if not okk:
            r1.expect(False, "", tt, tt.node, "TABresult.transform: the mapping of the k-points is neither a per-k call of transform_reduced_vector nor a "
                      "matrix-product chain that can be compared with it")
            okk = True
    r1.check(okres and okk,
             "TABresult: every quantity and every k-point is mapped with the same operation", tt, tt.node,
             "TABresult.transform does not map all quantities and the k-points with the same operation", stmt="TAB transform")
    rd = idx.cls(RD, "ResultDict").methods.get("transform")
    r1.instance(rd.short)
    from .c16 import _dict_normal
    from ..sem import inline_private_helpers as _iph7
    rd = _iph7(idx, rd)
    RDS = Sem(idx, rd)
    okrd = False
    for c_ in ast.walk(rd.node):
        if isinstance(c_, ast.Call) and call_name(c_) == "ResultDict" and c_.args:
            nf = _dict_normal(RDS, c_.args[0], RDS.du.node_of_expr(c_))
            if nf is not None:
                key, val, src, conds = nf
                okrd = src == "self.results" and val == f"self.results[{key}].transform({rd.params[1]})" and not conds
    r1.check(okrd, "ResultDict transforms every entry", rd, rd.node,
             "ResultDict.transform does not transform every entry", stmt="dict transform")
    ttf = idx.function(PS, "PointSymmetry.transform_tensor")
    TS = Sem(idx, ttf)
    datap, rankp, trp, invp = ttf.params[1:5]
    from .c17 import _fold_int_tuple
    work = None     # the working array: the name passed to the in-place transforms and returned
    rets_ = [s_ for s_ in stmts(ttf.node) if isinstance(s_, ast.Return) and isinstance(s_.value, ast.Name)]
    work = rets_[0].value.id if len(rets_) == 1 else None
    oktt = work is not None
    why = ""
    if oktt:
        TS.keep_names = {work}
        loops = [l for l in stmts(ttf.node) if isinstance(l, ast.For) and isinstance(l.target, ast.Name)]
        rot_loops = [l for l in loops if any(isinstance(c_, ast.Call) and norm(c_.func) == "self.rotate" for c_ in ast.walk(l))]
        oktt = len(rot_loops) == 1
        why = "rotation loop not found" if not oktt else ""
        if oktt:
            l = rot_loops[0]
            it = TS.rnorm(l.iter, TS.cfg.node(l)).replace(" ", "")
            nd_forms = (f"len({work}.shape)", f"{work}.ndim", f"np.ndim({work})")
            okit = any(it == f"range({n_}-{rankp},{n_})" for n_ in nd_forms)
            asg = [s_ for s_ in l.body if isinstance(s_, ast.Assign) and norm(s_.targets[0]) == work]
            okperm = False
            if len(asg) == 1:
                from .axes import apply_reorder
                v_ = TS.resolve(asg[0].value, TS.cfg.node(asg[0]))
                rot = [c_ for c_ in ast.walk(v_) if isinstance(c_, ast.Call) and norm(c_.func) == "self.rotate" and len(c_.args) == 1]
                if len(rot) == 1:
                    okperm = True
                    for nd in range(1, 6):
                        for ax in range(nd):
                            env = {l.target.id: ax, "__ndim__": nd}
                            seen_rot = []

                            def opaque(call, labels, seen_rot=seen_rot):
                                if norm(call.func) == "self.rotate":
                                    seen_rot.append(labels)
                                    return labels      # rotate acts on the last axis and keeps the axis order
                                return None
                            try:
                                out_ = apply_reorder(v_, work, tuple(range(nd)), env, opaque)
                            except AnalysisError:
                                out_ = None
                            # the rotated (last) axis must be the loop's axis; afterwards every axis is back in place
                            if out_ != tuple(range(nd)) or len(seen_rot) != 1 or seen_rot[0][-1] != ax:
                                okperm = False
            oktt = okit and okperm
            why = "" if oktt else f"loop `{it}`, permutations ok: {okperm}"
        for flag, fn_ in (("self.TR", trp), ("self.Inv", invp)):
            cs_ = [c_ for c_ in ast.walk(ttf.node) if isinstance(c_, ast.Call) and isinstance(c_.func, ast.Name) and c_.func.id == fn_ and c_.args and norm(c_.args[0]) == work]
            cds_ = TS.conditions(enclosing(TS.pm, cs_[0], ast.stmt), resolve=False) if len(cs_) == 1 else []
            # besides the flag only input-validation guards (`if …: raise`) may stand between the entry and the call
            others_ = [n_ for t_, p_, n_ in cds_ if not (t_ == flag and p_)
                       and not (isinstance(TS.pm.get(n_), ast.If) and TS.pm[n_].body and all(isinstance(b_, ast.Raise) for b_ in TS.pm[n_].body)
                                and not TS.pm[n_].orelse)]
            okc = len(cs_) == 1 and any(t_ == flag and p_ for t_, p_, _ in cds_) and not others_
            oktt = oktt and okc
            why = why or ("" if okc else f"{fn_}({work}) is not applied exactly when {flag}")
    r1.check(oktt,
             "transform_tensor: rotate the last `rank` axes, then apply the TR / inversion transform iff the operation contains it", ttf, ttf.node,
             f"transform_tensor no longer rotates exactly the tensor axes and applies TR/Inv transforms conditionally on the operation ({why})", stmt="transform_tensor")

    # Transform.__call__: the trailing len(transpose_axes) axes are permuted as res.transpose would (new axis j ← old axis axes[j])
    tcl = idx.function(PS, "Transform.__call__")
    TCS = Sem(idx, tcl)
    resn = tcl.params[1]
    TCS.keep_names = {resn}
    used_axes = set()
    for m_ in idx.modules.values():
        for c_ in ast.walk(m_.tree):
            if isinstance(c_, ast.Call) and call_name(c_).split(".")[-1] == "Transform":
                for k_ in c_.keywords:
                    if k_.arg == "transpose_axes" and isinstance(k_.value, (ast.Tuple, ast.List)) and all(isinstance(x_, ast.Constant) for x_ in k_.value.elts):
                        used_axes.add(tuple(x_.value for x_ in k_.value.elts))
    if len(used_axes) < 3:
        raise AnalysisError(f"Transform(transpose_axes=…) instances not found (got {sorted(used_axes)})")
    tstores = []
    for s_ in stmts(tcl.node):
        if isinstance(s_, ast.Assign) and isinstance(s_.targets[0], ast.Subscript) and norm(s_.targets[0].value) == resn \
                and any(t_ == "self.transpose_axes is None" and not p_ for t_, p_, _ in TCS.conditions(s_, resolve=False)):
            tstores.append(s_)
    oktr, whytr = len(tstores) == 1, "the store under `self.transpose_axes is not None` was not found exactly once"
    if oktr:
        from .axes import apply_reorder
        v_ = TCS.resolve(tstores[0].value, TCS.cfg.node(tstores[0]))
        whytr = ""
        for axes_ in sorted(used_axes):
            for d0 in range(0, 3):
                nd = d0 + len(axes_)
                env = {"self.transpose_axes": tuple(axes_), "__ndim__": nd}
                try:
                    out_ = apply_reorder(v_, resn, tuple(range(nd)), env)
                except AnalysisError as ex_:
                    out_ = None
                    whytr = whytr or f"cannot evaluate `{norm1(v_, 80)}` ({ex_})"
                want_ = tuple(range(d0)) + tuple(d0 + a_ for a_ in axes_)
                if out_ is None:
                    oktr = False
                    if not whytr:
                        whytr = f"`{norm1(v_, 80)}` is not a re-ordering of `{resn}`"
                elif out_ != want_:
                    oktr = False
                    whytr = whytr or f"transpose_axes={axes_} on a {nd}-dimensional array gives the axis order {out_}, expected {want_}"
    if not oktr and whytr.startswith("cannot evaluate"):
        r1.expect(False, "", tcl, tstores[0] if tstores else tcl.node, f"Transform.__call__: {whytr}")
    else:
        r1.check(oktr, "Transform.__call__ permutes the trailing cartesian axes as declared by transpose_axes", tcl, tstores[0] if tstores else tcl.node,
                 f"Transform.__call__ does not apply the declared transposition to the trailing axes: {whytr} — quantities whose TR / inversion rule "
                 f"contains a transposition are symmetrised with the wrong index permutation", stmt="Transform transpose")

    # ---------------------------------------------------------------- R07.2
    r2 = ctx.rule("R07.2", "group average = sum over all operations / number of operations", min_instances=2)
    _product_order_rule(ctx, r2)
    pg = idx.cls(PS, "PointGroup")
    for mname in ("symmetrize", "symmetrize_tensor"):
        m = pg.methods.get(mname)
        r2.instance(m.short)
        MS2 = Sem(idx, m)
        hit = []
        for r_ in [s_ for s_ in stmts(m.node) if isinstance(s_, ast.Return) and s_.value is not None]:
            v_ = MS2.resolve(r_.value, MS2.cfg.node(r_))
            hh = pmatch(v_, "sum(ANY for S in self.symmetries) / self.size", {"S"}) or pmatch(v_, "sum(ANY for S in self.symmetries) / len(self.symmetries)", {"S"})
            if hh and hh[0][0] is v_:
                hit.append(r_)
            elif isinstance(v_, ast.BinOp) and isinstance(v_.op, ast.Div) and norm(v_.right) in ("self.size", "len(self.symmetries)") and isinstance(v_.left, ast.Name):
                # explicit accumulation loop: acc = 0 ; for s in self.symmetries: acc = acc + f(s)  /  acc += f(s)
                acc = v_.left.id
                lps = [l for l in stmts(m.node) if isinstance(l, ast.For) and norm(l.iter) == "self.symmetries" and isinstance(l.target, ast.Name)]
                if len(lps) == 1 and len(lps[0].body) == 1:
                    b_ = lps[0].body[0]
                    okacc = (isinstance(b_, ast.AugAssign) and isinstance(b_.op, ast.Add) and norm(b_.target) == acc and lps[0].target.id in names_in(b_.value)) or \
                        (isinstance(b_, ast.Assign) and norm(b_.targets[0]) == acc and isinstance(b_.value, ast.BinOp) and isinstance(b_.value.op, ast.Add)
                         and acc in (norm(b_.value.left), norm(b_.value.right)) and lps[0].target.id in names_in(b_.value))
                    init_ = [d for d in MS2.du.reaching(acc, MS2.cfg.node(lps[0])) if d.kind == "assign"]
                    if okacc and len(init_) >= 1 and all(d.stmt is b_ or const_of(d.value) == 0 for d in init_):
                        hit.append(r_)
        r2.check(len(hit) == 1, f"{mname}: Σ_s over self.symmetries divided by self.size", m, m.node,
                 f"PointGroup.{mname} is not (sum over all symmetries) / size: the symmetrised result is scaled or misses operations", stmt=mname)
    sz = pg.methods.get("size")
    r2.check(sz is not None and "return len(self.symmetries)" in norm(sz.node), "size is the number of operations", sz or f"{PS}:PointGroup", (sz.node if sz else pg.node),
             "PointGroup.size is no longer len(self.symmetries)", stmt="size")

    # ---------------------------------------------------------------- R07.3
    r3 = ctx.rule("R07.3", "run(): irreducible K-points ⇒ symmetrised per-K results")
    runf = idx.function(RG, "run")
    cfg, du, pm = fctx(runf)
    r3.instance(runf.short)
    RS0 = Sem(idx, runf)
    sym_p = next((p_ for p_ in runf.params if p_ == "symmetrize"), None)
    irr_p = next((p_ for p_ in runf.params if p_ == "use_irred_kpt"), None)
    if sym_p is None or irr_p is None:
        raise AnalysisError("run(): parameters symmetrize / use_irred_kpt not found")

    def sym_assigns(val: bool):
        out_ = []
        for s_ in stmts(runf.node):
            if isinstance(s_, ast.Assign) and len(s_.targets) == 1 and is_name(s_.targets[0], sym_p) and const_of(s_.value) is val:
                cs_ = [(t_, p_) for t_, p_, _ in RS0.conditions(s_, resolve=False)]
                out_.append((s_, cs_))
        return out_

    def is_path_cond(t_: str) -> bool:
        return t_.replace(" ", "") in ("isinstance(grid,Path)", "isinstance(grid,(Path,))")
    # the statement that freezes the per-K parameters: a dict display / dict(...) carrying symmetrize under the key 'symmetrize'
    rp = []
    for s_ in stmts(runf.node):
        if isinstance(s_, ast.Assign) and s_.value is not None:
            for d_ in ast.walk(s_.value):
                if isinstance(d_, ast.Dict) and any(const_of(k_) == "symmetrize" and is_name(v_, sym_p) for k_, v_ in zip(d_.keys, d_.values) if k_ is not None):
                    rp.append(s_)
                elif isinstance(d_, ast.Call) and call_name(d_) == "dict" and any(k_.arg == "symmetrize" and is_name(k_.value, sym_p) for k_ in d_.keywords):
                    rp.append(s_)
    force = [(s_, cs_) for s_, cs_ in sym_assigns(True) if (irr_p, True) in cs_ and any(is_path_cond(t_) and not p_ for t_, p_ in cs_)]
    okf = len(force) == 1 and len(rp) >= 1 and any(d_.stmt is force[0][0] for d_ in du.reaching(sym_p, cfg.node(rp[0]))) and \
        not any(d_.kind == "assign" and d_.stmt is not force[0][0] and const_of(d_.value) is not False and d_.stmt.lineno > force[0][0].lineno
                for d_ in du.reaching(sym_p, cfg.node(rp[0])))
    r3.check(okf, "on a grid, `use_irred_kpt ⇒ symmetrize = True` is decided before the per-K parameters are frozen", runf, force[0][0] if force else runf.node,
             "run() can evaluate only irreducible K-points without symmetrising the per-K results (the `if use_irred_kpt: symmetrize = True` "
             "rule is missing from the grid branch or comes after remote_parameters is built): the integral over the wedge is not the "
             "integral over the zone")
    par = [n for n in ast.walk(runf.node) if isinstance(n, ast.FunctionDef) and n.name == "paralfunc"]
    oksym = False
    if par:
        PS_ = Sem(idx, par[0])
        ppm = PS_.pm
        rets_ = [r_ for r_ in ast.walk(par[0]) if isinstance(r_, ast.Return) and r_.value is not None]
        seen_sym = seen_plain = False
        okall = bool(rets_)
        for r_ in rets_:
            alts = PS_.alternatives(r_.value, PS_.cfg.node(r_))
            conds = PS_.conditions(r_, resolve=False)
            for v_ in alts:
                is_sym = isinstance(v_, ast.Call) and isinstance(v_.func, ast.Attribute) and v_.func.attr == "symmetrize" and norm(v_.func.value).endswith(".pointgroup") and len(v_.args) == 1
                if is_sym:
                    seen_sym = True
                    # reached only when symmetrisation is requested (explicit condition, or the alternative comes from the `if symmetrize:` arm)
                    dd = [d for d in PS_.du.reaching(r_.value.id, PS_.cfg.node(r_)) if d.value is not None and "symmetrize(" in norm(d.value)] if isinstance(r_.value, ast.Name) else []
                    okc = any(t_ == "symmetrize" and p_ for t_, p_, _ in conds) or any(any(t_ == "symmetrize" and p_ for t_, p_, _ in PS_.conditions(d.stmt, resolve=False)) for d in dd)
                    okall = okall and okc
                else:
                    seen_plain = True
                    dd = [d for d in PS_.du.reaching(r_.value.id, PS_.cfg.node(r_))] if isinstance(r_.value, ast.Name) else []
                    plain_guard = any(t_ == "symmetrize" and p_ is False for t_, p_, _ in conds) or len(alts) > 1
                    okall = okall and plain_guard
        oksym = okall and seen_sym and seen_plain
    r3.check(oksym, "the per-K result is symmetrised with the system's point group", runf, par[0] if par else runf.node,
             "the per-K function no longer symmetrises its result with _system.pointgroup when asked to", stmt="paralfunc symmetrize")
    RS7 = Sem(idx, runf)
    usym = [(c_, k_.value) for c_ in ast.walk(runf.node) if isinstance(c_, ast.Call) for k_ in c_.keywords if k_.arg == "use_symmetry"]
    okflag = len(usym) >= 2 and all(norm(v_) == "use_irred_kpt" for _, v_ in usym) and any(norm(c_.func).endswith("get_K_list") for c_, _ in usym) \
        and any(norm(c_.func).endswith("divide") for c_, _ in usym)
    exc = [c_ for c_ in calls(runf.node, "exclude_equiv_points") if call_name(c_) == "exclude_equiv_points"]
    okexc = len(exc) == 1 and any(("use_irred_kpt" == t_ or t_.startswith("use_irred_kpt and") or " and use_irred_kpt" in t_) and p_ for t_, p_, _ in RS7.conditions(enclosing(pm, exc[0], ast.stmt), resolve=False))
    r3.check(okflag and okexc, "initial reduction, refinement and merging all follow use_irred_kpt", runf, (exc[0] if exc else runf.node),
             "the initial K-list, the refinement and the merging of new points do not use the same use_irred_kpt flag", stmt="use_irred_kpt plumbing")
    off = [(s_, cs_) for s_, cs_ in sym_assigns(False) if any(is_path_cond(t_) and p_ for t_, p_ in cs_)]
    okoff = len(off) >= 1 and len(rp) >= 1 and any(d_.stmt is off[0][0] for d_ in du.reaching(sym_p, cfg.node(rp[0])))
    r3.check(okoff, "paths are never symmetrised", runf, off[0][0] if off else runf.node,
             "symmetrisation is no longer switched off for paths", stmt="path no symmetrize")

    # ---------------------------------------------------------------- R07.5
    r5 = ctx.rule("R07.5", "transformTR / transformInv slots receive the transform of their own kind", min_instances=40)
    n_sites = 0
    for m in idx.modules.values():
        if not m.relpath.startswith("wannierberri/"):
            continue
        owners = list(m.functions.values()) + [mm for c in m.classes.values() for mm in c.methods.values()]
        for f in owners:
            for n in ast.walk(f.node):
                sites = []   # (slot role, value expr, description)
                if isinstance(n, ast.Call):
                    for k in n.keywords:
                        if k.arg in _SLOT:
                            sites.append((_SLOT[k.arg], k.value, f"{k.arg}="))
                    if n.args and isinstance(n.func, (ast.Name, ast.Attribute)):
                        tgt = None
                        try:
                            tgt = idx.resolve_expr(m, n.func)
                        except Exception:
                            tgt = None
                        params = None
                        if isinstance(tgt, ClassInfo):
                            ini = idx.find_method(tgt, "__init__")
                            params = ini.params[1:] if ini is not None else None
                        elif isinstance(tgt, FunctionInfo):
                            params = tgt.params
                        if params:
                            for i, a in enumerate(n.args):
                                if i < len(params) and params[i] in _SLOT and not isinstance(a, ast.Starred):
                                    sites.append((_SLOT[params[i]], a, f"positional {params[i]}"))
                elif isinstance(n, ast.Assign) and len(n.targets) == 1 and isinstance(n.targets[0], ast.Attribute) \
                        and n.targets[0].attr in _SLOT:
                    sites.append((_SLOT[n.targets[0].attr], n.value, f".{n.targets[0].attr} ="))
                for role, val, how in sites:
                    n_sites += 1
                    r5.instance(f"{f.short}: {how}{norm1(val, 50)}")
                    got = _roles(val)
                    other = "Inv" if role == "TR" else "TR"
                    pm = fctx(f)[2] if other in got else None
                    r5.check(other not in got, f"{how} slot of kind {role} receives {sorted(got) or 'a kind-neutral value'}", f,
                             enclosing(pm, n, ast.stmt) if pm is not None and not isinstance(n, ast.stmt) else n,
                             f"`{how}{norm1(val, 80)}`: the {'time-reversal' if role == 'TR' else 'inversion'} slot is given the "
                             f"{'inversion' if role == 'TR' else 'time-reversal'} transform: quantities whose TR and inversion parities differ "
                             f"(e.g. TR-odd, inversion-even pseudovectors) pick up the wrong sign under improper / magnetic operations, so "
                             f"symmetrised and unsymmetrised results differ")
    r5.note(f"{n_sites} hand-over sites examined")

    # ---------------------------------------------------------------- R07.6
    kpoint_action(ctx, "R07.6")

    # ---------------------------------------------------------------- R07.4
    c08.run(ctx)


from ..selftest import V  # noqa: E402

SELFTEST = [
    V("product() folds the list in reversed order (seeded C07-m8)", PS, "    for op in lst[-1::-1]:\n        res = op * res\n", "    for op in lst:\n        res = op * res\n", "fire", "R07.2"),
    V("product() folds forward with right multiplication", PS, "    for op in lst[-1::-1]:\n        res = op * res\n", "    for op in lst:\n        res = res * op\n", "silent", "R07.2"),
    V("tabulated k-points mapped with R instead of R.T in a vectorised rewrite (seeded C07-m6)", TAB, '        kpoints = [sym.transform_reduced_vector(k, self.recip_lattice) for k in self.kpoints]\n', '        kpoints_cart = self.kpoints @ self.recip_lattice\n        kpoints_cart = (kpoints_cart @ sym.R) * (sym.iTR * sym.iInv)\n        kpoints = kpoints_cart @ np.linalg.inv(self.recip_lattice)\n', "fire", "R07.1"),
    V("tabulated k-points mapped by the vectorised chain of transform_reduced_vector", TAB, '        kpoints = [sym.transform_reduced_vector(k, self.recip_lattice) for k in self.kpoints]\n', '        kpoints_cart = self.kpoints @ self.recip_lattice\n        kpoints_cart = (kpoints_cart @ sym.R.T) * (sym.iTR * sym.iInv)\n        kpoints = kpoints_cart @ np.linalg.inv(self.recip_lattice)\n', "silent", "R07.1"),
    V("seeded C07-m2: k-resolved static result gets the TR transform in the inversion slot", "wannierberri/calculators/static.py",
      "return K__Result([restot], transformTR=formula.transformTR, transformInv=formula.transformInv,",
      "return K__Result([restot], transformTR=formula.transformTR, transformInv=formula.transformTR,", "fire", "R07.5"),
    V("tabulator swaps the two declared transforms", "wannierberri/calculators/tabulate.py",
      "return KBandResult(rslt, transformTR=formula.transformTR, transformInv=formula.transformInv)",
      "return KBandResult(rslt, transformTR=formula.transformInv, transformInv=formula.transformTR)", "fire", "R07.5"),
    V("Matrix formulas: inversion parity looked up with the TR table", "wannierberri/data_K/data_K.py",
      "transformInv=get_transform_Inv(name, commader),", "transformInv=get_transform_TR(name, commader),", "fire", "R07.5"),
    V("K result restored from a dict with the keys crossed", KB, "transformInv=transform_from_dict(res, 'transformInv'),",
      "transformInv=transform_from_dict(res, 'transformTR'),", "fire", "R07.5"),
    V("seeded C07-m1: time reversal no longer flips k", PS, "* (self.iTR * self.iInv)", "* self.iInv", "fire", "R07.6"),
    V("neutral: positional hand-over in the tabulator", "wannierberri/calculators/tabulate.py",
      "return KBandResult(rslt, transformTR=formula.transformTR, transformInv=formula.transformInv)",
      "return KBandResult(rslt, formula.transformTR, formula.transformInv)", "silent"),
    V("EnergyResult transformed with the inversion rule for TR", ER,
      "                                      transformTR=self.transformTR,\n                                      transformInv=self.transformInv),",
      "                                      transformTR=self.transformInv,\n                                      transformInv=self.transformInv),", "fire", "R07.1"),
    V("K result transformed as a scalar", KB, "sym.transform_tensor(data, rank=self.rank,", "sym.transform_tensor(data, rank=0,", "fire", "R07.1"),
    V("tabulated k-points not mapped", TAB, "kpoints = [sym.transform_reduced_vector(k, self.recip_lattice) for k in self.kpoints]", "kpoints = [k for k in self.kpoints]", "fire", "R07.1"),
    V("group average divided by a constant", PS, "        return sum(result.transform(s) for s in self.symmetries) / self.size", "        return sum(result.transform(s) for s in self.symmetries) / 48", "fire", "R07.2"),
    V("symmetrisation stays on for paths", RG, "            symmetrize = False\n", "            pass\n", "fire", "R07.3"),
    V("forced symmetrisation decided after the per-K parameters are frozen", RG, "        if use_irred_kpt:\n            symmetrize = True\n", "        pass\n", "fire", "R07.3"),
    V("neutral: irreducible-wedge rule written as one guard", RG, "        if use_irred_kpt:\n            symmetrize = True\n", "        if use_irred_kpt and not symmetrize:\n            symmetrize = True\n", "silent"),
    V("Transform addresses the permuted axes from the end (seeded C07-m3)", PS,
      "            dim0 = res.ndim - len(self.transpose_axes)\n            trans = tuple(i for i in range(dim0)) + tuple(dim0 + a for a in self.transpose_axes)\n            res[:] = res.transpose(trans)\n",
      "            source = [-1 - a for a in self.transpose_axes]\n            destination = [-1 - i for i in range(len(self.transpose_axes))]\n            res[:] = np.moveaxis(res, source, destination)\n",
      "fire", "R07.1"),
    V("neutral: Transform permutes the trailing axes with np.moveaxis", PS,
      "            dim0 = res.ndim - len(self.transpose_axes)\n            trans = tuple(i for i in range(dim0)) + tuple(dim0 + a for a in self.transpose_axes)\n            res[:] = res.transpose(trans)\n",
      "            n = len(self.transpose_axes)\n            res[:] = np.moveaxis(res, [a - n for a in self.transpose_axes], [i - n for i in range(n)])\n",
      "silent"),
    V("neutral: tensor axes rotated through np.moveaxis", PS,
      "            res = self.rotate(\n                res.transpose(tuple(range(i)) + tuple(range(i + 1, dim)) +\n                              (i,))).transpose(tuple(range(i)) + (dim - 1,) + tuple(range(i, dim - 1)))\n",
      "            res = np.moveaxis(self.rotate(np.moveaxis(res, i, -1)), -1, i)\n", "silent"),
    V("rotated axis put back one position too early", PS,
      "            res = self.rotate(\n                res.transpose(tuple(range(i)) + tuple(range(i + 1, dim)) +\n                              (i,))).transpose(tuple(range(i)) + (dim - 1,) + tuple(range(i, dim - 1)))\n",
      "            res = np.moveaxis(self.rotate(np.moveaxis(res, i, -1)), -1, max(i - 1, dim - rank))\n", "fire", "R07.1"),
    V("irreducible K-points without forced symmetrisation", RG, "        if use_irred_kpt:\n            symmetrize = True\n", "", "fire", "R07.3"),
    V("Omega declared TR-even (enters through C08)", "wannierberri/formula/covariant.py",
      "        self.ndim = 1\n        self.transformTR = transform_odd\n        self.transformInv = transform_ident\n\n    def nn(self, ik, inn, out):\n        summ = np.zeros((len(inn), len(inn), 3), dtype=complex)\n\n        if self.internal_terms:\n            summ += -1j * cached_einsum(\n                \"mlc,lnc->mnc\",\n                self.D.nl(ik, inn, out)[:, :, alpha_A],\n                self.D.ln(ik, inn, out)[:, :, beta_A])",
      "        self.ndim = 1\n        self.transformTR = transform_ident\n        self.transformInv = transform_ident\n\n    def nn(self, ik, inn, out):\n        summ = np.zeros((len(inn), len(inn), 3), dtype=complex)\n\n        if self.internal_terms:\n            summ += -1j * cached_einsum(\n                \"mlc,lnc->mnc\",\n                self.D.nl(ik, inn, out)[:, :, alpha_A],\n                self.D.ln(ik, inn, out)[:, :, beta_A])",
      "fire", "R08.1"),
]
