"""C07 — symmetry reduction / symmetrisation exact for symmetric systems (plumbing clauses + C08).

R07.1 every Result class transforms its data with its OWN rank / transformTR / transformInv and carries them unchanged;
      tabulated k-points are mapped with the same operation.
R07.2 the group average runs over all operations and divides by their number.
R07.3 in run(): irreducible K-points force symmetrisation before the per-K function is configured; the per-K result is
      symmetrised with the system's point group; the initial reduction and the refinement use the same flag.
R07.4 = C08 (the declared parities that symmetrisation consumes are the parities of the evaluated expressions).
R07.5 role agreement: wherever a TR-transform or an inversion-transform is handed over (keyword, positional constructor
      argument, attribute store), the value handed to the `transformTR` slot does not name the inversion transform and
      vice versa — over the whole package.
R07.6 = R06.5 (the k-point action of an operation carries the TR and inversion signs).
"""
from __future__ import annotations

import ast

from ..index import AnalysisError, call_name, norm, norm1
from . import c08
from .c06 import kpoint_action
from ..index import ClassInfo, FunctionInfo
from ..sem import Sem
import re
from .common import calls, enclosing, fctx, in_body, is_name, method_calls, pfind, pmatch, stmts

LEVEL = "other"
EXPLANATION = (
    "The behaviour (irreducible-wedge result = full-grid result) is numerical; what is decided statically is that a wrong "
    "parity or weight cannot enter through plumbing: every Result.transform hands the object's own rank and declared "
    "transforms to PointSymmetry.transform_tensor and rebuilds the result with the same fields (keyword-level def-use), "
    "TABresult.transform maps its k-points with the same operation, the group average divides by the number of operations it "
    "sums over, run() forces symmetrisation when irreducible K-points are used (CFG dominance before the remote parameters are "
    "frozen), and — through the C08 grade interpreter — the declarations themselves are right for all inferable formulas. "
    "Not decided: numerical equality of irreducible and full-grid integrals.")

ER = "wannierberri/result/energyresult.py"
KB = "wannierberri/result/kbandresult.py"
TAB = "wannierberri/result/tabresult.py"
RD = "wannierberri/result/resultdict.py"
PS = "wannierberri/symmetry/point_symmetry.py"
RG = "wannierberri/run_grid.py"


_SLOT = {"transformTR": "TR", "transformInv": "Inv", "transform_TR": "TR", "transform_Inv": "Inv", "transform_I": "Inv"}
_TR_TOKEN = re.compile(r"(?:^|_|transform)TR$|^TR_|time_?reversal", re.I)
_INV_TOKEN = re.compile(r"(?:^|_|transform)Inv$|transform_I$|^Inv_|inversion", re.I)


def _roles(e: ast.AST) -> set:
    """Kinds (TR / Inv) named by the identifiers and string keys of an expression handed to a transform slot."""
    out = set()
    for n in ast.walk(e):
        tok = None
        if isinstance(n, ast.Name):
            tok = n.id
        elif isinstance(n, ast.Attribute):
            tok = n.attr
        elif isinstance(n, ast.Constant) and isinstance(n.value, str):
            tok = n.value
        if tok is None:
            continue
        if _TR_TOKEN.search(tok):
            out.add("TR")
        if _INV_TOKEN.search(tok):
            out.add("Inv")
    return out


def run(ctx) -> None:
    idx = ctx.index

    # ---------------------------------------------------------------- R07.1
    r1 = ctx.rule("R07.1", "Result.transform uses and carries the object's own rank and declared transforms", min_instances=4)
    for rel, cn in ((ER, "EnergyResult"), (KB, "K__Result")):
        m = idx.cls(rel, cn).methods.get("transform")
        if m is None:
            raise AnalysisError(f"{cn}.transform vanished")
        from ..sem import inline_private_helpers
        m = inline_private_helpers(idx, m)
        r1.instance(m.short)
        tc = [c for c in method_calls(m.node, "transform_tensor")]
        if len(tc) != 1:
            raise AnalysisError(f"{cn}.transform: expected one transform_tensor call")
        c = tc[0]
        sym = m.node.args.args[1].arg
        args = {k.arg: norm(k.value) for k in c.keywords}
        pos = [norm(a) for a in c.args]
        rank = args.get("rank") or (pos[1] if len(pos) > 1 else None)
        r1.check(is_name(c.func.value, sym) and rank == "self.rank" and args.get("transformTR") == "self.transformTR"
                 and args.get("transformInv") == "self.transformInv",
                 f"{cn}: data transformed by the given operation with self.rank / self.transformTR / self.transformInv", m, c,
                 f"{cn}.transform calls `{norm1(c, 120)}`: the tensor is not transformed with the result's own rank and declared "
                 f"TR/inversion transforms, so symmetry images get the wrong sign or the wrong axes are rotated")
        ctor = [x for x in ast.walk(m.node) if isinstance(x, ast.Call) and norm(x.func) == "self.__class__"]
        kw = {k.arg: norm(k.value) for k in ctor[0].keywords} if ctor else {}
        r1.check(bool(ctor) and all(kw.get(f) == f"self.{f}" for f in ("transformTR", "transformInv", "rank")),
                 f"{cn}: the transformed result keeps rank and declared transforms", m, ctor[0] if ctor else m.node,
                 f"{cn}.transform rebuilds the result with {kw}: a second operation (group products) would use other transforms")
    tt = idx.cls(TAB, "TABresult").methods.get("transform")
    r1.instance(tt.short)
    t = norm(tt.node).replace(" ", "")
    r1.check("{r:self.results[r].transform(sym)forrinself.results}" in t and "[sym.transform_reduced_vector(k,self.recip_lattice)forkinself.kpoints]" in t,
             "TABresult: every quantity and every k-point is mapped with the same operation", tt, tt.node,
             "TABresult.transform does not map all quantities and the k-points with the same operation", stmt="TAB transform")
    rd = idx.cls(RD, "ResultDict").methods.get("transform")
    r1.instance(rd.short)
    from .c16 import _dict_normal
    RDS = Sem(idx, rd)
    okrd = False
    for c_ in ast.walk(rd.node):
        if isinstance(c_, ast.Call) and call_name(c_) == "ResultDict" and c_.args:
            nf = _dict_normal(RDS, c_.args[0], RDS.du.node_of_expr(c_))
            if nf is not None:
                key, val, src, conds = nf
                okrd = src == "self.results" and val == f"self.results[{key}].transform({rd.params[1]})" and not conds
    r1.check(okrd, "ResultDict transforms every entry", rd, rd.node,
             "ResultDict.transform does not transform every entry", stmt="dict transform")
    ttf = idx.function(PS, "PointSymmetry.transform_tensor")
    tf = norm(ttf.node).replace(" ", "")
    r1.check("ifself.TR:transformTR(res)" in tf.replace("\n", "") and "ifself.Inv:transformInv(res)" in tf.replace("\n", "") and
             "foriinrange(dim-rank,dim):" in tf and "res=self.rotate(" in tf,
             "transform_tensor: rotate the last `rank` axes, then apply the TR / inversion transform iff the operation contains it", ttf, ttf.node,
             "transform_tensor no longer rotates exactly the tensor axes and applies TR/Inv transforms conditionally on the operation", stmt="transform_tensor")

    # ---------------------------------------------------------------- R07.2
    r2 = ctx.rule("R07.2", "group average = sum over all operations / number of operations", min_instances=2)
    pg = idx.cls(PS, "PointGroup")
    for mname in ("symmetrize", "symmetrize_tensor"):
        m = pg.methods.get(mname)
        r2.instance(m.short)
        hit = pmatch(m.node, "sum(ANY for S in self.symmetries) / self.size", {"S"})
        r2.check(len(hit) == 1, f"{mname}: Σ_s over self.symmetries divided by self.size", m, m.node,
                 f"PointGroup.{mname} is not (sum over all symmetries) / size: the symmetrised result is scaled or misses operations", stmt=mname)
    sz = pg.methods.get("size")
    r2.check(sz is not None and "return len(self.symmetries)" in norm(sz.node), "size is the number of operations", sz or f"{PS}:PointGroup", (sz.node if sz else pg.node),
             "PointGroup.size is no longer len(self.symmetries)", stmt="size")

    # ---------------------------------------------------------------- R07.3
    r3 = ctx.rule("R07.3", "run(): irreducible K-points ⇒ symmetrised per-K results")
    runf = idx.function(RG, "run")
    cfg, du, pm = fctx(runf)
    r3.instance(runf.short)
    force = [s for s in stmts(runf.node) if isinstance(s, ast.If) and norm(s.test) == "use_irred_kpt"
             and any(norm(b) == "symmetrize = True" for b in s.body)]
    rp = [s for s in stmts(runf.node) if isinstance(s, ast.Assign) and is_name(s.targets[0], "remote_parameters") and "'symmetrize': symmetrize" in norm(s.value)]
    pathif = [s for s in stmts(runf.node) if isinstance(s, ast.If) and norm(s.test) == "isinstance(grid, Path)"]
    okf = len(force) == 1 and len(rp) >= 1 and len(pathif) >= 1 and in_body(pathif[0].orelse, force[0]) and \
        force[0] in pathif[0].orelse and cfg.dominates(cfg.node(pathif[0]), cfg.node(rp[0]))
    r3.check(okf, "on a grid, `use_irred_kpt ⇒ symmetrize = True` is decided before the per-K parameters are frozen", runf, force[0] if force else runf.node,
             "run() can evaluate only irreducible K-points without symmetrising the per-K results (the `if use_irred_kpt: symmetrize = True` "
             "rule is missing from the grid branch or comes after remote_parameters is built): the integral over the wedge is not the "
             "integral over the zone")
    par = [n for n in ast.walk(runf.node) if isinstance(n, ast.FunctionDef) and n.name == "paralfunc"]
    oksym = False
    if par:
        ppm = fctx(par[0])[2]
        for c_ in method_calls(par[0], "symmetrize"):
            st_ = enclosing(ppm, c_, ast.stmt)
            g_ = enclosing(ppm, c_, ast.If)
            if norm(c_.func.value).endswith(".pointgroup") and isinstance(st_, ast.Assign) and c_.args and norm(st_.targets[0]) == norm(c_.args[0]) and st_.value is c_ \
                    and g_ is not None and norm(g_.test) == "symmetrize" and in_body(g_.body, st_):
                rets_ = [r_ for r_ in ast.walk(par[0]) if isinstance(r_, ast.Return) and r_.value is not None]
                oksym = bool(rets_) and all(norm(r_.value) == norm(st_.targets[0]) for r_ in rets_)
    r3.check(oksym, "the per-K result is symmetrised with the system's point group", runf, par[0] if par else runf.node,
             "the per-K function no longer symmetrises its result with _system.pointgroup when asked to", stmt="paralfunc symmetrize")
    RS7 = Sem(idx, runf)
    usym = [(c_, k_.value) for c_ in ast.walk(runf.node) if isinstance(c_, ast.Call) for k_ in c_.keywords if k_.arg == "use_symmetry"]
    okflag = len(usym) >= 2 and all(norm(v_) == "use_irred_kpt" for _, v_ in usym) and any(norm(c_.func).endswith("get_K_list") for c_, _ in usym) \
        and any(norm(c_.func).endswith("divide") for c_, _ in usym)
    exc = [c_ for c_ in calls(runf.node, "exclude_equiv_points") if call_name(c_) == "exclude_equiv_points"]
    okexc = len(exc) == 1 and any(("use_irred_kpt" == t_ or t_.startswith("use_irred_kpt and") or " and use_irred_kpt" in t_) and p_ for t_, p_, _ in RS7.conditions(enclosing(pm, exc[0], ast.stmt), resolve=False))
    r3.check(okflag and okexc, "initial reduction, refinement and merging all follow use_irred_kpt", runf, (exc[0] if exc else runf.node),
             "the initial K-list, the refinement and the merging of new points do not use the same use_irred_kpt flag", stmt="use_irred_kpt plumbing")
    tr = norm(runf.node).replace(" ", "")
    r3.check("ifsymmetrize:print('SymmetrizationswitchedoffforPath')symmetrize=False" in tr.replace("\n", ""), "paths are never symmetrised", runf, runf.node,
             "symmetrisation is no longer switched off for paths", stmt="path no symmetrize")

    # ---------------------------------------------------------------- R07.5
    r5 = ctx.rule("R07.5", "transformTR / transformInv slots receive the transform of their own kind", min_instances=40)
    n_sites = 0
    for m in idx.modules.values():
        if not m.relpath.startswith("wannierberri/"):
            continue
        owners = list(m.functions.values()) + [mm for c in m.classes.values() for mm in c.methods.values()]
        for f in owners:
            for n in ast.walk(f.node):
                sites = []   # (slot role, value expr, description)
                if isinstance(n, ast.Call):
                    for k in n.keywords:
                        if k.arg in _SLOT:
                            sites.append((_SLOT[k.arg], k.value, f"{k.arg}="))
                    if n.args and isinstance(n.func, (ast.Name, ast.Attribute)):
                        tgt = None
                        try:
                            tgt = idx.resolve_expr(m, n.func)
                        except Exception:
                            tgt = None
                        params = None
                        if isinstance(tgt, ClassInfo):
                            ini = idx.find_method(tgt, "__init__")
                            params = ini.params[1:] if ini is not None else None
                        elif isinstance(tgt, FunctionInfo):
                            params = tgt.params
                        if params:
                            for i, a in enumerate(n.args):
                                if i < len(params) and params[i] in _SLOT and not isinstance(a, ast.Starred):
                                    sites.append((_SLOT[params[i]], a, f"positional {params[i]}"))
                elif isinstance(n, ast.Assign) and len(n.targets) == 1 and isinstance(n.targets[0], ast.Attribute) \
                        and n.targets[0].attr in _SLOT:
                    sites.append((_SLOT[n.targets[0].attr], n.value, f".{n.targets[0].attr} ="))
                for role, val, how in sites:
                    n_sites += 1
                    r5.instance(f"{f.short}: {how}{norm1(val, 50)}")
                    got = _roles(val)
                    other = "Inv" if role == "TR" else "TR"
                    pm = fctx(f)[2] if other in got else None
                    r5.check(other not in got, f"{how} slot of kind {role} receives {sorted(got) or 'a kind-neutral value'}", f,
                             enclosing(pm, n, ast.stmt) if pm is not None and not isinstance(n, ast.stmt) else n,
                             f"`{how}{norm1(val, 80)}`: the {'time-reversal' if role == 'TR' else 'inversion'} slot is given the "
                             f"{'inversion' if role == 'TR' else 'time-reversal'} transform: quantities whose TR and inversion parities differ "
                             f"(e.g. TR-odd, inversion-even pseudovectors) pick up the wrong sign under improper / magnetic operations, so "
                             f"symmetrised and unsymmetrised results differ")
    r5.note(f"{n_sites} hand-over sites examined")

    # ---------------------------------------------------------------- R07.6
    kpoint_action(ctx, "R07.6")

    # ---------------------------------------------------------------- R07.4
    c08.run(ctx)


from ..selftest import V  # noqa: E402

SELFTEST = [
    V("seeded C07-m2: k-resolved static result gets the TR transform in the inversion slot", "wannierberri/calculators/static.py",
      "return K__Result([restot], transformTR=formula.transformTR, transformInv=formula.transformInv,",
      "return K__Result([restot], transformTR=formula.transformTR, transformInv=formula.transformTR,", "fire", "R07.5"),
    V("tabulator swaps the two declared transforms", "wannierberri/calculators/tabulate.py",
      "return KBandResult(rslt, transformTR=formula.transformTR, transformInv=formula.transformInv)",
      "return KBandResult(rslt, transformTR=formula.transformInv, transformInv=formula.transformTR)", "fire", "R07.5"),
    V("Matrix formulas: inversion parity looked up with the TR table", "wannierberri/data_K/data_K.py",
      "transformInv=get_transform_Inv(name, commader),", "transformInv=get_transform_TR(name, commader),", "fire", "R07.5"),
    V("K result restored from a dict with the keys crossed", KB, "transformInv=transform_from_dict(res, 'transformInv'),",
      "transformInv=transform_from_dict(res, 'transformTR'),", "fire", "R07.5"),
    V("seeded C07-m1: time reversal no longer flips k", PS, "* (self.iTR * self.iInv)", "* self.iInv", "fire", "R07.6"),
    V("neutral: positional hand-over in the tabulator", "wannierberri/calculators/tabulate.py",
      "return KBandResult(rslt, transformTR=formula.transformTR, transformInv=formula.transformInv)",
      "return KBandResult(rslt, formula.transformTR, formula.transformInv)", "silent"),
    V("EnergyResult transformed with the inversion rule for TR", ER,
      "                                      transformTR=self.transformTR,\n                                      transformInv=self.transformInv),",
      "                                      transformTR=self.transformInv,\n                                      transformInv=self.transformInv),", "fire", "R07.1"),
    V("K result transformed as a scalar", KB, "sym.transform_tensor(data, rank=self.rank,", "sym.transform_tensor(data, rank=0,", "fire", "R07.1"),
    V("tabulated k-points not mapped", TAB, "kpoints = [sym.transform_reduced_vector(k, self.recip_lattice) for k in self.kpoints]", "kpoints = [k for k in self.kpoints]", "fire", "R07.1"),
    V("group average divided by a constant", PS, "        return sum(result.transform(s) for s in self.symmetries) / self.size", "        return sum(result.transform(s) for s in self.symmetries) / 48", "fire", "R07.2"),
    V("irreducible K-points without forced symmetrisation", RG, "        if use_irred_kpt:\n            symmetrize = True\n", "", "fire", "R07.3"),
    V("Omega declared TR-even (enters through C08)", "wannierberri/formula/covariant.py",
      "        self.ndim = 1\n        self.transformTR = transform_odd\n        self.transformInv = transform_ident\n\n    def nn(self, ik, inn, out):\n        summ = np.zeros((len(inn), len(inn), 3), dtype=complex)\n\n        if self.internal_terms:\n            summ += -1j * cached_einsum(\n                \"mlc,lnc->mnc\",\n                self.D.nl(ik, inn, out)[:, :, alpha_A],\n                self.D.ln(ik, inn, out)[:, :, beta_A])",
      "        self.ndim = 1\n        self.transformTR = transform_ident\n        self.transformInv = transform_ident\n\n    def nn(self, ik, inn, out):\n        summ = np.zeros((len(inn), len(inn), 3), dtype=complex)\n\n        if self.internal_terms:\n            summ += -1j * cached_einsum(\n                \"mlc,lnc->mnc\",\n                self.D.nl(ik, inn, out)[:, :, alpha_A],\n                self.D.ln(ik, inn, out)[:, :, beta_A])",
      "fire", "R08.1"),
]
